#![no_main]
//! One libFuzzer target for every byte-vector family of every check: VFUZZ_PROP / VFUZZ_FAMILY select
//! the case function; the oracle is the one the proptest driver uses (vcheck::fuzzstage::fuzz_case).
use libfuzzer_sys::fuzz_target;

fuzz_target!(|data: &[u8]| {
    vcheck::fuzzstage::fuzz_case(data);
});
