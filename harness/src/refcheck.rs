//! Independent reference semantics over `model`: the name table and scope resolution of C03,
//! alias flattening, and the canonical ("resolved") form of a program that `observe` must equal.
//!
//! Written from the property statements: a table from fully scoped names to entities of every
//! named kind; `lookup(name, M)`: a name starting with `::` is looked up globally only; otherwise
//! every prefix of the referencing module path `M`, longest first, then the global scope — the
//! first hit wins whatever its kind, and only afterwards is the kind checked against the position.

use crate::model::*;
use crate::observe::normalize_attr;
use std::collections::HashMap;

#[derive(Clone, Copy, Debug, PartialEq, Eq, Hash)]
pub enum EKind {
    Module,
    Struct,
    Interface,
    Enum,
    Custom,
    Alias,
    Field,
    Enumerator,
    Operation,
    Parameter,
    Primitive,
}

impl EKind {
    pub fn is_type(self) -> bool {
        matches!(
            self,
            EKind::Struct | EKind::Enum | EKind::Custom | EKind::Alias | EKind::Primitive
        )
    }
    pub fn name(self) -> &'static str {
        match self {
            EKind::Module => "module",
            EKind::Struct => "struct",
            EKind::Interface => "interface",
            EKind::Enum => "enum",
            EKind::Custom => "custom",
            EKind::Alias => "alias",
            EKind::Field => "field",
            EKind::Enumerator => "enumerator",
            EKind::Operation => "operation",
            EKind::Parameter => "parameter",
            EKind::Primitive => "primitive",
        }
    }
}

#[derive(Clone, Debug)]
pub struct Entity {
    pub kind: EKind,
    pub scoped: String,
    /// file index and definition index (for definitions and their members)
    pub file: usize,
    pub def: usize,
    /// path in the `render` / `observe` scheme, e.g. `f0/d1/m2`
    pub path: String,
}

#[derive(Default)]
pub struct Table {
    /// every entity registered under its fully scoped name, in registration order
    pub map: HashMap<String, Vec<Entity>>,
}

pub fn join(scope: &str, name: &str) -> String {
    if scope.is_empty() {
        name.to_owned()
    } else {
        format!("{scope}::{name}")
    }
}

impl Table {
    pub fn build(p: &Program) -> Table {
        let mut t = Table::default();
        for prim in PRIMITIVES {
            t.add(EKind::Primitive, prim.to_owned(), usize::MAX, usize::MAX, String::new());
        }
        for (fi, f) in p.files.iter().enumerate() {
            let scope = f.module.as_ref().map(|m| m.scope()).unwrap_or_default();
            for (di, d) in f.defs.iter().enumerate() {
                let dpath = format!("f{fi}/d{di}");
                let dscoped = join(&scope, d.name());
                match d {
                    DefM::Struct(s) => {
                        for (k, fld) in s.fields.iter().enumerate() {
                            t.add(EKind::Field, join(&dscoped, &fld.name), fi, di, format!("{dpath}/m{k}"));
                        }
                        t.add(EKind::Struct, dscoped, fi, di, dpath);
                    }
                    DefM::Interface(i) => {
                        for (k, op) in i.ops.iter().enumerate() {
                            let oscoped = join(&dscoped, &op.name);
                            for (q, prm) in op.params.iter().enumerate() {
                                t.add(EKind::Parameter, join(&oscoped, &prm.name), fi, di, format!("{dpath}/m{k}/p{q}"));
                            }
                            match &op.ret {
                                RetM::None => {}
                                RetM::Single(_) => {
                                    t.add(EKind::Parameter, join(&oscoped, "returnValue"), fi, di, format!("{dpath}/m{k}/r0"));
                                }
                                RetM::Tuple(v) => {
                                    for (q, prm) in v.iter().enumerate() {
                                        t.add(EKind::Parameter, join(&oscoped, &prm.name), fi, di, format!("{dpath}/m{k}/r{q}"));
                                    }
                                }
                            }
                            t.add(EKind::Operation, oscoped, fi, di, format!("{dpath}/m{k}"));
                        }
                        t.add(EKind::Interface, dscoped, fi, di, dpath);
                    }
                    DefM::Enum(e) => {
                        for (k, en) in e.enumerators.iter().enumerate() {
                            let escoped = join(&dscoped, &en.name);
                            if let Some(fs) = &en.fields {
                                for (q, fld) in fs.iter().enumerate() {
                                    t.add(EKind::Field, join(&escoped, &fld.name), fi, di, format!("{dpath}/m{k}/m{q}"));
                                }
                            }
                            t.add(EKind::Enumerator, escoped, fi, di, format!("{dpath}/m{k}"));
                        }
                        t.add(EKind::Enum, dscoped, fi, di, dpath);
                    }
                    DefM::Custom(_) => t.add(EKind::Custom, dscoped, fi, di, dpath),
                    DefM::Alias(_) => t.add(EKind::Alias, dscoped, fi, di, dpath),
                }
            }
            if let Some(m) = &f.module {
                t.add(EKind::Module, m.scope(), fi, usize::MAX, format!("f{fi}/module"));
            }
        }
        t
    }

    fn add(&mut self, kind: EKind, scoped: String, file: usize, def: usize, path: String) {
        self.map.entry(scoped.clone()).or_default().push(Entity {
            kind,
            scoped,
            file,
            def,
            path,
        });
    }

    /// Entities registered under exactly this scoped name (modules re-opened in several files
    /// count once).
    pub fn exact(&self, scoped: &str) -> Vec<&Entity> {
        self.map.get(scoped).map(|v| v.iter().collect()).unwrap_or_default()
    }

    /// True if the name table is ambiguous at `scoped`: two different non-module entities, or a
    /// module and a non-module (the F-15 situation).
    pub fn ambiguous(&self, scoped: &str) -> bool {
        let v = self.exact(scoped);
        let non_modules = v.iter().filter(|e| e.kind != EKind::Module).count();
        let modules = v.iter().filter(|e| e.kind == EKind::Module).count();
        non_modules > 1 || (non_modules >= 1 && modules >= 1)
    }

    /// The statement's lookup.  Returns the scoped key that hits first, and the entities there.
    pub fn lookup(&self, name: &str, module_scope: &str) -> Option<(String, Vec<&Entity>)> {
        if let Some(rest) = name.strip_prefix("::") {
            let v = self.exact(rest);
            return if v.is_empty() { None } else { Some((rest.to_owned(), v)) };
        }
        let mut segs: Vec<&str> = if module_scope.is_empty() {
            Vec::new()
        } else {
            module_scope.split("::").collect()
        };
        loop {
            let cand = if segs.is_empty() {
                name.to_owned()
            } else {
                format!("{}::{}", segs.join("::"), name)
            };
            let v = self.exact(&cand);
            if !v.is_empty() {
                return Some((cand, v));
            }
            if segs.is_empty() {
                return None;
            }
            segs.pop();
        }
    }
}

#[derive(Clone, Debug, PartialEq, Eq)]
pub struct RefError {
    /// E033 (designates nothing), E017 (wrong kind), E019 (alias loop)
    pub code: &'static str,
    /// path of the type expression / base / underlying where the offending reference is written
    pub at: String,
    pub name: String,
}

pub struct Resolver<'p> {
    pub program: &'p Program,
    pub table: Table,
    pub errors: Vec<RefError>,
    /// set when a lookup hit an ambiguous table entry (binding then depends on registration order)
    pub ambiguous_hit: bool,
    /// aliases of anonymous types whose expression is being expanded (loop detection)
    expanding: Vec<String>,
}

#[derive(Clone, Copy, PartialEq, Eq)]
pub enum Position {
    Type,
    Base,
    Underlying,
}

impl<'p> Resolver<'p> {
    pub fn new(program: &'p Program) -> Resolver<'p> {
        Resolver {
            program,
            table: Table::build(program),
            errors: Vec::new(),
            ambiguous_hit: false,
            expanding: Vec::new(),
        }
    }

    fn alias_of(&self, e: &Entity) -> (&'p AliasM, String) {
        let f = &self.program.files[e.file];
        let scope = f.module.as_ref().map(|m| m.scope()).unwrap_or_default();
        match &f.defs[e.def] {
            DefM::Alias(a) => (a, scope),
            _ => unreachable!("alias entity without alias definition"),
        }
    }

    fn err(&mut self, code: &'static str, at: &str, name: &str) {
        self.errors.push(RefError {
            code,
            at: at.to_owned(),
            name: name.to_owned(),
        });
    }

    /// Resolves a named reference written at `at` in module `scope`.  On success returns the
    /// canonical kind plus the attributes picked up from alias links.
    fn resolve_named(&mut self, name: &str, scope: &str, at: &str, pos: Position) -> Option<(TypeK, Vec<AttrM>)> {
        let Some((key, ents)) = self.table.lookup(name, scope) else {
            self.err("E033", at, name);
            return None;
        };
        if self.table.ambiguous(&key) {
            self.ambiguous_hit = true;
        }
        // with an unambiguous table there is exactly one entity (or only modules)
        let ent = ents.last().unwrap().clone();
        let ent = (*ent).clone();
        let mut attrs: Vec<AttrM> = Vec::new();
        let mut cur = ent;
        let mut chain: Vec<String> = Vec::new();
        loop {
            match cur.kind {
                EKind::Alias => {
                    if chain.contains(&cur.scoped) {
                        // a loop: E019 is reported for the alias that closes on itself; every use
                        // additionally fails to resolve (E033)
                        if chain.first() == Some(&cur.scoped) {
                            self.err("E019", at, name);
                        }
                        self.err("E033", at, name);
                        return None;
                    }
                    chain.push(cur.scoped.clone());
                    let (alias, alias_scope) = self.alias_of(&cur);
                    attrs.extend(alias.ty.attrs.iter().map(normalize_attr));
                    match &alias.ty.kind {
                        TypeK::Named(next) => {
                            let Some((key2, ents2)) = self.table.lookup(next, &alias_scope) else {
                                self.err("E033", at, name);
                                return None;
                            };
                            if self.table.ambiguous(&key2) {
                                self.ambiguous_hit = true;
                            }
                            cur = (*ents2.last().unwrap()).clone();
                        }
                        _other => {
                            // primitive or anonymous type written in the alias: canonical form of that
                            // expression, resolved in the alias's own module
                            if self.expanding.contains(&cur.scoped) {
                                // the alias reaches itself through an anonymous type
                                self.err("E019", at, name);
                                return None;
                            }
                            self.expanding.push(cur.scoped.clone());
                            let saved = self.errors.len();
                            let inner = TypeM {
                                attrs: vec![],
                                kind: alias.ty.kind.clone(),
                                optional: false,
                            };
                            let at_alias = format!("{}/type", cur.path);
                            let r = self.resolve_type(&inner, &alias_scope, &at_alias);
                            self.expanding.pop();
                            let looped = self.errors[saved..].iter().any(|e| e.code == "E019");
                            // errors inside the alias's own expression are reported where the alias is
                            // written (they are found again when the alias definition itself is
                            // resolved); do not duplicate them for the use site
                            self.errors.truncate(saved);
                            if looped {
                                self.err("E019", at, name);
                            }
                            let r = r?;
                            return match pos {
                                Position::Type => Some((r.kind, attrs)),
                                Position::Underlying => match r.kind {
                                    TypeK::Prim(p) => Some((TypeK::Prim(p), attrs)),
                                    _ => {
                                        self.err("E017", at, name);
                                        None
                                    }
                                },
                                Position::Base => {
                                    self.err("E017", at, name);
                                    None
                                }
                            };
                        }
                    }
                }
                k => {
                    let canon = match (pos, k) {
                        (Position::Type, EKind::Struct) => TypeK::Named(format!("@struct {}", cur.scoped)),
                        (Position::Type, EKind::Enum) => TypeK::Named(format!("@enum {}", cur.scoped)),
                        (Position::Type, EKind::Custom) => TypeK::Named(format!("@custom {}", cur.scoped)),
                        (Position::Type, EKind::Primitive) | (Position::Underlying, EKind::Primitive) => {
                            TypeK::Prim(cur.scoped.clone())
                        }
                        (Position::Base, EKind::Interface) => TypeK::Named(format!("@interface {}", cur.scoped)),
                        _ => {
                            self.err("E017", at, name);
                            return None;
                        }
                    };
                    return Some((canon, attrs));
                }
            }
        }
    }

    /// Canonical form of a type expression written at path `at` in module `scope`.
    pub fn resolve_type(&mut self, t: &TypeM, scope: &str, at: &str) -> Option<TypeM> {
        let mut attrs: Vec<AttrM> = t.attrs.iter().map(normalize_attr).collect();
        let kind = match &t.kind {
            TypeK::Prim(p) => Some(TypeK::Prim(p.clone())),
            TypeK::Named(n) => match self.resolve_named(n, scope, at, Position::Type) {
                Some((k, extra)) => {
                    attrs.extend(extra);
                    Some(k)
                }
                None => None,
            },
            TypeK::Seq(e) => {
                let e2 = self.resolve_type(e, scope, &format!("{at}/0"));
                e2.map(|e2| TypeK::Seq(Box::new(e2)))
            }
            TypeK::Dict(k, v) => {
                let k2 = self.resolve_type(k, scope, &format!("{at}/0"));
                let v2 = self.resolve_type(v, scope, &format!("{at}/1"));
                match (k2, v2) {
                    (Some(k2), Some(v2)) => Some(TypeK::Dict(Box::new(k2), Box::new(v2))),
                    _ => None,
                }
            }
            TypeK::Result(a, b) => {
                let a2 = self.resolve_type(a, scope, &format!("{at}/0"));
                let b2 = self.resolve_type(b, scope, &format!("{at}/1"));
                match (a2, b2) {
                    (Some(a2), Some(b2)) => Some(TypeK::Result(Box::new(a2), Box::new(b2))),
                    _ => None,
                }
            }
        };
        kind.map(|kind| TypeM {
            attrs,
            kind,
            optional: t.optional,
        })
    }

    fn resolve_positional(&mut self, t: &TypeM, scope: &str, at: &str, pos: Position) -> Option<TypeM> {
        let mut attrs: Vec<AttrM> = t.attrs.iter().map(normalize_attr).collect();
        let kind = match &t.kind {
            TypeK::Named(n) => match self.resolve_named(n, scope, at, pos) {
                Some((k, extra)) => {
                    attrs.extend(extra);
                    Some(k)
                }
                None => None,
            },
            TypeK::Prim(p) if pos == Position::Underlying => Some(TypeK::Prim(p.clone())),
            _ => {
                // a primitive as base, an anonymous type as base or underlying type: wrong kind
                self.err("E017", at, &t.to_text());
                None
            }
        };
        kind.map(|kind| TypeM {
            attrs,
            kind,
            optional: t.optional,
        })
    }

    fn canon_prelude(pre: &Prelude) -> Prelude {
        Prelude {
            doc: Vec::new(),
            attrs: pre.attrs.iter().map(normalize_attr).collect(),
            docm: None,
        }
    }

    fn canon_field(&mut self, f: &FieldM, scope: &str, path: &str) -> Option<FieldM> {
        let ty = self.resolve_type(&f.ty, scope, &format!("{path}/type"));
        Some(FieldM {
            pre: Self::canon_prelude(&f.pre),
            tag: f.tag,
            name: f.name.clone(),
            ty: ty?,
        })
    }

    fn canon_param(&mut self, p: &ParamM, scope: &str, path: &str, keep_name: bool) -> Option<ParamM> {
        let ty = self.resolve_type(&p.ty, scope, &format!("{path}/type"));
        Some(ParamM {
            pre: Self::canon_prelude(&p.pre),
            tag: p.tag,
            name: if keep_name { p.name.clone() } else { String::new() },
            stream: p.stream,
            ty: ty?,
        })
    }

    /// The canonical form of the whole program — what `observe::observe_program` must return after
    /// an error-free compilation — or None if some reference does not resolve (see `errors`).
    pub fn resolve_program(&mut self) -> Option<Program> {
        let mut out = Program::default();
        let mut ok = true;
        let program = self.program;
        for (fi, f) in program.files.iter().enumerate() {
            let scope = f.module.as_ref().map(|m| m.scope()).unwrap_or_default();
            let mut nf = FileM {
                path: f.path.clone(),
                file_attrs: f.file_attrs.iter().map(normalize_attr).collect(),
                module: f.module.as_ref().map(|m| ModuleM {
                    attrs: m.attrs.iter().map(normalize_attr).collect(),
                    path: m.path.clone(),
                }),
                defs: Vec::new(),
            };
            for (di, d) in f.defs.iter().enumerate() {
                let dp = format!("f{fi}/d{di}");
                let nd = match d {
                    DefM::Struct(s) => {
                        let mut fields = Vec::new();
                        for (k, fld) in s.fields.iter().enumerate() {
                            match self.canon_field(fld, &scope, &format!("{dp}/m{k}")) {
                                Some(x) => fields.push(x),
                                None => ok = false,
                            }
                        }
                        DefM::Struct(StructM {
                            pre: Self::canon_prelude(&s.pre),
                            compact: s.compact,
                            name: s.name.clone(),
                            fields,
                        })
                    }
                    DefM::Interface(i) => {
                        let mut bases = Vec::new();
                        for (b, base) in i.bases.iter().enumerate() {
                            match self.resolve_positional(base, &scope, &format!("{dp}/base{b}"), Position::Base) {
                                Some(x) => bases.push(x),
                                None => ok = false,
                            }
                        }
                        let mut ops = Vec::new();
                        for (k, op) in i.ops.iter().enumerate() {
                            let opp = format!("{dp}/m{k}");
                            let mut params = Vec::new();
                            for (q, prm) in op.params.iter().enumerate() {
                                match self.canon_param(prm, &scope, &format!("{opp}/p{q}"), true) {
                                    Some(x) => params.push(x),
                                    None => ok = false,
                                }
                            }
                            let ret = match &op.ret {
                                RetM::None => RetM::None,
                                RetM::Single(prm) => match self.canon_param(prm, &scope, &format!("{opp}/r0"), false) {
                                    Some(x) => RetM::Single(Box::new(x)),
                                    None => {
                                        ok = false;
                                        RetM::None
                                    }
                                },
                                RetM::Tuple(v) => {
                                    let mut rs = Vec::new();
                                    for (q, prm) in v.iter().enumerate() {
                                        match self.canon_param(prm, &scope, &format!("{opp}/r{q}"), true) {
                                            Some(x) => rs.push(x),
                                            None => ok = false,
                                        }
                                    }
                                    RetM::Tuple(rs)
                                }
                            };
                            ops.push(OpM {
                                pre: Self::canon_prelude(&op.pre),
                                idempotent: op.idempotent,
                                name: op.name.clone(),
                                params,
                                ret,
                            });
                        }
                        DefM::Interface(InterfaceM {
                            pre: Self::canon_prelude(&i.pre),
                            name: i.name.clone(),
                            bases,
                            ops,
                        })
                    }
                    DefM::Enum(e) => {
                        let underlying = match &e.underlying {
                            None => None,
                            Some(u) => {
                                match self.resolve_positional(u, &scope, &format!("{dp}/underlying"), Position::Underlying) {
                                    Some(x) => Some(x),
                                    None => {
                                        ok = false;
                                        None
                                    }
                                }
                            }
                        };
                        let mut enumerators = Vec::new();
                        let mut prev: Option<i128> = None;
                        for (k, en) in e.enumerators.iter().enumerate() {
                            let ep = format!("{dp}/m{k}");
                            let fields = match &en.fields {
                                None => None,
                                Some(fs) => {
                                    let mut v = Vec::new();
                                    for (q, fld) in fs.iter().enumerate() {
                                        match self.canon_field(fld, &scope, &format!("{ep}/m{q}")) {
                                            Some(x) => v.push(x),
                                            None => ok = false,
                                        }
                                    }
                                    Some(v)
                                }
                            };
                            let effective = match en.value {
                                Some(v) => v,
                                None => prev.map_or(0, |p| p.wrapping_add(1)),
                            };
                            prev = Some(effective);
                            enumerators.push(EnumeratorM {
                                pre: Self::canon_prelude(&en.pre),
                                name: en.name.clone(),
                                fields,
                                value: en.value,
                                effective,
                            });
                        }
                        DefM::Enum(EnumM {
                            pre: Self::canon_prelude(&e.pre),
                            compact: e.compact,
                            unchecked: e.unchecked,
                            name: e.name.clone(),
                            underlying,
                            enumerators,
                        })
                    }
                    DefM::Custom(c) => DefM::Custom(CustomM {
                        pre: Self::canon_prelude(&c.pre),
                        name: c.name.clone(),
                    }),
                    DefM::Alias(a) => {
                        let ty = self.resolve_type(&a.ty, &scope, &format!("{dp}/type"));
                        match ty {
                            Some(ty) => DefM::Alias(AliasM {
                                pre: Self::canon_prelude(&a.pre),
                                name: a.name.clone(),
                                ty,
                            }),
                            None => {
                                ok = false;
                                DefM::Alias(AliasM {
                                    pre: Self::canon_prelude(&a.pre),
                                    name: a.name.clone(),
                                    ty: TypeM::prim("bool"),
                                })
                            }
                        }
                    }
                };
                nf.defs.push(nd);
            }
            out.files.push(nf);
        }
        if ok {
            Some(out)
        } else {
            None
        }
    }
}

/// First difference between two programs, as a readable path (for mismatch classes / details).
pub fn first_difference(expected: &Program, observed: &Program) -> Option<(String, String)> {
    use serde_json::Value;
    fn walk(path: &str, a: &Value, b: &Value) -> Option<(String, String)> {
        match (a, b) {
            (Value::Object(x), Value::Object(y)) => {
                for (k, va) in x {
                    match y.get(k) {
                        Some(vb) => {
                            if let Some(d) = walk(&format!("{path}/{k}"), va, vb) {
                                return Some(d);
                            }
                        }
                        None => return Some((format!("{path}/{k}"), format!("expected {va}, observed nothing"))),
                    }
                }
                for k in y.keys() {
                    if !x.contains_key(k) {
                        return Some((format!("{path}/{k}"), format!("expected nothing, observed {}", y[k])));
                    }
                }
                None
            }
            (Value::Array(x), Value::Array(y)) => {
                for (i, (va, vb)) in x.iter().zip(y.iter()).enumerate() {
                    if let Some(d) = walk(&format!("{path}[{i}]"), va, vb) {
                        return Some(d);
                    }
                }
                if x.len() != y.len() {
                    return Some((
                        format!("{path}.len"),
                        format!("expected {} elements, observed {}", x.len(), y.len()),
                    ));
                }
                None
            }
            _ => {
                if a != b {
                    Some((path.to_owned(), format!("expected {a}, observed {b}")))
                } else {
                    None
                }
            }
        }
    }
    let a = serde_json::to_value(expected).ok()?;
    let b = serde_json::to_value(observed).ok()?;
    walk("", &a, &b)
}

/// Structural class of a difference path: indices removed, so that the same kind of mismatch has
/// the same class on every input.
pub fn class_of_path(path: &str) -> String {
    let mut out = String::new();
    let mut in_index = false;
    for c in path.chars() {
        if c == '[' {
            in_index = true;
            continue;
        }
        if c == ']' {
            in_index = false;
            continue;
        }
        if !in_index {
            out.push(c);
        }
    }
    out
}
