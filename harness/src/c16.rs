//! C16 — doc comments keep their text, tags and links.
//!
//! G: the `doc` generator puts comments (0..4 overview lines with varied — also non-ASCII and
//! mixed — indentation, blank lines, inline links at line start / middle / end, block tags with
//! inline and continuation messages) on every commentable position of generated programs; link
//! and see targets of every kind and scope distance; plus a catalogue of malformed / misfitting
//! forms.  O: the reference of `doc::expected` (text), the C03 reference lookup started at the
//! documented element (links), lint kinds and levels, and the C02 comparison (nothing is lost).

use crate::c02::split_input;
use crate::c08::link_id;
use crate::compile::*;
use crate::doc::{self, Part};
use crate::engine::*;
use crate::gen::{gen_program, pick, GenCfg};
use crate::model::*;
use crate::observe::observe_program;
use crate::refcheck::{class_of_path, first_difference, join, Resolver, Table};
use crate::rules::check_program;
use crate::{check, fail};
use arbitrary::Unstructured;
use serde_json::json;
use slicec::grammar::*;
use std::collections::BTreeMap;

pub struct C16;

#[derive(Clone, Debug, PartialEq, Eq)]
pub enum ObsPart {
    Text(String),
    /// Ok(scoped id of the linked entity) / Err(written identifier, unresolved)
    Link(Result<String, String>),
}

#[derive(Clone, Debug, Default)]
pub struct ObsDoc {
    pub overview: Option<Vec<ObsPart>>,
    pub params: Vec<(String, Vec<ObsPart>)>,
    pub returns: Vec<(Option<String>, Vec<ObsPart>)>,
    pub see: Vec<Result<String, String>>,
}

fn obs_message(m: &Message) -> Vec<ObsPart> {
    let mut out: Vec<ObsPart> = Vec::new();
    for c in &m.value {
        match c {
            MessageComponent::Text(t) => match out.last_mut() {
                Some(ObsPart::Text(a)) => a.push_str(t),
                _ => out.push(ObsPart::Text(t.clone())),
            },
            MessageComponent::Link(l) => out.push(ObsPart::Link(match l.linked_entity() {
                Ok(e) => Ok(e.parser_scoped_identifier()),
                Err(id) => Err(id.value.clone()),
            })),
        }
    }
    out.retain(|p| !matches!(p, ObsPart::Text(t) if t.is_empty()));
    out
}

pub fn obs_doc(c: &DocComment) -> ObsDoc {
    ObsDoc {
        overview: c.overview.as_ref().map(obs_message),
        params: c.params.iter().map(|p| (p.identifier.value.clone(), obs_message(&p.message))).collect(),
        returns: c.returns.iter().map(|r| (r.identifier.as_ref().map(|i| i.value.clone()), obs_message(&r.message))).collect(),
        see: c
            .see
            .iter()
            .map(|s| match s.linked_entity() {
                Ok(e) => Ok(e.parser_scoped_identifier()),
                Err(id) => Err(id.value.clone()),
            })
            .collect(),
    }
}

/// Comments of all commentable entities, keyed by element path (`f0/d1/m2`).
pub fn observed_docs(state: &slicec::compilation_state::CompilationState) -> BTreeMap<String, ObsDoc> {
    let mut out = BTreeMap::new();
    let mut put = |path: String, c: Option<&DocComment>| {
        if let Some(c) = c {
            out.insert(path, obs_doc(c));
        }
    };
    for (fi, f) in state.files.iter().enumerate() {
        for (di, d) in f.contents.iter().enumerate() {
            let dp = format!("f{fi}/d{di}");
            match d {
                Definition::Struct(p) => {
                    let s = p.borrow();
                    put(dp.clone(), s.comment());
                    for (k, fld) in s.fields().into_iter().enumerate() {
                        put(format!("{dp}/m{k}"), fld.comment());
                    }
                }
                Definition::Interface(p) => {
                    let i = p.borrow();
                    put(dp.clone(), i.comment());
                    for (k, op) in i.operations().into_iter().enumerate() {
                        put(format!("{dp}/m{k}"), op.comment());
                    }
                }
                Definition::Enum(p) => {
                    let e = p.borrow();
                    put(dp.clone(), e.comment());
                    for (k, en) in e.enumerators().into_iter().enumerate() {
                        put(format!("{dp}/m{k}"), en.comment());
                        for (q, fld) in en.fields().into_iter().enumerate() {
                            put(format!("{dp}/m{k}/m{q}"), fld.comment());
                        }
                    }
                }
                Definition::CustomType(p) => put(dp, p.borrow().comment()),
                Definition::TypeAlias(p) => put(dp, p.borrow().comment()),
            }
        }
    }
    out
}

/// (path, scoped name, prelude, kind) of every commentable element of the model.
pub fn commentables(p: &Program) -> Vec<(String, String, &Prelude, &'static str)> {
    let mut out = Vec::new();
    for (fi, f) in p.files.iter().enumerate() {
        let scope = f.module.as_ref().map(|m| m.scope()).unwrap_or_default();
        for (di, d) in f.defs.iter().enumerate() {
            let dp = format!("f{fi}/d{di}");
            let ds = join(&scope, d.name());
            out.push((dp.clone(), ds.clone(), d.pre(), d.kind()));
            match d {
                DefM::Struct(s) => {
                    for (k, fld) in s.fields.iter().enumerate() {
                        out.push((format!("{dp}/m{k}"), join(&ds, &fld.name), &fld.pre, "field"));
                    }
                }
                DefM::Interface(i) => {
                    for (k, op) in i.ops.iter().enumerate() {
                        out.push((format!("{dp}/m{k}"), join(&ds, &op.name), &op.pre, "operation"));
                    }
                }
                DefM::Enum(e) => {
                    for (k, en) in e.enumerators.iter().enumerate() {
                        let es = join(&ds, &en.name);
                        out.push((format!("{dp}/m{k}"), es.clone(), &en.pre, "enumerator"));
                        for (q, fld) in en.fields.iter().flatten().enumerate() {
                            out.push((format!("{dp}/m{k}/m{q}"), join(&es, &fld.name), &fld.pre, "enumerator-field"));
                        }
                    }
                }
                _ => {}
            }
        }
    }
    out
}

fn exp_parts(parts: &[Part], table: &Table, scoped: &str) -> Vec<ObsPart> {
    let mut out: Vec<ObsPart> = Vec::new();
    for p in doc::flatten(parts) {
        match p {
            Part::Text(t) => out.push(ObsPart::Text(t)),
            Part::Link(t) => {
                let id = link_id(table, &t, scoped);
                out.push(ObsPart::Link(if id == t && !resolves_to_itself(table, &t, scoped) { Err(t) } else { Ok(id) }));
            }
        }
    }
    out
}

/// `link_id` returns the written text for unresolved targets; a target that is written exactly
/// as its own scoped id needs to be told apart from that.
fn resolves_to_itself(table: &Table, target: &str, scoped: &str) -> bool {
    match table.lookup(target, scoped) {
        Some((key, ents)) => {
            let k = ents.last().unwrap().kind;
            key == target
                && !table.ambiguous(&key)
                && matches!(
                    k,
                    crate::refcheck::EKind::Struct
                        | crate::refcheck::EKind::Field
                        | crate::refcheck::EKind::Interface
                        | crate::refcheck::EKind::Operation
                        | crate::refcheck::EKind::Enum
                        | crate::refcheck::EKind::Enumerator
                        | crate::refcheck::EKind::Custom
                        | crate::refcheck::EKind::Alias
                )
        }
        None => false,
    }
}

fn links_of(parts: &[ObsPart]) -> Vec<&Result<String, String>> {
    parts.iter().filter_map(|p| if let ObsPart::Link(l) = p { Some(l) } else { None }).collect()
}

/// lenient relation for the ambiguous cases: same links in order; every observed text is made of
/// the written characters (white space aside)
fn lenient_eq(expected: &[ObsPart], got: &[ObsPart]) -> bool {
    let squeeze = |parts: &[ObsPart]| -> String {
        parts
            .iter()
            .map(|p| match p {
                ObsPart::Text(t) => t.chars().filter(|c| !c.is_whitespace()).collect::<String>(),
                ObsPart::Link(_) => "\u{1}".to_owned(),
            })
            .collect()
    };
    links_of(expected) == links_of(got) && squeeze(expected) == squeeze(got)
}

fn compare_message(what: &str, kind: &str, exact: bool, expected: &[ObsPart], got: &[ObsPart], src: &str) -> CaseResult {
    if exact {
        check!(
            expected == got,
            format!("text-mismatch/{what}/{}", if links_of(expected) != links_of(got) { "links" } else { "text" }),
            "{kind} {what}: expected {expected:?}\n observed {got:?}\n--- source ---\n{src}"
        );
    } else {
        check!(
            lenient_eq(expected, got),
            format!("text-mismatch/{what}/lenient"),
            "{kind} {what} (lenient comparison): expected {expected:?}\n observed {got:?}\n--- source ---\n{src}"
        );
    }
    Ok(())
}

pub fn compare_comments(cx: &mut CaseCtx, p: &Program, state: &slicec::compilation_state::CompilationState, texts: &[String]) -> Result<usize, Fail> {
    let table = Table::build(p);
    let observed = observed_docs(state);
    let src = texts.join("\n=====\n");
    let mut unresolved_links = 0usize;
    let mut expected_paths = Vec::new();
    for (path, scoped, pre, kind) in commentables(p) {
        let Some(dm) = &pre.docm else {
            check!(
                !observed.contains_key(&path) || !pre.doc.is_empty(),
                format!("comment-from-nowhere/{kind}"),
                "{path}: a comment was observed where none was written"
            );
            continue;
        };
        expected_paths.push(path.clone());
        let e = doc::expected(dm);
        let Some(o) = observed.get(&path) else {
            fail!(format!("comment-lost/{kind}"), "{path}: the {kind}'s well-formed comment {:?} is gone\n--- source ---\n{src}", dm.lines());
        };
        cx.label(format!("commented-{kind}"));
        cx.label_if(!e.exact, "lenient-indentation-case");
        // (1) text and (3) links
        match (&e.overview, &o.overview) {
            (None, None) => {}
            (Some(eo), Some(oo)) => compare_message("overview", kind, e.exact, &exp_parts(eo, &table, &scoped), oo, &src)?,
            (a, b) => fail!(format!("overview-presence/{kind}"), "{path}: overview expected {a:?}, observed {b:?}\n--- source ---\n{src}"),
        }
        // (2) tags carry the written identifiers in order
        let ep: Vec<&String> = e.params.iter().map(|x| &x.0).collect();
        let op: Vec<&String> = o.params.iter().map(|x| &x.0).collect();
        check!(ep == op, "tag-identifiers/param", "{path}: @param identifiers expected {ep:?}, observed {op:?}\n--- source ---\n{src}");
        let er: Vec<&Option<String>> = e.returns.iter().map(|x| &x.0).collect();
        let or: Vec<&Option<String>> = o.returns.iter().map(|x| &x.0).collect();
        check!(er == or, "tag-identifiers/returns", "{path}: @returns identifiers expected {er:?}, observed {or:?}\n--- source ---\n{src}");
        for ((_, em), (_, om)) in e.params.iter().zip(&o.params) {
            compare_message("param-message", kind, e.exact, &exp_parts(em, &table, &scoped), om, &src)?;
            cx.label("param-tag");
        }
        for ((_, em), (_, om)) in e.returns.iter().zip(&o.returns) {
            compare_message("returns-message", kind, e.exact, &exp_parts(em, &table, &scoped), om, &src)?;
            cx.label("returns-tag");
        }
        let es: Vec<Result<String, String>> = e
            .see
            .iter()
            .map(|t| {
                let id = link_id(&table, t, &scoped);
                if id == *t && !resolves_to_itself(&table, t, &scoped) {
                    Err(t.clone())
                } else {
                    Ok(id)
                }
            })
            .collect();
        check!(es == o.see, "see-targets", "{path}: @see expected {es:?}, observed {:?}\n--- source ---\n{src}", o.see);
        cx.label_if(!es.is_empty(), "see-tag");
        // classes of link targets
        let all_links: Vec<&Result<String, String>> = o
            .overview
            .iter()
            .flat_map(|m| links_of(m))
            .chain(o.params.iter().flat_map(|x| links_of(&x.1)))
            .chain(o.returns.iter().flat_map(|x| links_of(&x.1)))
            .chain(o.see.iter())
            .collect();
        for l in all_links {
            match l {
                Ok(id) => {
                    cx.label("link-resolved");
                    cx.label_if(id.starts_with(&format!("{scoped}::")), "link-to-own-member");
                    let parent = scoped.rsplit_once("::").map(|x| x.0).unwrap_or("");
                    cx.label_if(!parent.is_empty() && id.starts_with(&format!("{parent}::")) && *id != scoped, "link-to-sibling");
                }
                Err(_) => {
                    unresolved_links += 1;
                    cx.label("link-unresolved");
                }
            }
        }
        let has_tag_cont = dm.tags.iter().any(|t| match t {
            doc::Tag::Param { cont, .. } | doc::Tag::Returns { cont, .. } => !cont.is_empty(),
            _ => false,
        });
        cx.label_if(has_tag_cont, "tag-with-continuation");
        cx.label_if(dm.overview.iter().any(|l| l.pieces.first().map(|p| matches!(p, doc::Piece::Link { .. })).unwrap_or(false) && !l.indent.is_empty()), "link-at-line-start-after-indentation");
        cx.label_if(dm.overview.iter().any(|l| !l.indent.is_ascii()), "non-ascii-indentation");
    }
    Ok(unresolved_links)
}

fn valid_case(cx: &mut CaseCtx, input: Input, cfg: &GenCfg) -> CaseResult {
    let (lay_bytes, prog_bytes) = split_input(input.bytes());
    let mut u = Unstructured::new(prog_bytes);
    let (p, _labels) = gen_program(&mut u, cfg);
    cx.set_key(&p);
    let mut resolver = Resolver::new(&p);
    let Some(canon) = resolver.resolve_program() else {
        cx.label("generator-produced-unresolvable-program");
        return Ok(());
    };
    if resolver.ambiguous_hit || !check_program(&p).well_formed() {
        cx.label("generator-produced-ill-formed-program");
        return Ok(());
    }
    let (texts, _r) = crate::c02::render_layout(&p, lay_bytes, 0);
    cx.sample_with(|| json!({"files": texts}));
    let docs: Vec<&crate::doc::DocModel> = commentables(&p).iter().filter_map(|c| c.2.docm.as_deref()).collect();
    cx.nontrivial = docs.iter().any(|d| {
        d.overview.len() >= 2 || d.overview.iter().any(|l| l.has_link()) || d.tags.iter().any(|t| !matches!(t, doc::Tag::See { .. }))
    });
    let state = compile_strings(&texts, None);
    if state.diagnostics.has_errors() {
        let diags = diagnostics_of(state, &Default::default());
        fail!(
            format!("error-from-comment/{}", error_codes(&diags).first().cloned().unwrap_or_default()),
            "a program whose only peculiarity is its doc comments is rejected:\n{}\n--- source ---\n{}",
            summarize(&diags),
            texts.join("\n=====\n")
        );
    }
    // nothing is lost: the documented elements and their siblings are exactly the model
    let observed = observe_program(&state);
    if observed != canon {
        let (path, what) = first_difference(&canon, &observed).unwrap_or_default();
        fail!(format!("element-lost{}", class_of_path(&path)), "at {path}: {what}\n--- source ---\n{}", texts.join("\n=====\n"));
    }
    let unresolved = compare_comments(cx, &p, &state, &texts)?;
    // lints: warnings only; one BrokenDocLink per unresolved link
    let diags = diagnostics_of(state, &Default::default());
    for d in &diags {
        // generated programs carry `allow` attributes: a lint is a warning or silenced, never an error
        check!(
            d.level != "error",
            format!("lint-level/{}", d.code),
            "{} has level {}\n{}",
            d.code,
            d.level,
            summarize(&diags)
        );
    }
    let broken = diags.iter().filter(|d| d.code == "BrokenDocLink").count();
    check!(
        broken == unresolved,
        "broken-link-count",
        "{unresolved} links are unresolved but {broken} BrokenDocLink lints are reported\n{}\n--- source ---\n{}",
        summarize(&diags),
        texts.join("\n=====\n")
    );
    check!(
        !diags.iter().any(|d| d.code == "MalformedDocComment"),
        "well-formed-comment-reported-malformed",
        "{}\n--- source ---\n{}",
        summarize(&diags),
        texts.join("\n=====\n")
    );
    Ok(())
}

// ---- malformed / misfitting catalogue ---------------------------------------------------------

const MALFORMED: [(&str, &[&str]); 10] = [
    ("unknown-tag", &[" text", " @foo bar"]),
    ("at-alone", &[" @ link"]),
    ("missing-brace", &[" see {@link Foo", " next line"]),
    ("inline-param", &[" uses {@param x} inline"]),
    ("block-link", &[" @link Foo"]),
    ("stray-symbol", &[" @param (x: text"]),
    ("param-without-identifier", &[" @param : text"]),
    ("see-with-trailing-text", &[" @see Foo and more"]),
    ("see-then-text-line", &[" @see Foo", " stray text line"]),
    ("returns-two-identifiers", &[" @returns a b: text"]),
];

const MISFIT: [(&str, &[&str]); 12] = [
    ("param-no-such-parameter", &[" @param nosuchparam: text"]),
    ("returns-on-non-returning", &[" @returns: text"]),
    ("param-on-non-operation", &[" @param x: text"]),
    ("returns-named-no-such-member", &[" @returns nosuchmember: text"]),
    // several tags in one comment: the misfit one is not the first, or there are two of them
    ("returns-unnamed-then-no-such-member", &[" @returns: the whole result", " @returns nosuchmember: text"]),
    ("two-returns-no-such-member", &[" @returns nosuchone: text", " @returns nosuchtwo: text"]),
    ("two-params-no-such-parameter", &[" @param nosuchone: text", " @param nosuchtwo: text"]),
    // the message runs over several lines and ends in a smaller column than the tag line
    ("param-on-non-operation-multiline", &[" @param someLongParameterName: description of it", " ok"]),
    ("returns-on-non-returning-multiline", &[" @returns: a long first line of text for the message", " x", " y z"]),
    // `returnValue` is what the compiler itself calls an unnamed return value: the comment may not
    ("returns-internal-name-on-unnamed-return", &[" @returns returnValue: text"]),
    // a `@param` tag may only name a parameter: not a member of the return tuple (`@RET@` is replaced by the name
    // of one that no parameter has), and not the compiler's own name for an unnamed return value
    ("param-names-a-return-member", &[" @param @RET@: text"]),
    ("param-internal-name-of-unnamed-return", &[" @param returnValue: text"]),
];

/// Number of IncorrectDocComment lints a misfit form must at least produce.
fn misfit_lints(name: &str) -> usize {
    match name {
        "two-returns-no-such-member" | "two-params-no-such-parameter" => 2,
        _ => 1,
    }
}

/// A generated program with one defective doc comment planted on a victim element.
pub struct Defect {
    pub program: Program,
    pub victim: String,
    pub vkind: &'static str,
    pub name: &'static str,
    pub malformed: bool,
}

/// Builds the defect of one case; `Err(label)` when the chosen defect does not apply.
pub fn make_defect(u: &mut Unstructured, cfg: &GenCfg) -> Result<Defect, &'static str> {
    let malformed = pick(u, 3) != 0;
    let which = pick(u, 12);
    let (mut p, _labels) = gen_program(u, cfg);
    // choose the victim among the commentable elements
    let paths: Vec<(String, &'static str)> = commentables(&p).iter().map(|c| (c.0.clone(), c.3)).collect();
    if paths.is_empty() {
        return Err("no-commentable-element");
    }
    let (name, lines): (&str, &[&str]) = if malformed {
        MALFORMED[which % MALFORMED.len()]
    } else {
        MISFIT[which % MISFIT.len()]
    };
    // forms that only fit an operation choose among the operations (there are few of them among all elements)
    let needs_operation = !malformed
        && matches!(
            name,
            "param-no-such-parameter"
                | "returns-named-no-such-member"
                | "returns-unnamed-then-no-such-member"
                | "two-returns-no-such-member"
                | "two-params-no-such-parameter"
                | "returns-internal-name-on-unnamed-return"
                | "param-names-a-return-member"
                | "param-internal-name-of-unnamed-return"
        );
    let operations: Vec<(String, &'static str)> = paths.iter().filter(|c| c.1 == "operation").cloned().collect();
    let pool = if needs_operation && !operations.is_empty() { &operations } else { &paths };
    let (victim, vkind) = pool[pick(u, pool.len())].clone();
    // misfit forms need the right kind of victim
    let vpre = victim_prelude(&mut p, &victim);
    let Some(vpre) = vpre else { return Err("no-prelude") };
    vpre.doc = lines.iter().map(|s| s.to_string()).collect();
    vpre.docm = None;
    let op_info = operation_info(&p, &victim);
    let applicable = if malformed {
        true
    } else {
        match name {
            "param-no-such-parameter" => vkind == "operation",
            "returns-on-non-returning" | "returns-on-non-returning-multiline" => vkind != "operation" || op_info.map(|o| o.0 == 0).unwrap_or(false),
            "param-on-non-operation" | "param-on-non-operation-multiline" => vkind != "operation" && vkind != "enumerator",
            "returns-named-no-such-member" | "returns-unnamed-then-no-such-member" | "two-returns-no-such-member" => {
                vkind == "operation" && op_info.map(|o| o.0 >= 1).unwrap_or(false)
            }
            "two-params-no-such-parameter" => vkind == "operation",
            "returns-internal-name-on-unnamed-return" => vkind == "operation" && single_unnamed_return(&p, &victim),
            "param-internal-name-of-unnamed-return" => {
                vkind == "operation" && single_unnamed_return(&p, &victim) && !member_names(&p, &victim).0.iter().any(|n| n == "returnValue")
            }
            "param-names-a-return-member" => {
                let (params, rets) = member_names(&p, &victim);
                match rets.iter().find(|r| !params.contains(r)).cloned() {
                    Some(r) if vkind == "operation" => {
                        if let Some(pre) = victim_prelude(&mut p, &victim) {
                            pre.doc = vec![format!(" @param {r}: text")];
                        }
                        true
                    }
                    _ => false,
                }
            }
            _ => false,
        }
    };
    if !applicable {
        return Err("defect-not-applicable-to-victim");
    }
    Ok(Defect { program: p, victim, vkind, name, malformed })
}

fn defect_case(cx: &mut CaseCtx, input: Input, cfg: &GenCfg) -> CaseResult {
    let (lay_bytes, prog_bytes) = split_input(input.bytes());
    let mut u = Unstructured::new(prog_bytes);
    let Defect { program: p, victim, vkind, name, malformed } = match make_defect(&mut u, cfg) {
        Ok(d) => d,
        Err(l) => {
            if l != "no-prelude" {
                cx.label(l);
            }
            return Ok(());
        }
    };
    cx.label(format!("defect:{name}"));
    cx.label(format!("victim:{vkind}"));
    cx.set_key(&p);
    cx.nontrivial = true;
    let mut resolver = Resolver::new(&p);
    let Some(canon) = resolver.resolve_program() else { return Ok(()) };
    if resolver.ambiguous_hit || !check_program(&p).well_formed() {
        return Ok(());
    }
    let (texts, _r) = crate::c02::render_layout(&p, lay_bytes, 0);
    cx.sample_with(|| json!({"files": texts, "defect": name, "victim": victim}));
    let src = texts.join("\n=====\n");
    let state = compile_strings(&texts, None);
    check!(
        !state.diagnostics.has_errors(),
        format!("defect-became-error/{name}"),
        "a defective doc comment ({name}) on {victim} produced an error\n--- source ---\n{src}"
    );
    let observed = observe_program(&state);
    if observed != canon {
        let (path, what) = first_difference(&canon, &observed).unwrap_or_default();
        fail!(format!("element-lost/{name}{}", class_of_path(&path)), "defect {name} on {victim}: at {path}: {what}\n--- source ---\n{src}");
    }
    let docs = observed_docs(&state);
    // the other comments are untouched
    compare_comments(cx, &p, &state, &texts)?;
    let present = docs.contains_key(&victim);
    let diags = diagnostics_of(state, &Default::default());
    for d in &diags {
        check!(d.level != "error", format!("lint-level/{}", d.code), "{} has level {}", d.code, d.level);
    }
    if malformed {
        check!(
            diags.iter().any(|d| d.code == "MalformedDocComment"),
            format!("malformed-not-reported/{name}"),
            "defect {name} on {victim}: no MalformedDocComment lint\n{}\n--- source ---\n{src}",
            summarize(&diags)
        );
        check!(!present, format!("malformed-comment-kept/{name}"), "defect {name}: the malformed comment is still attached to {victim}");
    } else {
        let n = diags.iter().filter(|d| d.code == "IncorrectDocComment").count();
        check!(
            n >= misfit_lints(name),
            format!("misfit-not-reported/{name}"),
            "defect {name} on {victim} ({vkind}): {n} IncorrectDocComment lint(s), expected at least {}\n{}\n--- source ---\n{src}",
            misfit_lints(name),
            summarize(&diags)
        );
        check!(present, format!("misfit-comment-dropped/{name}"), "defect {name}: the comment of {victim} was dropped");
    }
    Ok(())
}

/// (number of return members, number of parameters) of the operation at `path`
fn single_unnamed_return(p: &Program, path: &str) -> bool {
    let segs: Vec<&str> = path.split('/').collect();
    if segs.len() != 3 {
        return false;
    }
    let (Ok(fi), Ok(di), Ok(k)) = (segs[0][1..].parse::<usize>(), segs[1][1..].parse::<usize>(), segs[2][1..].parse::<usize>()) else { return false };
    match p.files.get(fi).and_then(|f| f.defs.get(di)) {
        Some(DefM::Interface(i)) => i.ops.get(k).map(|o| matches!(o.ret, RetM::Single(_))).unwrap_or(false),
        _ => false,
    }
}

/// Names of the parameters and of the (named) return members of the operation at `path`.
fn member_names(p: &Program, path: &str) -> (Vec<String>, Vec<String>) {
    let segs: Vec<&str> = path.split('/').collect();
    if segs.len() != 3 {
        return (vec![], vec![]);
    }
    let (Ok(fi), Ok(di), Ok(k)) = (segs[0][1..].parse::<usize>(), segs[1][1..].parse::<usize>(), segs[2][1..].parse::<usize>()) else {
        return (vec![], vec![]);
    };
    match p.files.get(fi).and_then(|f| f.defs.get(di)) {
        Some(DefM::Interface(i)) => match i.ops.get(k) {
            Some(o) => {
                let rets = match &o.ret {
                    RetM::Tuple(ms) => ms.iter().map(|m| m.name.clone()).collect(),
                    _ => vec![],
                };
                (o.params.iter().map(|m| m.name.clone()).collect(), rets)
            }
            None => (vec![], vec![]),
        },
        _ => (vec![], vec![]),
    }
}

fn operation_info(p: &Program, path: &str) -> Option<(usize, usize)> {
    let segs: Vec<&str> = path.split('/').collect();
    if segs.len() != 3 {
        return None;
    }
    let fi: usize = segs[0][1..].parse().ok()?;
    let di: usize = segs[1][1..].parse().ok()?;
    let k: usize = segs[2][1..].parse().ok()?;
    match p.files.get(fi)?.defs.get(di)? {
        DefM::Interface(i) => i.ops.get(k).map(|o| (o.ret.members().len(), o.params.len())),
        _ => None,
    }
}

pub fn victim_prelude<'a>(p: &'a mut Program, path: &str) -> Option<&'a mut Prelude> {
    let segs: Vec<&str> = path.split('/').collect();
    let fi: usize = segs[0][1..].parse().ok()?;
    let di: usize = segs[1][1..].parse().ok()?;
    let d = p.files.get_mut(fi)?.defs.get_mut(di)?;
    if segs.len() == 2 {
        return Some(d.pre_mut());
    }
    let k: usize = segs[2][1..].parse().ok()?;
    match d {
        DefM::Struct(s) => s.fields.get_mut(k).map(|f| &mut f.pre),
        DefM::Interface(i) => i.ops.get_mut(k).map(|o| &mut o.pre),
        DefM::Enum(e) => {
            let en = e.enumerators.get_mut(k)?;
            if segs.len() == 3 {
                Some(&mut en.pre)
            } else {
                let q: usize = segs[3][1..].parse().ok()?;
                en.fields.as_mut()?.get_mut(q).map(|f| &mut f.pre)
            }
        }
        _ => None,
    }
}

impl Check for C16 {
    fn id(&self) -> &'static str {
        "C16"
    }
    fn rule(&self) -> String {
        "families: comments = proptest choice sequences -> well-formed program whose commentable elements (struct, field, interface, operation, enum, enumerator, enumerator field, custom, alias) carry generated doc comments: 0..4 overview lines with uniform / deeper / non-ASCII / mixed indentation, empty and white-space-only lines, inline links at line start / middle / end with white space inside the braces, @param / @returns (named, unnamed) with inline and continuation messages, @see; link targets = bare, scoped and global names of definitions, member names, module names, primitives, missing names; defects = the same programs with one comment replaced by an entry of the malformed (10) or misfit (4) catalogue. Oracle: text == written lines minus common indentation (reference in doc::expected; exact for uniform indentation, lenient otherwise), tag identifiers in order, linked_entity == entity found by the reference outward lookup started at the documented element, one BrokenDocLink per unresolved link, lints are warnings, the C02 comparison still holds, malformed comments are dropped and reported, misfitting ones kept and reported. Non-trivial = >= 2 overview lines, a link, or a message tag".into()
    }
    fn assumptions(&self) -> Vec<String> {
        vec![
            "mixed kinds of indentation and white-space-only lines: only 'same links, same non-blank characters' is asserted".into(),
            "how a message is cut into text components is not asserted (adjacent texts are merged)".into(),
        ]
    }
    fn essential(&self, _tier: Tier) -> Vec<&'static str> {
        vec![
            "commented-struct",
            "commented-field",
            "commented-interface",
            "commented-operation",
            "commented-enum",
            "commented-enumerator",
            "commented-enumerator-field",
            "commented-custom",
            "commented-alias",
            "link-resolved",
            "link-unresolved",
            "link-to-own-member",
            "link-to-sibling",
            "param-tag",
            "returns-tag",
            "see-tag",
            "tag-with-continuation",
            "link-at-line-start-after-indentation",
            "non-ascii-indentation",
            "lenient-indentation-case",
            "defect:unknown-tag",
            "defect:at-alone",
            "defect:missing-brace",
            "defect:inline-param",
            "defect:block-link",
            "defect:stray-symbol",
            "defect:param-without-identifier",
            "defect:see-with-trailing-text",
            "defect:param-no-such-parameter",
            "defect:returns-on-non-returning",
            "defect:param-on-non-operation",
        ]
    }
    fn fuzz_families(&self, _tier: Tier) -> Vec<(&'static str, u64)> {
        // libFuzzer runs per job (16 jobs), sized from the measured speed of the instrumented build
        vec![("comments", 12000), ("defects", 10000)]
    }
    fn families(&self, tier: Tier) -> Vec<Family<'_>> {
        let cfg = GenCfg {
            max_files: 2,
            max_defs: 6,
            doc_chance: 170,
            exotic_docs: true,
            rich_link_targets: true,
            ..GenCfg::default()
        };
        let cfg2 = cfg.clone();
        vec![
            Family::bytes("comments", 700, tier.pick(3_000, 60_000), move |cx, i| valid_case(cx, i, &cfg)),
            Family::bytes("defects", 500, tier.pick(1_500, 30_000), move |cx, i| defect_case(cx, i, &cfg2)),
            Family::replay_only("direct", |cx, i| {
                // regression inputs: a source text; must compile without error and without panic
                let text = String::from_utf8_lossy(i.bytes()).into_owned();
                cx.nontrivial = true;
                let state = compile_strings(&[text], None);
                check!(!state.diagnostics.has_errors(), "direct/error-from-comment", "{}", summarize(&diagnostics_of(state, &Default::default())));
                Ok(())
            }),
        ]
    }
}
