//! C03 — type references bind to the entity the scoping rules designate.
//!
//! Reference model: `refcheck::Resolver` (name table + outward scope search + alias flattening).
//! Families: `scopes` = bounded-exhaustive arrangements of three nested module levels x a
//! same-named definition of each kind at each level x every spelling x referencing level x
//! position x file order; `alias-chains` = random chains of 1..4 aliases across modules with an
//! attribute on every link and shadowing names; `programs` = random larger programs.

use crate::c02::{render_layout, split_input};
use crate::compile::*;
use crate::engine::*;
use crate::gen::{gen_program, pick, GenCfg};
use crate::model::*;
use crate::observe::observe_program;
use crate::refcheck::{class_of_path, first_difference, join, EKind, Resolver};
use crate::render::Rendered;
use crate::rules::check_program;
use crate::{check, fail};
use arbitrary::Unstructured;
use serde_json::json;
use slicec::grammar::*;

pub struct C03;

/// Every definition, field, enumerator and operation can be retrieved by its fully scoped name.
fn find_elements(state: &slicec::compilation_state::CompilationState, p: &Program) -> CaseResult {
    let ast = &state.ast;
    for f in &p.files {
        let scope = f.module.as_ref().map(|m| m.scope()).unwrap_or_default();
        for d in &f.defs {
            let ds = join(&scope, d.name());
            let ok = match d {
                DefM::Struct(s) => {
                    let r = ast.find_element::<Struct>(&ds);
                    let mut ok = r.as_ref().map(|x| x.identifier() == s.name && x.fields().len() == s.fields.len()).unwrap_or(false);
                    for fld in &s.fields {
                        let fs = join(&ds, &fld.name);
                        let fr = ast.find_element::<Field>(&fs);
                        ok &= fr
                            .map(|x| x.identifier() == fld.name && x.parent().parser_scoped_identifier() == ds)
                            .unwrap_or(false);
                    }
                    ok
                }
                DefM::Interface(i) => {
                    let r = ast.find_element::<Interface>(&ds);
                    let mut ok = r.as_ref().map(|x| x.identifier() == i.name).unwrap_or(false);
                    for op in &i.ops {
                        let os = join(&ds, &op.name);
                        ok &= ast
                            .find_element::<Operation>(&os)
                            .map(|x| x.identifier() == op.name && x.parent().parser_scoped_identifier() == ds)
                            .unwrap_or(false);
                    }
                    ok
                }
                DefM::Enum(e) => {
                    let r = ast.find_element::<Enum>(&ds);
                    let mut ok = r.as_ref().map(|x| x.identifier() == e.name).unwrap_or(false);
                    for en in &e.enumerators {
                        let es = join(&ds, &en.name);
                        ok &= ast
                            .find_element::<Enumerator>(&es)
                            .map(|x| x.identifier() == en.name && x.parent().parser_scoped_identifier() == ds)
                            .unwrap_or(false);
                        for fld in en.fields.iter().flatten() {
                            ok &= ast
                                .find_element::<Field>(&join(&es, &fld.name))
                                .map(|x| x.identifier() == fld.name && x.parent().parser_scoped_identifier() == es)
                                .unwrap_or(false);
                        }
                    }
                    ok
                }
                DefM::Custom(c) => ast.find_element::<CustomType>(&ds).map(|x| x.identifier() == c.name).unwrap_or(false),
                DefM::Alias(a) => ast.find_element::<TypeAlias>(&ds).map(|x| x.identifier() == a.name).unwrap_or(false),
            };
            check!(ok, format!("find-element/{}", d.kind()), "find_element does not return the {} {ds} (or one of its members) with the right kind and parent", d.kind());
            // and the dynamically typed lookup agrees
            check!(
                ast.find_element::<dyn Entity>(&ds).map(|e| e.identifier() == d.name()).unwrap_or(false),
                "find-element/entity",
                "find_element::<dyn Entity>({ds}) failed"
            );
        }
    }
    Ok(())
}

/// The full binding oracle on one program.
pub fn binding(cx: &mut CaseCtx, p: &Program, texts: &[String], rendered: &[Rendered]) -> CaseResult {
    let mut resolver = Resolver::new(p);
    let canon = resolver.resolve_program();
    if resolver.ambiguous_hit {
        cx.label("skipped-ambiguous-name-table");
        return Ok(());
    }
    let report = check_program(p);
    let state = compile_strings(texts, None);
    let src = || texts.join("\n=====\n");
    match canon {
        Some(canon) if report.well_formed() => {
            cx.label("resolves");
            if state.diagnostics.has_errors() {
                let diags = diagnostics_of(state, &Default::default());
                fail!(
                    format!("reject-mismatch/code={}", error_codes(&diags).first().cloned().unwrap_or_default()),
                    "every reference resolves in the reference model, but the compiler reports:\n{}\n--- source ---\n{}",
                    summarize(&diags),
                    src()
                );
            }
            let observed = observe_program(&state);
            if observed != canon {
                let (path, what) = first_difference(&canon, &observed).unwrap_or_default();
                fail!(format!("binding-mismatch{}", class_of_path(&path)), "at {path}: {what}\n--- source ---\n{}", src());
            }
            find_elements(&state, p)?;
        }
        Some(_) => {
            // resolves but violates another rule: C04's subject
            cx.label("resolves-but-ill-formed");
            check!(state.diagnostics.has_errors(), "accept-mismatch/other-rule", "violates {:?} but accepted\n{}", report.rules(), src());
        }
        None => {
            cx.label("does-not-resolve");
            let expected: Vec<_> = resolver.errors.clone();
            let diags = diagnostics_of(state, &Default::default());
            let errors: Vec<&DiagObs> = diags.iter().filter(|d| d.level == "error").collect();
            if errors.is_empty() {
                fail!(
                    format!("silent-binding/{}", expected.first().map(|e| e.code).unwrap_or("?")),
                    "the reference model says {:?} but the program was accepted (a reference was silently bound to something else)\n--- source ---\n{}",
                    expected,
                    src()
                );
            }
            let admissible = report.codes();
            for e in &errors {
                check!(
                    admissible.contains(e.code.as_str()),
                    format!("reject-mismatch/code={}", e.code),
                    "the compiler reports {} but the reference model expects {:?}\n{}\n--- source ---\n{}",
                    e.code,
                    expected,
                    summarize(&diags),
                    src()
                );
            }
            // the resolution errors the compiler reports sit on the written offending references
            let res_codes = ["E033", "E017", "E019"];
            for e in errors.iter().filter(|e| res_codes.contains(&e.code.as_str())) {
                if e.code == "E019" {
                    continue; // reported on the alias definition
                }
                let Some(span) = &e.span else {
                    fail!("resolution-error-without-span", "{} without a span", e.code);
                };
                // some expected error of this code must be written at a type expression whose tokens
                // contain the span
                let hit = expected.iter().filter(|x| x.code == e.code || e.code == "E033").any(|x| {
                    let fi: usize = x.at[1..].split('/').next().and_then(|s| s.parse().ok()).unwrap_or(0);
                    if span.2 != format!("string-{fi}") {
                        return false;
                    }
                    match rendered[fi].types.get(&x.at) {
                        Some(t) => {
                            let a = rendered[fi].tok_start(t.first);
                            let b = rendered[fi].tok_end(t.last);
                            span.0 >= a && span.1 <= b
                        }
                        None => false,
                    }
                });
                check!(
                    hit,
                    format!("resolution-error-misplaced/{}", e.code),
                    "{} is reported at {:?}, which is not inside any offending reference {:?}\n--- source ---\n{}",
                    e.code,
                    span,
                    expected,
                    src()
                );
            }
        }
    }
    Ok(())
}

// ---- scopes: bounded-exhaustive ---------------------------------------------------------------

const LEVELS: [&[&str]; 3] = [&["A"], &["A", "B"], &["A", "B", "C"]];
const SPELLINGS: [&str; 12] = [
    "X", "C::X", "B::C::X", "A::B::C::X", "::A::B::C::X", "::X", "B::X", "A::X", "::A::X", "A::B::X", "::A::B::X", "::B::X",
];
const KINDS: usize = 6; // none, struct, interface, alias, custom, enum
const POSITIONS: usize = 8;
const ORDERS: [[usize; 4]; 6] = [[0, 1, 2, 3], [3, 2, 1, 0], [1, 3, 0, 2], [2, 0, 3, 1], [3, 0, 1, 2], [1, 2, 3, 0]];

/// module naming schemes: the letters A, B, C of LEVELS and SPELLINGS are renamed, so that nested
/// modules repeat the name of an enclosing one (`A::A::A`, `A::B::A`) - a relative spelling then
/// also reads as a path from the global scope
const NAMINGS: [[&str; 3]; 3] = [["A", "B", "C"], ["A", "A", "A"], ["A", "B", "A"]];

pub const SCOPES_TOTAL: u64 = (KINDS * KINDS * KINDS * 3 * 12 * POSITIONS * 6 * 2 * 3) as u64;

fn rename(seg: &str, naming: &[&str; 3]) -> String {
    match seg {
        "A" => naming[0].to_owned(),
        "B" => naming[1].to_owned(),
        "C" => naming[2].to_owned(),
        other => other.to_owned(),
    }
}

fn x_def(kind: usize) -> Option<DefM> {
    Some(match kind {
        0 => return None,
        1 => DefM::Struct(StructM {
            name: "X".into(),
            ..Default::default()
        }),
        2 => DefM::Interface(InterfaceM {
            name: "X".into(),
            ..Default::default()
        }),
        3 => DefM::Alias(AliasM {
            pre: Prelude::default(),
            name: "X".into(),
            ty: TypeM::prim("int32"),
        }),
        4 => DefM::Custom(CustomM {
            name: "X".into(),
            ..Default::default()
        }),
        _ => DefM::Enum(EnumM {
            name: "X".into(),
            unchecked: true,
            ..Default::default()
        }),
    })
}

fn host_for_position(position: usize, t: TypeM) -> DefM {
    host_with(position, t, "m")
}

/// The referencing definition `Host` with the reference in one of the POSITIONS places.
fn host_with(position: usize, t: TypeM, member_name: &str) -> DefM {
    let fld = |ty: TypeM| FieldM {
        pre: Prelude::default(),
        tag: None,
        name: member_name.to_owned(),
        ty,
    };
    let prm = |ty: TypeM| ParamM {
        pre: Prelude::default(),
        tag: None,
        name: member_name.to_owned(),
        stream: false,
        ty,
    };
    match position {
        0 => DefM::Struct(StructM {
            name: "Host".into(),
            fields: vec![fld(t)],
            ..Default::default()
        }),
        1 => DefM::Interface(InterfaceM {
            name: "Host".into(),
            ops: vec![OpM {
                pre: Prelude::default(),
                idempotent: false,
                name: "op".into(),
                params: vec![prm(t)],
                ret: RetM::None,
            }],
            ..Default::default()
        }),
        2 => DefM::Interface(InterfaceM {
            name: "Host".into(),
            ops: vec![OpM {
                pre: Prelude::default(),
                idempotent: false,
                name: "op".into(),
                params: vec![],
                ret: RetM::Single(Box::new(prm(t.opt()))),
            }],
            ..Default::default()
        }),
        3 => DefM::Struct(StructM {
            name: "Host".into(),
            fields: vec![fld(TypeM::seq(t))],
            ..Default::default()
        }),
        4 => DefM::Struct(StructM {
            name: "Host".into(),
            fields: vec![fld(TypeM::dict(TypeM::prim("string"), t.opt()))],
            ..Default::default()
        }),
        5 => DefM::Alias(AliasM {
            pre: Prelude::default(),
            name: "Host".into(),
            ty: t,
        }),
        6 => DefM::Interface(InterfaceM {
            name: "Host".into(),
            bases: vec![t],
            ..Default::default()
        }),
        _ => DefM::Enum(EnumM {
            name: "Host".into(),
            unchecked: true,
            underlying: Some(t),
            ..Default::default()
        }),
    }
}

fn scopes_program(mut idx: u64) -> Program {
    let mut take = |n: usize| -> usize {
        let v = (idx % n as u64) as usize;
        idx /= n as u64;
        v
    };
    let kinds = [take(KINDS), take(KINDS), take(KINDS)];
    let ref_level = take(3);
    let spelling = SPELLINGS[take(12)];
    let position = take(POSITIONS);
    let order = ORDERS[take(6)];
    let member_named_x = take(2) == 1;
    let naming = NAMINGS[take(3)];
    let spelling: String = spelling.split("::").map(|seg| rename(seg, &naming)).collect::<Vec<_>>().join("::");
    let t = TypeM::named(&spelling);
    let member_name = if member_named_x { "X" } else { "m" };
    let fld = |ty: TypeM| FieldM {
        pre: Prelude::default(),
        tag: None,
        name: member_name.to_owned(),
        ty,
    };
    let prm = |ty: TypeM| ParamM {
        pre: Prelude::default(),
        tag: None,
        name: member_name.to_owned(),
        stream: false,
        ty,
    };
    let host = host_with(position, t, member_name);
    // four files: one per level (the X definitions) and one for the host
    let mut files: Vec<FileM> = Vec::new();
    for slot in order {
        let (path, defs): (&[&str], Vec<DefM>) = if slot < 3 {
            (LEVELS[slot], x_def(kinds[slot]).into_iter().collect())
        } else {
            (LEVELS[ref_level], vec![host.clone()])
        };
        files.push(FileM {
            path: format!("string-{}", files.len()),
            file_attrs: vec![],
            module: Some(ModuleM {
                attrs: vec![],
                path: path.iter().map(|s| rename(s, &naming)).collect(),
            }),
            defs,
        });
    }
    let mut p = Program { files };
    p.fill_effective_values();
    p
}

fn scopes_case(cx: &mut CaseCtx, input: Input) -> CaseResult {
    let p = scopes_program(input.index());
    // labels from the reference model
    let host_file = p.files.iter().position(|f| f.defs.iter().any(|d| d.name() == "Host")).unwrap();
    let scope = p.files[host_file].module.as_ref().unwrap().scope();
    let spelling = {
        let mut v = Vec::new();
        match &p.files[host_file].defs[0] {
            DefM::Struct(s) => s.fields[0].ty.named_refs(&mut v),
            DefM::Interface(i) => {
                for b in &i.bases {
                    b.named_refs(&mut v);
                }
                for o in &i.ops {
                    for q in o.params.iter().chain(o.ret.members()) {
                        q.ty.named_refs(&mut v);
                    }
                }
            }
            DefM::Alias(a) => a.ty.named_refs(&mut v),
            DefM::Enum(e) => e.underlying.as_ref().unwrap().named_refs(&mut v),
            _ => {}
        }
        v[0].to_owned()
    };
    let r = Resolver::new(&p);
    let xs = p.files.iter().filter(|f| f.defs.iter().any(|d| d.name() == "X")).count();
    cx.nontrivial = xs >= 2 || p.files.len() > 1;
    cx.label_if(xs >= 2, "shadowed-at-2-levels");
    cx.label_if(spelling.starts_with("::"), "global-spelling");
    cx.label_if(!spelling.starts_with("::") && spelling.contains("::"), "partially-qualified-spelling");
    if let Some((_key, ents)) = r.table.lookup(&spelling, &scope) {
        let k = ents.last().unwrap().kind;
        cx.label(format!("hit-{}", k.name()));
        cx.label_if(k == EKind::Interface || k == EKind::Module, "wrong-kind-shadow-candidate");
    } else {
        cx.label("hit-nothing");
    }
    match &p.files[host_file].defs[0] {
        DefM::Interface(i) if !i.bases.is_empty() => cx.label("position-base"),
        DefM::Enum(_) => cx.label("position-underlying"),
        _ => {}
    }
    let rendered: Vec<Rendered> = crate::render::render_program(&p, &[], false);
    let texts: Vec<String> = rendered.iter().map(|r| r.text.clone()).collect();
    cx.sample_with(|| json!({"files": texts}));
    binding(cx, &p, &texts, &rendered)
}

// ---- positional kinds: what may stand as interface base / enum underlying type ------------------

const POSITIONAL_TYPES: usize = 8;
pub const POSITIONAL_TOTAL: u64 = (3 * POSITIONAL_TYPES) as u64;

/// Every (position: only base, second base, underlying type) x (a primitive, an optional primitive,
/// three anonymous types, a struct, an interface, a custom type): bound or E017, never dropped.
fn positional_case(cx: &mut CaseCtx, input: Input) -> CaseResult {
    let idx = input.index() as usize;
    let (pos, ty) = (idx / POSITIONAL_TYPES, idx % POSITIONAL_TYPES);
    let t = match ty {
        0 => TypeM::prim("uint8"),
        1 => TypeM::prim("int32").opt(),
        2 => TypeM::seq(TypeM::prim("uint8")),
        3 => TypeM::dict(TypeM::prim("uint8"), TypeM::named("S")),
        4 => TypeM::result(TypeM::prim("bool"), TypeM::prim("string")),
        5 => TypeM::named("S"),
        6 => TypeM::named("I"),
        _ => TypeM::named("C"),
    };
    let mut defs = vec![
        DefM::Struct(StructM { name: "S".into(), ..Default::default() }),
        DefM::Interface(InterfaceM { name: "I".into(), ..Default::default() }),
        DefM::Custom(CustomM { name: "C".into(), ..Default::default() }),
    ];
    defs.push(match pos {
        0 => DefM::Interface(InterfaceM { name: "Host".into(), bases: vec![t], ..Default::default() }),
        1 => DefM::Interface(InterfaceM { name: "Host".into(), bases: vec![TypeM::named("I"), t], ..Default::default() }),
        _ => DefM::Enum(EnumM {
            name: "Host".into(),
            unchecked: true,
            underlying: Some(t),
            enumerators: vec![EnumeratorM { pre: Prelude::default(), name: "X".into(), fields: None, value: Some(7), effective: 7 }],
            ..Default::default()
        }),
    });
    let mut p = Program {
        files: vec![FileM {
            path: "string-0".into(),
            file_attrs: vec![],
            module: Some(ModuleM { attrs: vec![], path: vec!["M".into()] }),
            defs,
        }],
    };
    p.fill_effective_values();
    cx.nontrivial = true;
    cx.label(["position-only-base", "position-second-base", "position-underlying-type"][pos]);
    cx.label_if(matches!(ty, 2 | 3 | 4), "anonymous-type-in-named-position");
    // base `I` twice (pos 1, ty 6) or a non-integral / optional underlying type are other rules' business (C04)
    if (pos == 1 && ty == 6) || (pos == 2 && ty == 1) {
        cx.label("skipped-other-rule");
        return Ok(());
    }
    let rendered: Vec<Rendered> = crate::render::render_program(&p, &[], false);
    let texts: Vec<String> = rendered.iter().map(|r| r.text.clone()).collect();
    cx.sample_with(|| json!({"files": texts}));
    binding(cx, &p, &texts, &rendered)
}

// ---- primitives reached by name (escaped keyword identifiers) -----------------------------------

const PRIMS16: [&str; 16] = [
    "bool", "int8", "uint8", "int16", "uint16", "int32", "uint32", "varint32", "varuint32", "int64", "uint64", "varint62", "varuint62", "float32", "float64",
    "string",
];
pub const ESCAPED_PRIMITIVES_TOTAL: u64 = 16 * 3;

/// `a: \int64` is a name, not a keyword: the outward search ends in the global scope, where the
/// primitives live - unless a definition of that name is met on the way.
fn escaped_primitive_case(cx: &mut CaseCtx, input: Input) -> CaseResult {
    let idx = input.index() as usize;
    let (p, variant) = (PRIMS16[idx % 16], idx / 16);
    let text = match variant {
        0 => format!("module M\nstruct S {{ a: \\{p}, b: Sequence<\\{p}?> }}\n"),
        1 => format!("module M\ncustom \\{p}\nstruct S {{ a: \\{p}, b: Sequence<\\{p}?> }}\n"),
        _ => format!("module M::Inner\nstruct S {{ a: \\{p}, b: Sequence<::\\{p}?> }}\n"),
    };
    cx.nontrivial = true;
    cx.label("escaped-primitive-name");
    cx.label_if(variant == 1, "escaped-primitive-name-shadowed");
    cx.sample_with(|| json!({"files": [text]}));
    let state = compile_strings(&[text.clone()], None);
    if state.diagnostics.has_errors() {
        let d = diagnostics_of(state, &Default::default());
        fail!(format!("escaped-primitive/rejected/{}", error_codes(&d).first().cloned().unwrap_or_default()), "{}\n{text}", summarize(&d));
    }
    let observed = crate::observe::observe_program(&state);
    let Some(DefM::Struct(s)) = observed.files[0].defs.iter().find(|d| d.name() == "S") else {
        fail!("escaped-primitive/struct-lost", "{text}");
    };
    let want = if variant == 1 { TypeK::Named(format!("@custom M::{p}")) } else { TypeK::Prim(p.to_owned()) };
    let elem = match &s.fields[1].ty.kind {
        TypeK::Seq(e) => e.kind.clone(),
        other => other.clone(),
    };
    for (what, got) in [("field type", &s.fields[0].ty.kind), ("sequence element", &elem)] {
        check!(
            *got == want,
            format!("escaped-primitive/binding-mismatch/{}", if variant == 1 { "shadowed" } else { "global" }),
            "{what}: expected {want:?}, bound to {got:?}\n{text}"
        );
    }
    Ok(())
}

// ---- twin scopes: the same relative spelling in two modules means two different things -----------

pub const TWINS_TOTAL: u64 = (POSITIONS * 5 * 3 * 2) as u64;

/// Modules `A` and `B` (or `A::In` and `B::In`) each define `X` of the same kind and a host that
/// refers to it by the same relative spelling (`X`, `In::X`); each host must bind to the `X` of its
/// own module, whichever file comes first.
fn twins_case(cx: &mut CaseCtx, input: Input) -> CaseResult {
    let mut idx = input.index() as usize;
    let position = idx % POSITIONS;
    idx /= POSITIONS;
    let kind = 1 + idx % 5;
    idx /= 5;
    let shape = idx % 3; // 0: modules A / B, spelling X; 1: modules A::In / B::In, spelling X; 2: X in A::In / B::In, hosts in A / B, spelling In::X
    idx /= 3;
    let swapped = idx % 2 == 1;
    let spelling = if shape == 2 { "In::X" } else { "X" };
    let mut files: Vec<FileM> = Vec::new();
    for outer in ["A", "B"] {
        let x_path: Vec<String> = if shape == 0 { vec![outer.into()] } else { vec![outer.into(), "In".into()] };
        let host_path: Vec<String> = if shape == 2 { vec![outer.into()] } else { x_path.clone() };
        let t = TypeM::named(spelling);
        // the same host shapes as in the `scopes` family
        let host = host_for_position(position, t);
        let x = x_def(kind).unwrap();
        if x_path == host_path {
            files.push(FileM { path: String::new(), file_attrs: vec![], module: Some(ModuleM { attrs: vec![], path: x_path }), defs: vec![x, host] });
        } else {
            files.push(FileM { path: String::new(), file_attrs: vec![], module: Some(ModuleM { attrs: vec![], path: x_path }), defs: vec![x] });
            files.push(FileM { path: String::new(), file_attrs: vec![], module: Some(ModuleM { attrs: vec![], path: host_path }), defs: vec![host] });
        }
    }
    if swapped {
        files.reverse();
    }
    for (k, f) in files.iter_mut().enumerate() {
        f.path = format!("string-{k}");
    }
    let mut p = Program { files };
    p.fill_effective_values();
    cx.nontrivial = true;
    cx.label("twin-scopes");
    cx.label_if(position == 6, "twin-scopes-base-interface");
    let rendered: Vec<Rendered> = crate::render::render_program(&p, &[], false);
    let texts: Vec<String> = rendered.iter().map(|r| r.text.clone()).collect();
    cx.sample_with(|| json!({"files": texts}));
    binding(cx, &p, &texts, &rendered)
}

// ---- definitions and members named like the last segment of their module ------------------------

pub const LIKE_MODULE_TOTAL: u64 = 5 * 3 * 2;

/// `module A::B` with a definition (or an operation / field) named `B`, followed by further
/// definitions and a host that refers to them by bare and qualified names: everything is found
/// under its own scoped name, with or without an outer twin `A::S`.
fn like_module_case(cx: &mut CaseCtx, input: Input) -> CaseResult {
    let mut idx = input.index() as usize;
    let kind = 1 + idx % 5;
    idx /= 5;
    let member_shape = idx % 3; // 0: the definition itself is named B; 1: a field named B; 2: an operation named B
    idx /= 3;
    let outer_twin = idx % 2 == 1;
    let named_b = |k: usize| -> DefM {
        let mut d = x_def(k).unwrap();
        match &mut d {
            DefM::Struct(s) => s.name = "B".into(),
            DefM::Interface(i) => i.name = "B".into(),
            DefM::Alias(a) => a.name = "B".into(),
            DefM::Custom(c) => c.name = "B".into(),
            DefM::Enum(e) => e.name = "B".into(),
        }
        d
    };
    let first: DefM = match member_shape {
        0 => named_b(kind),
        1 => DefM::Struct(StructM {
            name: "First".into(),
            fields: vec![
                FieldM { pre: Prelude::default(), tag: None, name: "B".into(), ty: TypeM::prim("bool") },
                FieldM { pre: Prelude::default(), tag: None, name: "after".into(), ty: TypeM::prim("int32") },
            ],
            ..Default::default()
        }),
        _ => DefM::Interface(InterfaceM {
            name: "First".into(),
            ops: vec![
                OpM { pre: Prelude::default(), idempotent: false, name: "B".into(), params: vec![], ret: RetM::None },
                OpM { pre: Prelude::default(), idempotent: false, name: "after".into(), params: vec![], ret: RetM::None },
            ],
            ..Default::default()
        }),
    };
    let s_def = DefM::Struct(StructM { name: "S".into(), ..Default::default() });
    let host = DefM::Struct(StructM {
        name: "Host".into(),
        fields: vec![
            FieldM { pre: Prelude::default(), tag: None, name: "bare".into(), ty: TypeM::named("S") },
            FieldM { pre: Prelude::default(), tag: None, name: "qualified".into(), ty: TypeM::seq(TypeM::named("A::B::S")) },
            FieldM { pre: Prelude::default(), tag: None, name: "global".into(), ty: TypeM::named("::A::B::S").opt() },
        ],
        ..Default::default()
    });
    let mut files = vec![FileM {
        path: "string-0".into(),
        file_attrs: vec![],
        module: Some(ModuleM { attrs: vec![], path: vec!["A".into(), "B".into()] }),
        defs: vec![first, s_def, host],
    }];
    if outer_twin {
        files.push(FileM {
            path: "string-1".into(),
            file_attrs: vec![],
            module: Some(ModuleM { attrs: vec![], path: vec!["A".into()] }),
            defs: vec![DefM::Struct(StructM { name: "S".into(), ..Default::default() })],
        });
    }
    let mut p = Program { files };
    p.fill_effective_values();
    cx.nontrivial = true;
    cx.label("named-like-the-module");
    let rendered: Vec<Rendered> = crate::render::render_program(&p, &[], false);
    let texts: Vec<String> = rendered.iter().map(|r| r.text.clone()).collect();
    cx.sample_with(|| json!({"files": texts}));
    binding(cx, &p, &texts, &rendered)
}

// ---- alias chains ---------------------------------------------------------------------------

const CHAIN_MODULES: [&[&str]; 4] = [&["A"], &["A", "B"], &["D"], &["A", "B", "C"]];

fn chain_program(u: &mut Unstructured, cx: &mut CaseCtx) -> Program {
    // one file per module
    let mut files: Vec<FileM> = CHAIN_MODULES
        .iter()
        .enumerate()
        .map(|(i, m)| FileM {
            path: format!("string-{i}"),
            file_attrs: vec![],
            module: Some(ModuleM {
                attrs: vec![],
                path: m.iter().map(|s| s.to_string()).collect(),
            }),
            defs: vec![],
        })
        .collect();
    // final targets: a type named `V` may exist in several modules with different kinds (shadowing)
    for (mi, f) in files.iter_mut().enumerate() {
        match pick(u, 4) {
            0 => {}
            1 => f.defs.push(DefM::Struct(StructM {
                name: "V".into(),
                ..Default::default()
            })),
            2 => f.defs.push(DefM::Custom(CustomM {
                name: "V".into(),
                ..Default::default()
            })),
            _ => f.defs.push(DefM::Enum(EnumM {
                name: "V".into(),
                unchecked: true,
                underlying: Some(TypeM::prim("uint8")),
                ..Default::default()
            })),
        }
        let _ = mi;
    }
    let len = 1 + pick(u, 4);
    cx.label(format!("chain-length-{len}"));
    // alias k lives in a random module and is named T<k> — or, to provoke shadowing, the short
    // name `U` which may then exist in several modules
    let mut homes: Vec<usize> = Vec::new();
    let mut names: Vec<String> = Vec::new();
    for k in 0..len {
        homes.push(pick(u, files.len()));
        let shared = pick(u, 3) == 0;
        let name = if shared { "U".to_owned() } else { format!("T{k}") };
        names.push(name);
    }
    // avoid duplicate (module, name) pairs
    for k in 0..len {
        for j in 0..k {
            if homes[k] == homes[j] && names[k] == names[j] {
                names[k] = format!("T{k}");
            }
        }
    }
    let scoped = |home: usize, name: &str| format!("{}::{}", CHAIN_MODULES[home].join("::"), name);
    let spell = |u: &mut Unstructured, target: &str| -> String {
        // bare, partially qualified, fully qualified or global: whether it resolves as intended is
        // decided by the reference model, not here
        let segs: Vec<&str> = target.split("::").collect();
        match pick(u, 4) {
            0 => segs[segs.len() - 1].to_owned(),
            1 if segs.len() >= 2 => segs[segs.len() - 2..].join("::"),
            2 => target.to_owned(),
            _ => format!("::{target}"),
        }
    };
    for k in 0..len {
        let target_kind = if k + 1 < len {
            let t = scoped(homes[k + 1], &names[k + 1]);
            TypeK::Named(spell(u, &t))
        } else {
            match pick(u, 5) {
                0 => TypeK::Prim("int32".into()),
                1 => TypeK::Named("V".into()),
                2 => TypeK::Seq(Box::new(TypeM::named("V").opt())),
                3 => TypeK::Named(spell(u, "A::B::V")),
                _ => TypeK::Dict(Box::new(TypeM::prim("string")), Box::new(TypeM::named("V"))),
            }
        };
        let attrs = if pick(u, 4) != 0 {
            cx.label("attribute-on-link");
            vec![AttrM::new(&format!("link::l{k}"), &[&format!("{k}")])]
        } else {
            vec![]
        };
        files[homes[k]].defs.push(DefM::Alias(AliasM {
            pre: Prelude::default(),
            name: names[k].clone(),
            ty: TypeM {
                attrs,
                kind: target_kind,
                optional: false,
            },
        }));
    }
    // the user of the chain
    let user_home = pick(u, files.len());
    let first = scoped(homes[0], &names[0]);
    let use_ty = TypeM {
        attrs: if pick(u, 2) == 0 { vec![AttrM::new("use::site", &[])] } else { vec![] },
        kind: TypeK::Named(spell(u, &first)),
        optional: pick(u, 2) == 1,
    };
    cx.label_if(homes.iter().any(|h| *h != user_home), "chain-crosses-modules");
    files[user_home].defs.push(DefM::Struct(StructM {
        name: "Holder".into(),
        fields: vec![FieldM {
            pre: Prelude::default(),
            tag: None,
            name: "viaChain".into(),
            ty: use_ty,
        }],
        ..Default::default()
    }));
    // shuffle file order
    for i in (1..files.len()).rev() {
        let j = pick(u, i + 1);
        files.swap(i, j);
    }
    for (i, f) in files.iter_mut().enumerate() {
        f.path = format!("string-{i}");
    }
    let mut p = Program { files };
    p.fill_effective_values();
    p
}

fn chains_case(cx: &mut CaseCtx, input: Input) -> CaseResult {
    let mut u = Unstructured::new(input.bytes());
    let p = chain_program(&mut u, cx);
    cx.set_key(&p);
    cx.nontrivial = true;
    let rendered: Vec<Rendered> = crate::render::render_program(&p, &[], false);
    let texts: Vec<String> = rendered.iter().map(|r| r.text.clone()).collect();
    cx.sample_with(|| json!({"files": texts}));
    binding(cx, &p, &texts, &rendered)
}

fn programs_case(cx: &mut CaseCtx, input: Input, cfg: &GenCfg) -> CaseResult {
    let (lay_bytes, prog_bytes) = split_input(input.bytes());
    let mut u = Unstructured::new(prog_bytes);
    let (p, labels) = gen_program(&mut u, cfg);
    for l in labels {
        cx.label(l);
    }
    cx.set_key(&p);
    cx.nontrivial = p.files.len() > 1;
    let (texts, rendered) = render_layout(&p, lay_bytes, 0);
    cx.sample_with(|| json!({"files": texts}));
    binding(cx, &p, &texts, &rendered)
}

impl Check for C03 {
    fn id(&self) -> &'static str {
        "C03"
    }
    fn rule(&self) -> String {
        format!("families: scopes = all {SCOPES_TOTAL} arrangements of module levels A, A::B, A::B::C (also renamed to A, A::A, A::A::A and A, A::B, A::B::A, so that inner modules repeat an outer name) x definition `X` of kind none/struct/interface/alias/custom/enum at each level x referencing level x 12 spellings x 8 positions (field, parameter, return, sequence element, dictionary value, alias target, interface base, enum underlying) x 6 file orders x member-named-like-the-type (strided in the quick tier); positional = every (only base, second base, enum underlying type) x (primitive, optional primitive, sequence, dictionary, result, struct, interface, custom type): bound or reported, never dropped; twins = two modules each defining `X` and a host referring to it by the same relative spelling (8 positions x 5 kinds x 3 module shapes x 2 file orders): each binds to its own; like-module = a definition / field / operation named like the last segment of its module, followed by more definitions and references to them (with and without an outer twin); escaped-primitives = every primitive reached by name (`\\int64`, `::int64`), bare and shadowed by a definition of that name; alias-chains = proptest choice sequences -> chains of 1..4 aliases over 4 modules with an attribute per link, shared short names and every spelling; programs = random larger programs. Oracle: the reference resolver (outward scope search, '::' global, alias flattening with attribute accumulation): resolves <=> accepted, observed bindings == expected, a miss / wrong kind / loop is reported with an admissible code inside the offending reference's text, never silently bound elsewhere; every definition, field, enumerator and operation is retrievable through Ast::find_element. Non-trivial = shadowed at >= 2 levels, crosses files, or goes through an alias")
    }
    fn assumptions(&self) -> Vec<String> {
        vec![
            "programs in which a module and a definition collide in the name table are excluded (F-15, C15)".into(),
            "attribute order on a reference: the use site's own attributes first, then the alias links' in chain order".into(),
        ]
    }
    fn essential(&self, _tier: Tier) -> Vec<&'static str> {
        vec![
            "resolves",
            "does-not-resolve",
            "shadowed-at-2-levels",
            "global-spelling",
            "partially-qualified-spelling",
            "hit-interface",
            "hit-alias",
            "hit-nothing",
            "position-base",
            "position-underlying",
            "chain-length-4",
            "attribute-on-link",
            "chain-crosses-modules",
        ]
    }
    fn fuzz_families(&self, _tier: Tier) -> Vec<(&'static str, u64)> {
        // libFuzzer runs per job (16 jobs), sized from the measured speed of the instrumented build
        vec![("alias-chains", 15000), ("programs", 10000)]
    }
    fn families(&self, tier: Tier) -> Vec<Family<'_>> {
        let cfg = GenCfg {
            docs: false,
            ..GenCfg::default()
        };
        vec![
            Family::enumerate("scopes", SCOPES_TOTAL, tier.pick(7, 1), scopes_case),
            Family::enumerate("positional", POSITIONAL_TOTAL, 1, positional_case),
            Family::enumerate("twins", TWINS_TOTAL, 1, twins_case),
            Family::enumerate("like-module", LIKE_MODULE_TOTAL, 1, like_module_case),
            Family::enumerate("escaped-primitives", ESCAPED_PRIMITIVES_TOTAL, 1, escaped_primitive_case),
            Family::bytes("alias-chains", 64, tier.pick(6_000, 150_000), chains_case),
            Family::bytes("programs", 600, tier.pick(1_500, 30_000), move |cx, i| programs_case(cx, i, &cfg)),
            Family::replay_only("direct", |cx, i| {
                // regression inputs: "<accept | comma separated codes>\n<source>" (same as C04)
                let text = String::from_utf8_lossy(i.bytes()).into_owned();
                let (head, body) = text.split_once('\n').unwrap_or(("accept", &text));
                cx.nontrivial = true;
                let state = compile_strings(&[body.to_owned()], None);
                let diags = diagnostics_of(state, &Default::default());
                let errors = error_codes(&diags);
                if head.trim() == "accept" {
                    check!(errors.is_empty(), "direct/reject-mismatch", "expected acceptance:\n{}", summarize(&diags));
                } else {
                    let allowed: Vec<&str> = head.split(',').map(|s| s.trim()).collect();
                    check!(!errors.is_empty(), "direct/accept-mismatch", "expected one of {allowed:?}, but the program was accepted");
                    for c in &errors {
                        check!(allowed.contains(&c.as_str()), "direct/reject-mismatch", "unexpected code {c}:\n{}", summarize(&diags));
                    }
                }
                Ok(())
            }),
        ]
    }
}
