//! C07 — code generation happens only after an error-free compilation.
//!
//! Through the real binary, with instrumented fake generators (invocation log + reply with one
//! file each): generators run and files appear iff no error diagnostic and no --dry-run; warnings
//! never prevent generation; exit status != 0 iff an error diagnostic was emitted.

use crate::engine::*;
use crate::gen::pick;
use crate::proc::{self, os, CaseDir};
use crate::wire;
use crate::{check, fail};
use arbitrary::Unstructured;
use serde_json::json;
use std::time::Duration;

pub struct C07;

pub const STATES: [&str; 19] = [
    "clean",
    "clean-multi",
    "warn-deprecated",
    "warn-broken-link",
    "warn-duplicate-file",
    "err-nonexistent-path",
    "err-non-slice-path",
    "err-directory-as-source",
    "err-syntax",
    "err-unknown-attribute",
    "err-unresolved-type",
    "err-cycle",
    "err-redefinition",
    "err-rule-violation",
    "err-redefinition-across-files",
    "err-bad-file-attribute-in-module-less-file",
    "err-non-utf8-file",
    "err-in-branch-that-another-file-would-define-away",
    "clean-error-in-branch-that-another-file-would-define-in",
];

pub fn clean_text(i: usize) -> String {
    format!("module M\nstruct S{i} {{ v: int32 }}\n")
}

/// A generator reply carrying one file.
pub fn reply_with_file(path: &str, contents: &str) -> Vec<u8> {
    let mut out = wire::enc_varuint(1).unwrap();
    out.extend(wire::enc_string(path));
    out.extend(wire::enc_string(contents));
    out.push(0xFC); // tag end marker (varint -1)
    out.extend(wire::enc_varuint(0).unwrap()); // no diagnostics
    out
}

fn is_ref_planned(_is_ref: &[bool]) -> bool {
    false // the first file is always a source
}

fn should_generate_label(error_expected: bool, dry_run: bool) -> bool {
    !error_expected && !dry_run
}

fn case(cx: &mut CaseCtx, input: Input) -> CaseResult {
    let mut u = Unstructured::new(input.bytes());
    let dir = CaseDir::new(&cx.workdir, cx.shard, cx.case_no);
    let state = STATES[pick(&mut u, STATES.len())];
    let nfiles = 1 + pick(&mut u, 4);
    let victim = pick(&mut u, nfiles);
    let ngen = pick(&mut u, 4);
    let dry_run = pick(&mut u, 3) == 0;
    let json_mode = pick(&mut u, 2) == 1;
    let allow = pick(&mut u, 4);
    let outdir = pick(&mut u, 2) == 1;
    let failing_gen = if ngen > 0 && pick(&mut u, 3) == 0 { Some(pick(&mut u, ngen)) } else { None };
    let fail_mode = pick(&mut u, 4);
    // fail mode 3: the generator fails without reading its input, and the request is larger than a pipe
    // buffer (the first file gets a few thousand more definitions)
    let big_request = fail_mode == 3 && failing_gen.is_some();
    // independently of the state: the first file named twice (DuplicateFile warning before parsing)
    let also_duplicate = pick(&mut u, 4) == 0;

    // files
    // groups of arguments that must stay adjacent; shuffled at the end (option order is free)
    let mut groups: Vec<Vec<std::ffi::OsString>> = Vec::new();
    let mut is_ref = Vec::new();
    let mut error_expected = false;
    let mut warning_expected = false;
    for i in 0..nfiles {
        let text = if i == victim {
            match state {
                "warn-deprecated" => {
                    warning_expected = true;
                    format!("module M\n[deprecated] struct D{i} {{}}\nstruct U{i} {{ d: D{i} }}\n")
                }
                "warn-broken-link" => {
                    warning_expected = true;
                    format!("module M\n/// See {{@link Nope}}.\nstruct B{i} {{}}\n")
                }
                "err-syntax" => {
                    error_expected = true;
                    "module M\nstruct {\n".to_owned()
                }
                "err-unknown-attribute" => {
                    error_expected = true;
                    format!("module M\n[foo] struct A{i} {{}}\n")
                }
                "err-unresolved-type" => {
                    error_expected = true;
                    format!("module M\nstruct X{i} {{ a: Missing }}\n")
                }
                "err-cycle" => {
                    error_expected = true;
                    let through = ["Sequence<C@?>", "Result<string, C@>", "Result<C@, string>", "Dictionary<string, C@>", "C@"][pick(&mut u, 5)];
                    format!("module M\nstruct C{i} {{ c: {} }}\n", through.replace('@', &i.to_string()))
                }
                // symbols defined in a file are that file's alone: the other files define the symbol, this one
                // does not
                "err-in-branch-that-another-file-would-define-away" => {
                    error_expected = true;
                    format!("module M\n#if C07_LEAK\nstruct Fine{i} {{}}\n#else\nstruct {{\n#endif\n")
                }
                "clean-error-in-branch-that-another-file-would-define-in" => {
                    format!("module M\n#if C07_LEAK\nstruct {{\n#endif\nstruct Fine{i} {{}}\n")
                }
                "err-redefinition" => {
                    error_expected = true;
                    format!("module M\nstruct R{i} {{}}\ncustom R{i}\n")
                }
                "err-rule-violation" => {
                    error_expected = true;
                    format!("module M\nstruct T{i} {{ tag(1) a: int32 }}\n")
                }
                "err-redefinition-across-files" if nfiles > 1 => {
                    error_expected = true;
                    // the same name as in another (clean) file
                    let other = (i + 1) % nfiles;
                    format!("module M\ncustom S{other}\n")
                }
                _ => clean_text(i),
            }
        } else if state.contains("-in-branch-that-another-file-") {
            format!("#define C07_LEAK\n{}", clean_text(i))
        } else {
            clean_text(i)
        };
        let text = if big_request && i == 0 && !is_ref_planned(&is_ref) {
            let mut t = text;
            for k in 0..4000 {
                t.push_str(&format!("struct Filler{k} {{ a: int32, b: string? }}\n"));
            }
            t
        } else {
            text
        };
        dir.write(&format!("f{i}.slice"), text.as_bytes());
        let reference = i > 0 && pick(&mut u, 3) == 0;
        is_ref.push(reference);
        if reference {
            groups.push(vec![os("-R"), os(&format!("f{i}.slice"))]);
        } else {
            groups.push(vec![os(&format!("f{i}.slice"))]);
        }
    }
    if also_duplicate && state != "warn-duplicate-file" {
        warning_expected = true;
        groups.push(vec![os("./f0.slice")]);
    }
    // now and then one more file that declares no module (empty or comment only), as source or reference:
    // a clean program stays clean
    if pick(&mut u, 4) == 0 {
        let text: &[u8] = if pick(&mut u, 2) == 0 { b"" } else { b"// nothing to see\n" };
        dir.write("blank.slice", text);
        if pick(&mut u, 2) == 0 {
            groups.push(vec![os("-R"), os("blank.slice")]);
            cx.label("module-less-reference-file");
        } else {
            groups.push(vec![os("blank.slice")]);
            cx.label("module-less-source-file");
        }
    }
    match state {
        "err-non-utf8-file" => {
            // a byte that is not UTF-8, in a comment / a doc comment / a string argument / an identifier
            error_expected = true;
            let text: &[u8] = [
                &b"module M\n// caf\xe9 au lait\nstruct Latin {}\n"[..],
                &b"module M\n/// caf\xe9\nstruct Latin {}\n"[..],
                &b"module M\n[foo::bar(\"caf\xe9\")] struct Latin {}\n"[..],
                &b"module M\nstruct Caf\xe9 {}\n"[..],
            ][pick(&mut u, 4)];
            dir.write("latin1.slice", text);
            if pick(&mut u, 2) == 0 {
                groups.push(vec![os("-R"), os("latin1.slice")]);
            } else {
                groups.push(vec![os("latin1.slice")]);
            }
        }
        "err-bad-file-attribute-in-module-less-file" => {
            // a file that consists of a file attribute which is illegal there, and nothing else
            error_expected = true;
            let text = ["[[oneway]]\n", "[[compress(Args)]]\n", "[[deprecated]]\n[[deprecated(\"again\")]]\n", "[[allow(Bogus)]]\n"][pick(&mut u, 4)];
            dir.write("attrs.slice", text.as_bytes());
            groups.push(vec![os("attrs.slice")]);
        }
        "warn-duplicate-file" => {
            warning_expected = true;
            groups.push(vec![os("./f0.slice")]);
        }
        "err-nonexistent-path" => {
            error_expected = true;
            // a path that is not there; one that runs through a regular file; a symbolic link to itself
            let bad = match pick(&mut u, 3) {
                0 => "nope.slice",
                1 => "f0.slice/inner.slice",
                _ => {
                    let _ = std::os::unix::fs::symlink("loop.slice", dir.path.join("loop.slice"));
                    "loop.slice"
                }
            };
            cx.label(format!("unreadable-path:{bad}"));
            if pick(&mut u, 2) == 0 {
                groups.push(vec![os("-R"), os(bad)]);
            } else {
                groups.push(vec![os(bad)]);
            }
        }
        "err-non-slice-path" => {
            error_expected = true;
            dir.write("notes.txt", b"module M\n");
            groups.push(vec![os("notes.txt")]);
        }
        "err-directory-as-source" => {
            error_expected = true;
            let _ = std::fs::create_dir_all(dir.path.join("adir"));
            groups.push(vec![os("adir")]);
        }
        _ => {}
    }
    // generators
    let out_rel = if outdir { "out" } else { "." };
    if outdir {
        let _ = std::fs::create_dir_all(dir.path.join("out"));
        groups.push(if pick(&mut u, 2) == 0 { vec![os("-O"), os("out")] } else { vec![os("--output-dir=out")] });
    }
    // with -O: the working directory may already hold identical files of the same names (left by an
    // earlier run without -O); the files still have to appear in the output directory
    if outdir && pick(&mut u, 3) == 0 {
        for g in 0..ngen {
            dir.write(&format!("gen{g}.out"), b"generated");
        }
        cx.label_if(ngen > 0, "identical-files-in-cwd-with-output-dir");
    }
    let mut gens = Vec::new();
    for g in 0..ngen {
        let mut cfg = format!("reply_hex={}\n", to_hex(&reply_with_file(&format!("gen{g}.out"), "generated")));
        if failing_gen == Some(g) {
            if fail_mode == 3 {
                cfg.push_str("read=none\nexit=3\n");
            } else if fail_mode == 2 {
                // a complete, valid reply - and then the generator is killed
                cfg.push_str(["signal=9\n", "signal=11\n", "signal=15\n"][pick(&mut u, 3)]);
            } else if fail_mode == 0 || json_mode {
                cfg.push_str("exit=3\n");
            } else {
                cfg.push_str(&format!("stderr_hex={}\n", to_hex(b"generator says no\n")));
            }
        }
        let gp = dir.install_generator(&format!("gen{g}"), &cfg);
        groups.push(if pick(&mut u, 2) == 0 { vec![os(&format!("--generator=./gen{g}"))] } else { vec![os("-G"), os(&format!("./gen{g}"))] });
        gens.push(gp);
    }
    if dry_run {
        groups.push(vec![os("--dry-run")]);
    }
    if json_mode {
        groups.push(vec![os("--diagnostic-format"), os(["json", "JSON", "Json"][pick(&mut u, 3)])]);
    }
    match allow {
        1 => groups.push(vec![os("-A"), os("All")]),
        2 => groups.push(vec![os("--allow"), os("Deprecated")]),
        3 => {
            groups.push(vec![os("-A"), os("BrokenDocLink")]);
            groups.push(vec![os("-A"), os("DuplicateFile")]);
        }
        _ => {}
    }
    // The order of options and files on the command line is free.  Half of the cases keep the
    // order as built, the others shuffle the groups; the relative order of the input files and of
    // the generators is kept (it is observable, and other properties' business).
    let mut args: Vec<std::ffi::OsString> = Vec::new();
    if pick(&mut u, 2) == 0 {
        args = groups.into_iter().flatten().collect();
    } else {
        let is_ordered = |g: &Vec<std::ffi::OsString>| {
            let t = g.last().map(|s| s.to_string_lossy().into_owned()).unwrap_or_default();
            t.ends_with(".slice") || t.contains("gen") || t == "notes.txt" || t == "adir" || t.contains("inner.slice")
        };
        let (ordered, mut free): (Vec<_>, Vec<_>) = groups.into_iter().partition(is_ordered);
        // insert every free group at a drawn position among the ordered ones
        let mut seq: Vec<Vec<std::ffi::OsString>> = ordered;
        while let Some(g) = free.pop() {
            let at = pick(&mut u, seq.len() + 1);
            seq.insert(at, g);
        }
        cx.label("shuffled-options");
        if let (Some(d), Some(o)) = (
            seq.iter().position(|g| g[0] == "--dry-run"),
            seq.iter().position(|g| g[0] == "-O" || g[0].to_string_lossy().starts_with("--output-dir")),
        ) {
            cx.label(if d < o { "dry-run-before-output-dir" } else { "dry-run-after-output-dir" });
        }
        args = seq.into_iter().flatten().collect();
    }

    cx.nontrivial = ngen > 0 && !(state.starts_with("clean") && !dry_run && failing_gen.is_none());
    cx.label(format!("state:{state}"));
    cx.label_if(error_expected && is_ref.get(victim) == Some(&true), "error-in-reference-file");
    cx.label_if(error_expected && victim + 1 == nfiles && nfiles > 1, "error-in-last-of-several-files");
    cx.label_if(warning_expected && ngen > 0 && !dry_run, "warnings-only-with-generators");
    cx.label_if(!error_expected && dry_run && ngen > 0, "dry-run-with-clean-program");
    cx.label_if(!error_expected && failing_gen.is_some() && !dry_run, "failing-generator-with-clean-program");
    cx.label_if(allow == 1 && warning_expected, "allow-all-with-warnings");
    cx.label_if(also_duplicate && error_expected, "duplicate-file-warning-next-to-an-error");
    cx.label_if(failing_gen.is_some() && fail_mode == 2 && should_generate_label(error_expected, dry_run), "generator-killed-after-complete-reply");
    cx.label_if(big_request && should_generate_label(error_expected, dry_run) && state != "err-syntax", "generator-fails-without-reading-a-large-request");
    cx.sample_with(|| json!({"argv": args.iter().map(|a| a.to_string_lossy().into_owned()).collect::<Vec<_>>(), "state": state, "victim_file": victim}));

    let r = proc::run_slicec(&dir.path, &args, &[], Duration::from_secs(30));
    let argv_text = format!("{:?}", args);
    if let Some(c) = r.crashed() {
        fail!(format!("slicec-crash/{c}"), "argv {argv_text}: {}", r.stderr_text());
    }
    let should_generate = !error_expected && !dry_run;
    for (g, gp) in gens.iter().enumerate() {
        let ran = dir.generator_log_lines(gp);
        if should_generate {
            check!(
                ran == 1,
                format!("generator-not-run/{}", if warning_expected { "warnings-only" } else { "clean" }),
                "argv {argv_text}: generator {g} ran {ran} times although the compilation has no error and no --dry-run\nstderr: {}",
                r.stderr_text()
            );
        } else {
            check!(
                ran == 0,
                format!("generator-ran/{}", if dry_run && !error_expected { "dry-run".to_owned() } else { state.to_owned() }),
                "argv {argv_text}: generator {g} was started (state {state}, dry_run {dry_run})\nstderr: {}",
                r.stderr_text()
            );
        }
        let produced = dir.path.join(out_rel).join(format!("gen{g}.out")).exists();
        let should_write = should_generate && failing_gen != Some(g);
        check!(
            produced == should_write,
            format!("output-file/{}", if produced { "written-unexpectedly" } else { "missing" }),
            "argv {argv_text}: output file of generator {g}: present={produced}, expected={should_write}\nstderr: {}",
            r.stderr_text()
        );
    }
    // exit status <=> an error diagnostic was emitted
    let stderr = r.stderr_text();
    let emitted_errors = if json_mode {
        let mut n = 0;
        for line in stderr.lines() {
            let v: serde_json::Value = match serde_json::from_str(line) {
                Ok(v) => v,
                Err(e) => fail!("json-stream/unparseable-line", "argv {argv_text}: stderr line {line:?} is not JSON: {e}"),
            };
            if v.get("severity").and_then(|s| s.as_str()) == Some("error") {
                n += 1;
            }
        }
        n
    } else {
        stderr.lines().filter(|l| l.starts_with("error [")).count()
    };
    let expect_error = error_expected || (should_generate && failing_gen.is_some());
    check!(
        (emitted_errors > 0) == expect_error,
        format!("error-diagnostics/{}", if expect_error { "missing" } else { "unexpected" }),
        "argv {argv_text}: {emitted_errors} error diagnostics emitted, expected {}\nstderr: {stderr}",
        if expect_error { "some" } else { "none" }
    );
    check!(
        (r.code != Some(0)) == (emitted_errors > 0),
        format!("exit-status/{:?}-with-{}-errors", r.code.unwrap_or(-1), if emitted_errors > 0 { "some" } else { "no" }),
        "argv {argv_text}: exit status {:?} with {emitted_errors} error diagnostics emitted\nstderr: {stderr}",
        r.code
    );
    Ok(())
}

impl Check for C07 {
    fn id(&self) -> &'static str {
        "C07"
    }
    fn rule(&self) -> String {
        "proptest choice sequences -> (program state out of 15: clean, warnings only by three different lints, exactly one error of each phase incl. three kinds of I/O error and a redefinition across files, placed in any one of 1..4 source / reference files; one more state: a module-less file holding only an illegal file attribute; now and then an extra empty / comment-only source or reference file; with -O the working directory may already hold identical output files) x 0..3 instrumented fake generators (one optionally failing by exit status, by stderr output, by being killed by a signal after a complete valid reply, or by exiting without reading a request that is larger than a pipe buffer) x --dry-run x human/json x -A lists x -O / --output-dir= x the first file optionally named twice (DuplicateFile warning next to any state) x option order (as built, or options inserted at drawn positions among the files and generators); run through the real binary; oracle: invocation log of each generator exists <=> no error and no --dry-run, output files appear only then (and not for the failing generator), exit status != 0 <=> an error diagnostic was emitted (JSON lines / 'error [' headers). Non-trivial = >= 1 generator and not the plain clean run".into()
    }
    fn assumptions(&self) -> Vec<String> {
        vec!["fake generators follow the documented protocol (read all of stdin, then reply)".into()]
    }
    fn essential(&self, _tier: Tier) -> Vec<&'static str> {
        let mut v: Vec<&'static str> = vec![
            "error-in-reference-file",
            "error-in-last-of-several-files",
            "warnings-only-with-generators",
            "dry-run-with-clean-program",
            "failing-generator-with-clean-program",
            "allow-all-with-warnings",
            "duplicate-file-warning-next-to-an-error",
            "generator-killed-after-complete-reply",
            "dry-run-before-output-dir",
            "dry-run-after-output-dir",
        ];
        v.extend([
            "state:clean",
            "state:warn-deprecated",
            "state:warn-broken-link",
            "state:warn-duplicate-file",
            "state:err-nonexistent-path",
            "state:err-non-slice-path",
            "state:err-directory-as-source",
            "state:err-syntax",
            "state:err-unknown-attribute",
            "state:err-unresolved-type",
            "state:err-cycle",
            "state:err-redefinition",
            "state:err-rule-violation",
            "state:err-redefinition-across-files",
            "state:err-bad-file-attribute-in-module-less-file",
            "state:err-non-utf8-file",
            "generator-fails-without-reading-a-large-request",
            "module-less-reference-file",
            "module-less-source-file",
            "identical-files-in-cwd-with-output-dir",
        ]);
        v
    }
    fn needs_binary(&self) -> bool {
        true
    }
    fn families(&self, tier: Tier) -> Vec<Family<'_>> {
        vec![Family::bytes("runs", 72, tier.pick(300, 5_000), case)]
    }
}
