//! C17 — each input file is compiled exactly once: sources first, in the order given.
//!
//! Oracle: a reference model of the file set, computed on an *in-memory* description of the
//! directory tree (the same description the tree on disk is created from).  The model has its own
//! POSIX path resolver (`.`, `..` = physical parent, `//`, absolute paths, symbolic links), so the
//! identity of "the same file" never comes from `canonicalize` (which is what the implementation
//! uses).  Model, from the statement and DESIGN.md section 5 / Appendix A:
//!
//!  * every argument expands to the files it reaches: a source must name a `*.slice` file; a
//!    reference names a `*.slice` file or a directory that is walked recursively, following links,
//!    keeping `*.slice` files only (dangling links and other files inside a directory are ignored);
//!  * within each list the first occurrence of a file wins; references already present as sources
//!    are dropped; result = sources in argument order, then references in argument order.  The
//!    order of the files found below ONE directory argument is unspecified and not asserted: such
//!    an argument contributes a contiguous block whose members may come in any order;
//!  * `relative_path` of a file that was only named explicitly is one of the spellings the user
//!    wrote for it (in that list); for files found by a walk only "the path names that file" is
//!    asserted (no particular way of joining directory and entry names);
//!  * DuplicateFile warnings, per file and list: at most (ways the list reaches it) - 1; at least
//!    one if two *different arguments* of the list reach it (a file met twice inside one walked
//!    directory through a link is not something the user "repeated": lenient, 0 is accepted there);
//!    none for a file reached once per list, in particular none for source/reference overlap;
//!  * a listed path that does not exist (incl. dangling link, `file/`), a listed file without the
//!    `.slice` extension, a directory given as source -> >= 1 E001 quoting that spelling (at most
//!    one per time it was listed) and NOTHING parsed: no file has a module, contents or attributes
//!    and there is no diagnostic other than E001 / DuplicateFile, whatever the files contain;
//!  * unreadable entries (files that are not UTF-8; mode-000 files and directories when the
//!    compilation runs with euid `nobody`): >= 1 E001 naming the entry.  The statement's last
//!    sentence does not list them, so "nothing parsed" is NOT asserted for a run whose only
//!    problem is an unreadable entry (it is recorded as a label when observed).
//!
//! Diagnostic *wording* is not compared; the path a diagnostic talks about is found by cutting the
//! message at quote characters and taking the first piece that is a listed spelling or names an
//! existing entry of the model tree.
//!
//! Deliberate leniencies (ambiguous in the statement, excluded from the generator and documented
//! here): a symbolic link whose own name has a different extension class than its target
//! (`l.slice -> a.txt`): the generator keeps them consistent, the model goes by the spelled name;
//! links that point *into* a mode-000 directory (stat fails: neither "dangling" nor "unreadable");
//! hard links; names `.slice` / `a.SLICE`.
//!
//! Families: `tree` (in-process `compile_from_options`, cwd = the tree root), `perm` (the same with
//! mode-000 entries, compiled with the effective uid of `nobody`; skipped and counted when the
//! process cannot change its euid), `binary` (real binary + fake generator; weaker oracle, see
//! `judge_binary`), `direct` (replay only: the input bytes are the text script documented at
//! `parse_script`).

use crate::engine::*;
use crate::proc::{self, os, CaseDir};
use crate::{check, fail};
use arbitrary::Unstructured;
use serde_json::json;
use slicec::diagnostics::DiagnosticLevel;
use slicec::grammar::*;
use slicec::slice_options::SliceOptions;
use std::collections::{BTreeMap, BTreeSet};
use std::path::{Path, PathBuf};
use std::time::Duration;

pub struct C17;

// ------------------------------------------------------------------------------------------
// Case description (pure data; what the generator produces and the `direct` script spells)
// ------------------------------------------------------------------------------------------

#[derive(Clone, Copy, Debug, PartialEq, Eq, Hash)]
enum Content {
    /// `module Mod<id>` + `struct Str<id> { a: int32 }`
    Valid,
    /// a deliberate syntax error (three shapes, chosen by id % 3), always with a module line first
    Bad,
    /// zero bytes (compiles to nothing)
    Empty,
    /// not valid UTF-8: the root-proof stand-in for "unreadable"
    Binary,
}

#[derive(Clone, Debug, Hash)]
enum Op {
    Dir { path: String, locked: bool },
    File { path: String, content: Content, id: u32, locked: bool },
    Link { path: String, target: String },
}

#[derive(Clone, Debug, Hash, Default)]
struct Case {
    /// compile with the effective uid of `nobody` (mode-000 entries then deny access)
    unprivileged: bool,
    ops: Vec<Op>,
    sources: Vec<String>,
    references: Vec<String>,
}

const ROOT_TOKEN: &str = "@ROOT@";
const BASE_TOKEN: &str = "@BASE@";
/// Name of the tree root below the case directory (the value of `@BASE@`).
const TREE_DIR: &str = "t";
const EMPTY_TOKEN: &str = "<empty>";

fn file_bytes(content: Content, id: u32) -> Vec<u8> {
    match content {
        Content::Valid => format!("module Mod{id}\nstruct Str{id} {{ a: int32 }}\n").into_bytes(),
        Content::Bad => match id % 3 {
            0 => format!("module Mod{id}\nstruct Str{id} {{ a int32 }}\n").into_bytes(),
            1 => format!("module Mod{id}\nstruct {{ }}\n").into_bytes(),
            _ => format!("module Mod{id}\nstruct Str{id} {{ a: int32 \n").into_bytes(),
        },
        Content::Empty => Vec::new(),
        Content::Binary => {
            let mut b = format!("module Mod{id}\n// ").into_bytes();
            b.extend_from_slice(&[0xff, 0xfe, 0xc0, 0x80]);
            b.extend_from_slice(format!("\nstruct Str{id} {{ a: int32 }}\n").as_bytes());
            b
        }
    }
}

fn content_name(c: Content) -> &'static str {
    match c {
        Content::Valid => "valid",
        Content::Bad => "bad",
        Content::Empty => "empty",
        Content::Binary => "binary",
    }
}

/// Renders a case as the `direct` script.
fn render_script(case: &Case) -> String {
    let mut s = String::new();
    if case.unprivileged {
        s.push_str("unprivileged\n");
    }
    for op in &case.ops {
        match op {
            Op::Dir { path, locked } => {
                s.push_str(&format!("dir {path}{}\n", if *locked { " 000" } else { "" }));
            }
            Op::File { path, content, id, locked } => s.push_str(&format!(
                "file {path} {} {id}{}\n",
                content_name(*content),
                if *locked { " 000" } else { "" }
            )),
            Op::Link { path, target } => s.push_str(&format!("link {path} {target}\n")),
        }
    }
    let tok = |a: &String| if a.is_empty() { EMPTY_TOKEN.to_owned() } else { a.clone() };
    for a in &case.sources {
        s.push_str(&format!("src {}\n", tok(a)));
    }
    for a in &case.references {
        s.push_str(&format!("ref {}\n", tok(a)));
    }
    s
}

/// The `direct` family: the input bytes are a UTF-8 text, one directive per line (`#` starts a
/// comment line, tokens are separated by blanks, no blanks inside paths):
///
/// ```text
/// unprivileged                      compile with euid nobody (optional)
/// binary                            run through the real binary instead of in-process (optional)
/// dir  <path> [000]                 directory (parents must have been created before)
/// file <path> valid|bad|empty|binary <id> [000]
/// link <path> <target>              symbolic link; <target> verbatim (relative to the link's directory)
/// src  <spelling>                   one source argument, verbatim (`<empty>` = the empty string)
/// ref  <spelling>                   one reference argument
/// ```
///
/// `<path>` is relative to the tree root (which is also the working directory); `@ROOT@` inside a
/// target or spelling is replaced by the absolute canonical path of the tree root and `@BASE@` by
/// its last component.
fn parse_script(text: &str) -> Result<(Case, bool), String> {
    let mut case = Case::default();
    let mut binary = false;
    for (n, line) in text.lines().enumerate() {
        let line = line.trim();
        if line.is_empty() || line.starts_with('#') {
            continue;
        }
        let t: Vec<&str> = line.split_whitespace().collect();
        let bad = || format!("line {}: cannot parse {line:?}", n + 1);
        let untok = |s: &str| if s == EMPTY_TOKEN { String::new() } else { s.to_owned() };
        match t[0] {
            "unprivileged" => case.unprivileged = true,
            "binary" => binary = true,
            "dir" if t.len() >= 2 => case.ops.push(Op::Dir {
                path: t[1].to_owned(),
                locked: t.get(2) == Some(&"000"),
            }),
            "file" if t.len() >= 4 => {
                let content = match t[2] {
                    "valid" => Content::Valid,
                    "bad" => Content::Bad,
                    "empty" => Content::Empty,
                    "binary" => Content::Binary,
                    _ => return Err(bad()),
                };
                case.ops.push(Op::File {
                    path: t[1].to_owned(),
                    content,
                    id: t[3].parse().map_err(|_| bad())?,
                    locked: t.get(4) == Some(&"000"),
                });
            }
            "link" if t.len() == 3 => case.ops.push(Op::Link {
                path: t[1].to_owned(),
                target: t[2].to_owned(),
            }),
            "src" if t.len() == 2 => case.sources.push(untok(t[1])),
            "ref" if t.len() == 2 => case.references.push(untok(t[1])),
            _ => return Err(bad()),
        }
    }
    Ok((case, binary))
}

// ------------------------------------------------------------------------------------------
// The model file system and its path resolver
// ------------------------------------------------------------------------------------------

type Id = usize;

#[derive(Debug)]
enum Kind {
    Dir(BTreeMap<String, Id>),
    File { content: Content, id: u32 },
    Link(String),
}

#[derive(Debug)]
struct Node {
    kind: Kind,
    parent: Id,
    name: String,
    locked: bool,
}

#[derive(Clone, Copy, Debug, PartialEq, Eq)]
enum RErr {
    NoEnt,
    NotDir,
    Loop,
    Access,
}

struct Fs {
    nodes: Vec<Node>,
    /// the tree root (= working directory of the compilation)
    cwd: Id,
    root_abs: String,
}

impl Fs {
    fn is_dir(&self, id: Id) -> bool {
        matches!(self.nodes[id].kind, Kind::Dir(_))
    }

    fn add(&mut self, parent: Id, name: &str, kind: Kind, locked: bool) -> Result<Id, String> {
        let id = self.nodes.len();
        match &mut self.nodes[parent].kind {
            Kind::Dir(ch) => {
                if ch.contains_key(name) {
                    return Err(format!("{name:?} exists twice"));
                }
                ch.insert(name.to_owned(), id);
            }
            _ => return Err(format!("parent of {name:?} is not a directory")),
        }
        self.nodes.push(Node {
            kind,
            parent,
            name: name.to_owned(),
            locked,
        });
        Ok(id)
    }

    /// Builds the model: `/` + the chain of directories down to `root_abs` + the case's entries.
    fn build(case: &Case, root_abs: &str) -> Result<Fs, String> {
        let mut fs = Fs {
            nodes: vec![Node {
                kind: Kind::Dir(BTreeMap::new()),
                parent: 0,
                name: String::new(),
                locked: false,
            }],
            cwd: 0,
            root_abs: root_abs.to_owned(),
        };
        let mut cur = 0;
        for comp in root_abs.split('/').filter(|c| !c.is_empty()) {
            cur = fs.add(cur, comp, Kind::Dir(BTreeMap::new()), false)?;
        }
        fs.cwd = cur;
        for op in &case.ops {
            let (path, kind, locked) = match op {
                Op::Dir { path, locked } => (path, Kind::Dir(BTreeMap::new()), *locked),
                Op::File { path, content, id, locked } => (
                    path,
                    Kind::File {
                        content: *content,
                        id: *id,
                    },
                    *locked,
                ),
                Op::Link { path, target } => (path, Kind::Link(subst(target, root_abs)), false),
            };
            let (dir, name) = match path.rsplit_once('/') {
                Some((d, n)) => (d, n),
                None => ("", path.as_str()),
            };
            if name.is_empty() || name == "." || name == ".." || path.starts_with('/') {
                return Err(format!("bad entry path {path:?}"));
            }
            // parents are plain directories of the tree (no links, no dots) by construction
            let mut p = fs.cwd;
            for comp in dir.split('/').filter(|c| !c.is_empty()) {
                p = match &fs.nodes[p].kind {
                    Kind::Dir(ch) => *ch.get(comp).ok_or_else(|| format!("parent of {path:?} was not created"))?,
                    _ => return Err(format!("parent of {path:?} is not a directory")),
                };
                if !fs.is_dir(p) {
                    return Err(format!("parent of {path:?} is not a plain directory"));
                }
            }
            fs.add(p, name, kind, locked)?;
        }
        Ok(fs)
    }

    /// POSIX path resolution, every symbolic link followed (also the last component).
    /// `unpriv`: mode-000 directories deny search.  `via_link` is set when a link was traversed.
    fn resolve(&self, base: Id, path: &str, unpriv: bool, hops: &mut u32, via_link: &mut bool) -> Result<Id, RErr> {
        if path.is_empty() {
            return Err(RErr::NoEnt);
        }
        let mut cur = if path.starts_with('/') { 0 } else { base };
        for comp in path.split('/').filter(|c| !c.is_empty()) {
            let children = match &self.nodes[cur].kind {
                Kind::Dir(ch) => ch,
                _ => return Err(RErr::NotDir),
            };
            if unpriv && self.nodes[cur].locked {
                return Err(RErr::Access);
            }
            if comp == "." {
                continue;
            }
            if comp == ".." {
                cur = self.nodes[cur].parent;
                continue;
            }
            let mut child = *children.get(comp).ok_or(RErr::NoEnt)?;
            if let Kind::Link(target) = &self.nodes[child].kind {
                *hops += 1;
                if *hops > 40 {
                    return Err(RErr::Loop);
                }
                *via_link = true;
                child = self.resolve(cur, target, unpriv, hops, via_link)?;
            }
            cur = child;
        }
        if path.ends_with('/') && !self.is_dir(cur) {
            return Err(RErr::NotDir);
        }
        Ok(cur)
    }

    fn lookup(&self, path: &str, unpriv: bool) -> Result<(Id, bool), RErr> {
        let mut hops = 0;
        let mut via = false;
        self.resolve(self.cwd, path, unpriv, &mut hops, &mut via).map(|id| (id, via))
    }

    /// `lstat` view: the last component of `path` is itself a symbolic link (used to tell a
    /// dangling link from a name that does not exist at all; labels only).
    fn names_a_link(&self, path: &str) -> bool {
        let trimmed = path.trim_end_matches('/');
        let (dir, name) = match trimmed.rsplit_once('/') {
            Some((d, n)) => (if d.is_empty() { "/" } else { d }, n),
            None => (".", trimmed),
        };
        let Ok((d, _)) = self.lookup(dir, false) else { return false };
        match &self.nodes[d].kind {
            Kind::Dir(ch) => ch.get(name).map(|c| matches!(self.nodes[*c].kind, Kind::Link(_))).unwrap_or(false),
            _ => false,
        }
    }

    fn abs_path(&self, mut id: Id) -> String {
        let mut comps = Vec::new();
        while id != 0 {
            comps.push(self.nodes[id].name.clone());
            id = self.nodes[id].parent;
        }
        comps.reverse();
        format!("/{}", comps.join("/"))
    }
}

fn subst(s: &str, root_abs: &str) -> String {
    let base = root_abs.rsplit('/').next().unwrap_or("");
    s.replace(ROOT_TOKEN, root_abs).replace(BASE_TOKEN, base)
}

/// The last component of a spelled path has the `slice` extension (and a non-empty stem).
fn slice_named(path: &str) -> bool {
    let last = path.rsplit('/').find(|c| !c.is_empty()).unwrap_or("");
    last.len() > ".slice".len() && last.ends_with(".slice")
}

// ------------------------------------------------------------------------------------------
// The reference model of the file set
// ------------------------------------------------------------------------------------------

#[derive(Debug, Clone)]
struct Reach {
    node: Id,
    /// a spelling a walk would naturally produce (evidence / binary search only, never asserted)
    spelling: String,
    via_link: bool,
}

#[derive(Debug)]
struct Block {
    is_source: bool,
    arg: String,
    /// the argument names a file (false: a walked directory)
    explicit: bool,
    found: Vec<Reach>,
}

#[derive(Debug, Default)]
struct WalkStats {
    nested: bool,
    ignored_nonslice: bool,
    dangling_in_dir: bool,
    empty_dir: bool,
    xslice_dir: bool,
    dir_link_followed: bool,
}

#[derive(Debug, Default)]
struct Model {
    /// one block per acceptable argument: all sources, then all references, in argument order
    blocks: Vec<Block>,
    /// listed spellings that must be reported as I/O errors: (spelling, reason)
    errors: Vec<(String, &'static str)>,
    /// unreadable directories met by a walk (one entry per time met)
    locked_dirs: Vec<Id>,
    stats: WalkStats,
}

impl Model {
    fn compute(fs: &Fs, case: &Case) -> Model {
        let mut m = Model::default();
        let unpriv = case.unprivileged;
        for (list, is_source) in [(&case.sources, true), (&case.references, false)] {
            for arg in list.iter() {
                let arg = subst(arg, &fs.root_abs);
                match fs.lookup(&arg, unpriv) {
                    Err(RErr::Access) => m.errors.push((arg, "path-through-locked-dir")),
                    Err(RErr::NotDir) if fs.lookup(arg.trim_end_matches('/'), unpriv).is_ok() => {
                        m.errors.push((arg, "file-with-trailing-slash"))
                    }
                    Err(_) if !arg.ends_with('/') && fs.names_a_link(&arg) => m.errors.push((arg, "dangling-link")),
                    Err(_) => m.errors.push((arg, "nonexistent")),
                    Ok((node, via)) => match &fs.nodes[node].kind {
                        Kind::File { .. } => {
                            if slice_named(&arg) {
                                m.blocks.push(Block {
                                    is_source,
                                    arg: arg.clone(),
                                    explicit: true,
                                    found: vec![Reach {
                                        node,
                                        spelling: arg,
                                        via_link: via,
                                    }],
                                });
                            } else {
                                m.errors.push((arg, "not-slice-extension"));
                            }
                        }
                        Kind::Dir(_) => {
                            if is_source {
                                m.errors.push((arg, "directory-as-source"));
                            } else {
                                let mut found = Vec::new();
                                m.walk(fs, node, &arg, via, unpriv, &mut found, 0);
                                m.blocks.push(Block {
                                    is_source,
                                    arg,
                                    explicit: false,
                                    found,
                                });
                            }
                        }
                        Kind::Link(_) => unreachable!("resolve follows links"),
                    },
                }
            }
        }
        m
    }

    fn walk(&mut self, fs: &Fs, dir: Id, spelled: &str, via: bool, unpriv: bool, out: &mut Vec<Reach>, depth: u32) {
        assert!(depth < 64, "model walk: link cycle in the generated tree");
        if unpriv && fs.nodes[dir].locked {
            self.locked_dirs.push(dir);
            return;
        }
        let Kind::Dir(children) = &fs.nodes[dir].kind else { unreachable!() };
        if children.is_empty() {
            self.stats.empty_dir = true;
        }
        if fs.nodes[dir].name.ends_with(".slice") {
            self.stats.xslice_dir = true;
        }
        for (name, &child) in children {
            let path = if spelled.ends_with('/') {
                format!("{spelled}{name}")
            } else {
                format!("{spelled}/{name}")
            };
            let mut via_here = via;
            let target = match &fs.nodes[child].kind {
                Kind::Link(t) => {
                    let mut hops = 1;
                    let mut v = false;
                    match fs.resolve(dir, t, unpriv, &mut hops, &mut v) {
                        Ok(id) => {
                            via_here = true;
                            id
                        }
                        Err(_) => {
                            // dangling (or, outside the generated domain, inaccessible): ignored
                            self.stats.dangling_in_dir = true;
                            continue;
                        }
                    }
                }
                _ => child,
            };
            match &fs.nodes[target].kind {
                Kind::Dir(_) => {
                    self.stats.nested = true;
                    if via_here && !via {
                        self.stats.dir_link_followed = true;
                    }
                    self.walk(fs, target, &path, via_here, unpriv, out, depth + 1);
                }
                Kind::File { .. } => {
                    if slice_named(name) {
                        out.push(Reach {
                            node: target,
                            spelling: path,
                            via_link: via_here,
                        });
                    } else {
                        self.stats.ignored_nonslice = true;
                    }
                }
                Kind::Link(_) => unreachable!(),
            }
        }
    }
}

/// What the model expects `state.files` to be.
struct ExpBlock {
    is_source: bool,
    /// files this argument contributes (first occurrences only)
    nodes: BTreeSet<Id>,
}

struct PerNode {
    in_sources: bool,
    /// ways the source / reference list reaches the file, and from how many different arguments
    ways: [usize; 2],
    args: [usize; 2],
    /// spellings written explicitly for it, per list
    explicit: [BTreeSet<String>; 2],
    /// reached by a directory walk, per list
    walked: [bool; 2],
}

struct Expected {
    blocks: Vec<ExpBlock>,
    per_node: BTreeMap<Id, PerNode>,
}

impl Expected {
    fn derive(m: &Model) -> Expected {
        let mut per_node: BTreeMap<Id, PerNode> = BTreeMap::new();
        let mut blocks = Vec::new();
        let mut seen: [BTreeSet<Id>; 2] = [BTreeSet::new(), BTreeSet::new()];
        for b in &m.blocks {
            let li = if b.is_source { 0 } else { 1 };
            let mut mine = BTreeSet::new();
            let mut here = BTreeSet::new();
            for r in &b.found {
                let e = per_node.entry(r.node).or_insert_with(|| PerNode {
                    in_sources: false,
                    ways: [0, 0],
                    args: [0, 0],
                    explicit: [BTreeSet::new(), BTreeSet::new()],
                    walked: [false, false],
                });
                e.ways[li] += 1;
                if here.insert(r.node) {
                    e.args[li] += 1;
                }
                if b.is_source {
                    e.in_sources = true;
                }
                if b.explicit {
                    e.explicit[li].insert(r.spelling.clone());
                } else {
                    e.walked[li] = true;
                }
                let new_in_list = seen[li].insert(r.node);
                if new_in_list && (b.is_source || !seen[0].contains(&r.node)) {
                    mine.insert(r.node);
                }
            }
            if !mine.is_empty() {
                blocks.push(ExpBlock {
                    is_source: b.is_source,
                    nodes: mine,
                });
            }
        }
        Expected { blocks, per_node }
    }

    fn all(&self) -> BTreeSet<Id> {
        self.blocks.iter().flat_map(|b| b.nodes.iter().copied()).collect()
    }
}

// ------------------------------------------------------------------------------------------
// Creating the tree on disk, running the implementation
// ------------------------------------------------------------------------------------------

fn materialise(case: &Case, root: &Path, root_abs: &str) -> Result<(), String> {
    use std::os::unix::fs::PermissionsExt;
    let mut lock = Vec::new();
    for op in &case.ops {
        match op {
            Op::Dir { path, locked } => {
                std::fs::create_dir(root.join(path)).map_err(|e| format!("mkdir {path}: {e}"))?;
                if *locked {
                    lock.push(path.clone());
                }
            }
            Op::File { path, content, id, locked } => {
                std::fs::write(root.join(path), file_bytes(*content, *id)).map_err(|e| format!("write {path}: {e}"))?;
                if *locked {
                    lock.push(path.clone());
                }
            }
            Op::Link { path, target } => {
                std::os::unix::fs::symlink(subst(target, root_abs), root.join(path))
                    .map_err(|e| format!("symlink {path}: {e}"))?;
            }
        }
    }
    // deepest first is not needed: we are still privileged here
    for p in lock {
        std::fs::set_permissions(root.join(&p), std::fs::Permissions::from_mode(0))
            .map_err(|e| format!("chmod {p}: {e}"))?;
    }
    Ok(())
}

const NOBODY: libc::uid_t = 65534;

/// Effective uid `nobody` for the life time of the value (restored on drop, also when unwinding).
struct Unprivileged;

impl Unprivileged {
    fn enter() -> Option<Unprivileged> {
        unsafe {
            if libc::geteuid() != 0 {
                return None;
            }
            if libc::seteuid(NOBODY) != 0 {
                return None;
            }
        }
        Some(Unprivileged)
    }
}

impl Drop for Unprivileged {
    fn drop(&mut self) {
        unsafe {
            if libc::seteuid(0) != 0 {
                eprintln!("vcheck C17: cannot restore euid 0");
                std::process::abort();
            }
        }
    }
}

/// Root, and the work directory can be reached by `nobody` (a snapshot of the verification tree
/// under a mode-700 directory such as /root cannot): probed once per process with a readable file.
fn can_drop_privileges() -> bool {
    static OK: std::sync::OnceLock<bool> = std::sync::OnceLock::new();
    *OK.get_or_init(|| {
        if unsafe { libc::geteuid() } != 0 {
            return false;
        }
        let dir = PathBuf::from(format!("{}/work", crate::engine::verif_root()));
        let _ = std::fs::create_dir_all(&dir);
        let probe = dir.join(format!(".c17-probe-{}", std::process::id()));
        if std::fs::write(&probe, b"x").is_err() {
            return false;
        }
        use std::os::unix::fs::PermissionsExt;
        let _ = std::fs::set_permissions(&probe, std::fs::Permissions::from_mode(0o644));
        let readable = match Unprivileged::enter() {
            Some(_guard) => std::fs::read(&probe).is_ok(),
            None => false,
        };
        let _ = std::fs::remove_file(&probe);
        readable
    })
}

/// Sets the working directory for the life time of the value; leaves it at `back` afterwards so
/// that the (removed) case directory is never the cwd between cases.
struct Cwd {
    back: PathBuf,
}

impl Cwd {
    fn enter(dir: &Path, back: &Path) -> Cwd {
        std::env::set_current_dir(dir).expect("chdir into the case tree");
        Cwd { back: back.to_owned() }
    }
}

impl Drop for Cwd {
    fn drop(&mut self) {
        let _ = std::env::set_current_dir(&self.back);
    }
}

#[derive(Debug)]
struct ObsFile {
    path: String,
    is_source: bool,
    module: Option<String>,
    definitions: Vec<String>,
    attributes: usize,
}

#[derive(Debug)]
struct ObsDiag {
    code: String,
    level: DiagnosticLevel,
    message: String,
    span_file: Option<String>,
}

struct Observed {
    files: Vec<ObsFile>,
    diags: Vec<ObsDiag>,
}

fn run_in_process(sources: &[String], references: &[String], unprivileged: bool) -> Observed {
    let options = SliceOptions {
        sources: sources.to_vec(),
        references: references.to_vec(),
        ..Default::default()
    };
    let state = {
        let _guard = if unprivileged {
            Some(Unprivileged::enter().expect("seteuid(nobody) failed although the process is root"))
        } else {
            None
        };
        slicec::compile_from_options(&options)
    };
    let files = state
        .files
        .iter()
        .map(|f| ObsFile {
            path: f.relative_path.clone(),
            is_source: f.is_source,
            module: f.module.as_ref().map(|m| m.borrow().identifier().to_owned()),
            definitions: f.contents.iter().map(|d| d.borrow().identifier().to_owned()).collect(),
            attributes: f.attributes.len(),
        })
        .collect();
    // what the user is shown: levels after `--allow` / `[allow]` processing (none is in effect)
    let diags = state
        .diagnostics
        .into_updated(&state.ast, &state.files, &options)
        .iter()
        .map(|d| ObsDiag {
            code: d.code().to_owned(),
            level: d.level(),
            message: d.message(),
            span_file: d.span().map(|s| s.file.clone()),
        })
        .collect();
    Observed { files, diags }
}

// ------------------------------------------------------------------------------------------
// The oracle (in-process)
// ------------------------------------------------------------------------------------------

/// The path a diagnostic talks about: the first piece between quote characters that is a listed
/// spelling or names an entry of the model tree.
fn path_in_message<'m>(fs: &Fs, listed: &BTreeSet<String>, message: &'m str) -> Option<&'m str> {
    let pieces: Vec<&str> = message.split(['\'', '"', '`']).collect();
    // pieces at odd positions are the quoted ones; prefer them, then anything
    let odd = pieces.iter().skip(1).step_by(2);
    let even = pieces.iter().step_by(2);
    for p in odd.chain(even) {
        if listed.contains(*p) || (!p.is_empty() && !p.contains(' ') && fs.lookup(p, false).is_ok()) {
            return Some(p);
        }
    }
    None
}

struct Judged {
    nothing_parsed: bool,
}

fn judge(fs: &Fs, case: &Case, m: &Model, exp: &Expected, obs: &Observed) -> Result<Judged, Fail> {
    let unpriv = case.unprivileged;
    let all = exp.all();
    let node_desc = |id: Id| fs.abs_path(id);
    let unreadable_file = |id: Id| match &fs.nodes[id].kind {
        Kind::File { content, .. } => *content == Content::Binary || (unpriv && fs.nodes[id].locked),
        _ => false,
    };
    let unreadable_files: BTreeSet<Id> = all.iter().copied().filter(|id| unreadable_file(*id)).collect();
    let listed_errors = !m.errors.is_empty();
    let unreadable = !unreadable_files.is_empty() || !m.locked_dirs.is_empty();
    let clean = !listed_errors && !unreadable;

    // ---- files: identity, uniqueness, membership, is_source (every kind of run) ----
    let mut obs_nodes = Vec::new();
    for f in &obs.files {
        match fs.lookup(&f.path, false) {
            Ok((id, _)) if matches!(fs.nodes[id].kind, Kind::File { .. }) => obs_nodes.push(id),
            other => fail!(
                "files/path-names-no-file",
                "state.files has relative_path {:?} which does not name a file of the tree ({other:?})",
                f.path
            ),
        }
    }
    let listing = || {
        obs.files
            .iter()
            .map(|f| format!("{}{}", if f.is_source { "S:" } else { "R:" }, f.path))
            .collect::<Vec<_>>()
            .join(" ")
    };
    {
        let mut seen = BTreeSet::new();
        for (i, id) in obs_nodes.iter().enumerate() {
            check!(
                seen.insert(*id),
                "files/compiled-twice",
                "{} is in state.files more than once (again as {:?}); files: {}",
                node_desc(*id),
                obs.files[i].path,
                listing()
            );
        }
    }
    for (i, id) in obs_nodes.iter().enumerate() {
        check!(
            all.contains(id),
            "files/extra",
            "{:?} (= {}) is in state.files but no argument reaches it as a *.slice file; files: {}",
            obs.files[i].path,
            node_desc(*id),
            listing()
        );
    }
    for (i, id) in obs_nodes.iter().enumerate() {
        let want = exp.per_node[id].in_sources;
        check!(
            obs.files[i].is_source == want,
            if want { "files/is-source/source-demoted" } else { "files/is-source/reference-promoted" },
            "{:?}: is_source = {}, expected {want}; files: {}",
            obs.files[i].path,
            obs.files[i].is_source,
            listing()
        );
    }

    // ---- diagnostics: attribution ----
    let listed: BTreeSet<String> = case
        .sources
        .iter()
        .chain(case.references.iter())
        .map(|a| subst(a, &fs.root_abs))
        .collect();
    let mut e001_by_spelling: BTreeMap<String, usize> = BTreeMap::new();
    let mut e001_by_node: BTreeMap<Id, usize> = BTreeMap::new();
    let mut dup_by_node: BTreeMap<Id, usize> = BTreeMap::new();
    let mut other_diags: Vec<&ObsDiag> = Vec::new();
    for d in &obs.diags {
        if d.code == "E001" {
            check!(
                d.level == DiagnosticLevel::Error,
                "diag/E001-not-error-level",
                "E001 with level {:?}: {}",
                d.level,
                d.message
            );
            check!(
                !clean,
                "diag/E001-in-clean-run",
                "every argument is fine and every file readable, but: {}",
                d.message
            );
            let Some(p) = path_in_message(fs, &listed, &d.message) else {
                fail!("diag/E001-names-no-path", "cannot find the path in: {}", d.message);
            };
            // a faulty argument is reported at most once per time it was listed; the same spelling
            // may in addition name an unreadable entry in the other list (`x` as source = directory
            // as source, `-R x` = unreadable directory)
            let times_listed = m.errors.iter().filter(|e| e.0 == p).count();
            let so_far = e001_by_spelling.get(p).copied().unwrap_or(0);
            if so_far < times_listed {
                *e001_by_spelling.entry(p.to_owned()).or_default() += 1;
                continue;
            }
            match fs.lookup(p, false) {
                Ok((id, _)) if unreadable_files.contains(&id) || m.locked_dirs.contains(&id) => {
                    *e001_by_node.entry(id).or_default() += 1;
                }
                _ if times_listed > 0 => fail!(
                    "error/reported-too-often",
                    "argument {p:?} is faulty and listed {times_listed} time(s) but has more E001 than that"
                ),
                _ => fail!(
                    "diag/E001-unexpected",
                    "E001 for {p:?}, which is neither a faulty argument nor an unreadable entry: {}",
                    d.message
                ),
            }
        } else if d.code == "DuplicateFile" {
            check!(
                d.level == DiagnosticLevel::Warning,
                "dup/not-a-warning",
                "DuplicateFile with level {:?}: {}",
                d.level,
                d.message
            );
            let Some(p) = path_in_message(fs, &listed, &d.message) else {
                fail!("dup/names-no-path", "cannot find the path in: {}", d.message);
            };
            match fs.lookup(p, false) {
                Ok((id, _)) => *dup_by_node.entry(id).or_default() += 1,
                Err(e) => fail!("dup/names-no-file", "DuplicateFile for {p:?} which does not resolve ({e:?})"),
            }
        } else {
            other_diags.push(d);
        }
    }

    // ---- DuplicateFile counts ----
    for (id, n) in &dup_by_node {
        let Some(pn) = exp.per_node.get(id) else {
            fail!("dup/unreached-file-warned", "DuplicateFile x{n} for {} which no argument reaches", node_desc(*id));
        };
        let high = pn.ways[0].saturating_sub(1) + pn.ways[1].saturating_sub(1);
        if *n > high {
            let overlap = pn.ways[0] > 0 && pn.ways[1] > 0;
            fail!(
                if high == 0 && overlap {
                    "dup/source-reference-overlap-warned"
                } else if high == 0 {
                    "dup/unrepeated-file-warned"
                } else {
                    "dup/too-many"
                },
                "{}: {n} DuplicateFile warning(s); reached {} time(s) by sources and {} by references, so at most {high}",
                node_desc(*id),
                pn.ways[0],
                pn.ways[1]
            );
        }
    }
    if clean {
        for (id, pn) in &exp.per_node {
            let low = (pn.args[0] >= 2) as usize + (pn.args[1] >= 2) as usize;
            let n = dup_by_node.get(id).copied().unwrap_or(0);
            check!(
                n >= low,
                "dup/missing",
                "{}: {n} DuplicateFile warning(s); {} source argument(s) and {} reference argument(s) reach it, so at least {low}",
                node_desc(*id),
                pn.args[0],
                pn.args[1]
            );
        }
    }

    let parsed: Vec<&ObsFile> = obs
        .files
        .iter()
        .filter(|f| f.module.is_some() || !f.definitions.is_empty() || f.attributes > 0)
        .collect();
    let nothing_parsed = parsed.is_empty() && other_diags.is_empty();

    // ---- listed errors: E001 per faulty argument, nothing parsed ----
    if listed_errors {
        for (sp, why) in &m.errors {
            let n = e001_by_spelling.get(sp).copied().unwrap_or(0);
            check!(
                n >= 1,
                format!("error/not-reported/{why}"),
                "argument {sp:?} ({why}) must be reported as an I/O error; diagnostics: {:?}",
                obs.diags.iter().map(|d| format!("{}: {}", d.code, d.message)).collect::<Vec<_>>()
            );
        }
        check!(
            parsed.is_empty(),
            "error/parsed-despite-io-error",
            "faulty arguments {:?}, yet {:?} was parsed (module {:?}, definitions {:?})",
            m.errors,
            parsed[0].path,
            parsed[0].module,
            parsed[0].definitions
        );
        check!(
            other_diags.is_empty(),
            "error/non-io-diagnostic",
            "faulty arguments {:?}, yet there is a non-I/O diagnostic: {} {}",
            m.errors,
            other_diags[0].code,
            other_diags[0].message
        );
        return Ok(Judged { nothing_parsed });
    }

    // ---- unreadable entries only: each is reported; nothing else asserted about parsing ----
    if unreadable {
        for id in unreadable_files.iter().chain(m.locked_dirs.iter()) {
            check!(
                e001_by_node.get(id).copied().unwrap_or(0) >= 1,
                "unreadable/not-reported",
                "{} cannot be read but there is no E001 for it; diagnostics: {:?}",
                node_desc(*id),
                obs.diags.iter().map(|d| format!("{}: {}", d.code, d.message)).collect::<Vec<_>>()
            );
        }
        return Ok(Judged { nothing_parsed });
    }

    // ---- clean run: the exact file list ----
    for id in &all {
        check!(
            obs_nodes.contains(id),
            "files/missing",
            "{} is reached by the arguments but is not in state.files; files: {}",
            node_desc(*id),
            listing()
        );
    }
    // (counts are equal now: no duplicate, no extra, none missing)
    let mut pos = 0;
    for b in &exp.blocks {
        let got: BTreeSet<Id> = obs_nodes[pos..pos + b.nodes.len()].iter().copied().collect();
        if got != b.nodes {
            let first_ref = obs.files.iter().position(|f| !f.is_source).unwrap_or(obs.files.len());
            let class = if obs.files[first_ref..].iter().any(|f| f.is_source) {
                "files/order/reference-before-source"
            } else {
                "files/order/argument-order"
            };
            fail!(
                class,
                "positions {pos}..{} of state.files should hold {:?}; files: {}",
                pos + b.nodes.len(),
                b.nodes.iter().map(|i| node_desc(*i)).collect::<Vec<_>>(),
                listing()
            );
        }
        pos += b.nodes.len();
    }
    for (i, id) in obs_nodes.iter().enumerate() {
        let pn = &exp.per_node[id];
        let li = if pn.in_sources { 0 } else { 1 };
        if !pn.walked[li] {
            check!(
                pn.explicit[li].contains(&obs.files[i].path),
                "files/spelling",
                "relative_path {:?} is not a spelling the user wrote for that file ({:?})",
                obs.files[i].path,
                pn.explicit[li]
            );
        }
    }

    // ---- clean run: every file was compiled, once ----
    let mut bad_paths = BTreeSet::new();
    for (i, id) in obs_nodes.iter().enumerate() {
        let Kind::File { content, id: n } = &fs.nodes[*id].kind else { unreachable!() };
        let f = &obs.files[i];
        match content {
            Content::Valid => {
                check!(
                    f.module.as_deref() == Some(&format!("Mod{n}")) && f.definitions == [format!("Str{n}")],
                    "compiled/valid-file-contents",
                    "{:?} holds module Mod{n} / struct Str{n} but state.files has module {:?}, definitions {:?}",
                    f.path,
                    f.module,
                    f.definitions
                );
            }
            Content::Bad => {
                bad_paths.insert(f.path.clone());
            }
            Content::Empty => {
                check!(
                    f.module.is_none() && f.definitions.is_empty(),
                    "compiled/empty-file-contents",
                    "{:?} is empty but has module {:?}, definitions {:?}",
                    f.path,
                    f.module,
                    f.definitions
                );
            }
            Content::Binary => unreachable!("binary files make the run unreadable"),
        }
    }
    let mut attributed = BTreeSet::new();
    let mut spanless = 0;
    for d in &other_diags {
        match &d.span_file {
            Some(file) if bad_paths.contains(file) => {
                attributed.insert(file.clone());
            }
            None if !bad_paths.is_empty() => spanless += 1,
            _ => fail!(
                "compiled/unexpected-diagnostic",
                "{} {} (in {:?}): the files involved are valid and have unique names, compiled once they give no diagnostic",
                d.code,
                d.message,
                d.span_file
            ),
        }
        check!(
            d.level == DiagnosticLevel::Error,
            "compiled/unexpected-diagnostic",
            "{} {} has level {:?}",
            d.code,
            d.message,
            d.level
        );
    }
    check!(
        attributed.len() + spanless >= bad_paths.len(),
        "compiled/bad-file-no-diagnostic",
        "files with syntax errors {bad_paths:?} but errors only for {attributed:?} (+{spanless} without span)"
    );
    Ok(Judged { nothing_parsed })
}

// ------------------------------------------------------------------------------------------
// Labels / non-triviality (computed from the model only)
// ------------------------------------------------------------------------------------------

fn label_case(cx: &mut CaseCtx, fs: &Fs, case: &Case, m: &Model, exp: &Expected) {
    let mut reachable_twice = false;
    for (id, pn) in &exp.per_node {
        let total = pn.ways[0] + pn.ways[1];
        if total < 2 {
            continue;
        }
        reachable_twice = true;
        cx.label_if(pn.ways[0] >= 2, "repeat-in-sources");
        cx.label_if(pn.ways[1] >= 2, "repeat-in-references");
        cx.label_if(pn.ways[0] >= 1 && pn.ways[1] >= 1, "source-and-reference");
        cx.label_if(
            pn.args[1] < pn.ways[1] && pn.args[1] == 1,
            "repeat-inside-one-directory-argument",
        );
        let reaches: Vec<&Reach> = m
            .blocks
            .iter()
            .flat_map(|b| b.found.iter().map(move |r| (b, r)))
            .filter(|(_, r)| r.node == *id)
            .map(|(_, r)| r)
            .collect();
        cx.label_if(reaches.iter().any(|r| r.via_link), "alias-through-symlink");
        let explicit: Vec<&String> = pn.explicit[0].iter().chain(pn.explicit[1].iter()).collect();
        cx.label_if(
            explicit.iter().any(|s| s.split('/').any(|c| c == "..")),
            "alias-through-dotdot",
        );
        cx.label_if(explicit.iter().any(|s| s.starts_with('/')), "alias-through-absolute-path");
        cx.label_if(
            explicit.iter().any(|s| s.starts_with("./") || s.contains("/./")),
            "alias-through-dot",
        );
        cx.label_if(explicit.iter().any(|s| s.contains("//")), "alias-through-double-slash");
        cx.label_if(
            (pn.walked[0] || pn.walked[1]) && !explicit.is_empty(),
            "directory-contains-listed-file",
        );
    }
    cx.label_if(m.stats.nested, "nested-directory");
    cx.label_if(m.stats.ignored_nonslice, "nonslice-in-directory-ignored");
    cx.label_if(m.stats.dangling_in_dir, "dangling-link-in-directory");
    cx.label_if(m.stats.empty_dir, "empty-directory");
    cx.label_if(m.stats.xslice_dir, "directory-named-x.slice-walked");
    cx.label_if(m.stats.dir_link_followed, "directory-symlink-walked");
    for (sp, why) in &m.errors {
        let _ = sp;
        cx.label(format!("listed-{why}"));
    }
    let all = exp.all();
    let mut has_bad = false;
    for id in &all {
        if let Kind::File { content, .. } = &fs.nodes[*id].kind {
            match content {
                Content::Binary => cx.label("non-utf8-file-reached"),
                Content::Bad => has_bad = true,
                Content::Empty => cx.label("empty-file-reached"),
                Content::Valid => {}
            }
            cx.label_if(case.unprivileged && fs.nodes[*id].locked, "perm-mode-000-file");
        }
    }
    cx.label_if(!m.locked_dirs.is_empty(), "perm-mode-000-directory");
    let unreadable = all.iter().any(|id| {
        matches!(&fs.nodes[*id].kind, Kind::File { content: Content::Binary, .. }) || (case.unprivileged && fs.nodes[*id].locked)
    }) || !m.locked_dirs.is_empty();
    if !m.errors.is_empty() {
        cx.label("run-with-faulty-argument");
        cx.label_if(has_bad, "faulty-argument-next-to-syntax-error-file");
        cx.label_if(all.len() > 0, "faulty-argument-next-to-good-files");
    } else if unreadable {
        cx.label("run-with-unreadable-entry-only");
    } else {
        cx.label("clean-run");
        cx.label_if(has_bad, "syntax-error-file-compiled");
        cx.label_if(exp.blocks.iter().any(|b| b.nodes.len() >= 2), "directory-block-of-several-files");
        cx.label_if(
            exp.blocks.iter().any(|b| b.is_source) && exp.blocks.iter().any(|b| !b.is_source),
            "sources-and-references-in-result",
        );
    }
    cx.nontrivial = reachable_twice || !m.errors.is_empty() || unreadable;
}

// ------------------------------------------------------------------------------------------
// Running one case
// ------------------------------------------------------------------------------------------

fn summary(fs: &Fs, m: &Model, exp: &Expected) -> serde_json::Value {
    json!({
        "expected_files": exp.blocks.iter().map(|b| json!({
            "is_source": b.is_source,
            "any_order": b.nodes.iter().map(|i| fs.abs_path(*i)).collect::<Vec<_>>(),
        })).collect::<Vec<_>>(),
        "faulty_arguments": m.errors.iter().map(|e| format!("{} ({})", e.0, e.1)).collect::<Vec<_>>(),
    })
}

/// Harness self-check: the model's resolver and the kernel agree on every listed spelling.
fn self_check(fs: &Fs, case: &Case) -> CaseResult {
    for arg in case.sources.iter().chain(case.references.iter()) {
        let sp = subst(arg, &fs.root_abs);
        let kernel = std::fs::canonicalize(&sp).ok().map(|p| p.display().to_string());
        let model = fs.lookup(&sp, false).ok().map(|(id, _)| fs.abs_path(id));
        check!(
            kernel == model,
            "harness/model-vs-kernel",
            "spelling {sp:?}: the kernel resolves it to {kernel:?}, the model to {model:?}"
        );
    }
    Ok(())
}

struct Prepared {
    dir: CaseDir,
    root: PathBuf,
    fs: Fs,
    model: Model,
    exp: Expected,
}

fn prepare(cx: &mut CaseCtx, case: &Case) -> Result<Prepared, Fail> {
    let dir = CaseDir::new(&cx.workdir, cx.shard, cx.case_no);
    let root = dir.path.join(TREE_DIR);
    std::fs::create_dir(&root).expect("create tree root");
    let root_abs = std::fs::canonicalize(&root).expect("canonical tree root").display().to_string();
    let fs = Fs::build(case, &root_abs).map_err(|e| Fail::new("harness/bad-script", e))?;
    materialise(case, &root, &root_abs).map_err(|e| Fail::new("harness/cannot-create-tree", e))?;
    let model = Model::compute(&fs, case);
    let exp = Expected::derive(&model);
    Ok(Prepared {
        dir,
        root,
        fs,
        model,
        exp,
    })
}

fn run_case(cx: &mut CaseCtx, case: &Case) -> CaseResult {
    if case.unprivileged && !can_drop_privileges() {
        // counted, not a hollow pass: `essential` does not demand the perm labels then
        cx.label("perm-skipped-cannot-drop-privileges");
        return Ok(());
    }
    cx.set_key(case);
    let p = prepare(cx, case)?;
    let _cwd = Cwd::enter(&p.root, &cx.workdir);
    label_case(cx, &p.fs, case, &p.model, &p.exp);
    cx.sample_with(|| json!({"script": render_script(case), "model": summary(&p.fs, &p.model, &p.exp)}));
    self_check(&p.fs, case)?;
    let sources: Vec<String> = case.sources.iter().map(|a| subst(a, &p.fs.root_abs)).collect();
    let references: Vec<String> = case.references.iter().map(|a| subst(a, &p.fs.root_abs)).collect();
    let obs = run_in_process(&sources, &references, case.unprivileged);
    let judged = judge(&p.fs, case, &p.model, &p.exp, &obs)?;
    if p.model.errors.is_empty() && judged.nothing_parsed && cx.labels.iter().any(|l| l == "run-with-unreadable-entry-only") {
        cx.label("unreadable-entry-stopped-all-parsing");
    }
    Ok(())
}

// ------------------------------------------------------------------------------------------
// Through the real binary
// ------------------------------------------------------------------------------------------

fn find_all(hay: &[u8], needle: &[u8]) -> Vec<usize> {
    if needle.is_empty() || hay.len() < needle.len() {
        return Vec::new();
    }
    (0..=hay.len() - needle.len()).filter(|&i| &hay[i..i + needle.len()] == needle).collect()
}

/// Weaker oracle for the generator request (DESIGN: "the paths inside the captured request,
/// sources vs references").  The request is `"generateCode"`, `Sequence<SliceFile>` sources,
/// `Sequence<SliceFile>` references; decoding a whole `SliceFile` needs the full schema (that is
/// C08's job), so only the parts that can be located without it are used:
///  * the request starts with the string `generateCode` and the varuint number of source files;
///  * every `SliceFile` starts with its path string followed by the module (`identifier` string +
///    empty attribute list).  All generated module identifiers are unique, so the byte string
///    `size-prefixed "Mod<id>" ++ 0x00` marks the file with that id; it must occur exactly once for
///    every file of the model's result and not at all for any other file of the tree;
///  * markers come in the model's order (sources in argument order, then the reference blocks in
///    argument order, members of one directory block in any order);
///  * for a file that was only named explicitly, the size-prefixed spelling immediately precedes
///    the marker (one of the spellings written for it);
///  * the first source's path starts right after the header; if the first reference's path could
///    be located, the varuint in front of it is the number of reference files.
/// Not checked: everything else inside the files (C08), the spelling of walked files.
fn judge_binary(fs: &Fs, exp: &Expected, stdin: &[u8]) -> CaseResult {
    use crate::wire::{enc_string, enc_varuint};
    // files that declare no module (empty ones) are compiled but not sent to generators
    let sent = |id: &Id| !matches!(&fs.nodes[*id].kind, Kind::File { content: Content::Empty, .. });
    let n_src: usize = exp.blocks.iter().filter(|b| b.is_source).map(|b| b.nodes.iter().filter(|i| sent(i)).count()).sum();
    let n_ref: usize = exp.blocks.iter().filter(|b| !b.is_source).map(|b| b.nodes.iter().filter(|i| sent(i)).count()).sum();
    let mut header = enc_string("generateCode");
    header.extend(enc_varuint(n_src as u64).unwrap());
    check!(
        stdin.starts_with(&header),
        "binary/request-header",
        "request must start with \"generateCode\" and the source count {n_src}; first bytes {}",
        to_hex(&stdin[..stdin.len().min(24)])
    );
    let marker = |n: u32| {
        let mut mk = enc_string(&format!("Mod{n}"));
        mk.push(0);
        mk
    };
    let all = exp.all();
    let mut pos_of: BTreeMap<Id, usize> = BTreeMap::new();
    for (id, node) in fs.nodes.iter().enumerate() {
        let Kind::File { id: n, .. } = &node.kind else { continue };
        let hits = find_all(stdin, &marker(*n));
        if all.contains(&id) && sent(&id) {
            check!(
                hits.len() == 1,
                if hits.is_empty() { "binary/file-missing-in-request" } else { "binary/file-twice-in-request" },
                "{} (module Mod{n}) occurs {} time(s) in the request",
                fs.abs_path(id),
                hits.len()
            );
            pos_of.insert(id, hits[0]);
        } else {
            check!(
                hits.is_empty(),
                "binary/extra-file-in-request",
                "{} (module Mod{n}) is not reached by the arguments but is in the request",
                fs.abs_path(id)
            );
        }
    }
    // order
    let mut last_end = 0usize;
    for b in &exp.blocks {
        let (Some(lo), Some(hi)) = (b.nodes.iter().filter_map(|i| pos_of.get(i).copied()).min(), b.nodes.iter().filter_map(|i| pos_of.get(i).copied()).max()) else {
            continue; // a block of module-less files only
        };
        check!(
            lo >= last_end,
            if b.is_source { "binary/order/sources" } else { "binary/order/references" },
            "the block {:?} starts at byte {lo}, before the end of an earlier block ({last_end})",
            b.nodes.iter().map(|i| fs.abs_path(*i)).collect::<Vec<_>>()
        );
        last_end = hi + 1;
    }
    // spelling of explicitly named files, and the two sequence counts
    let mut path_start: BTreeMap<Id, usize> = BTreeMap::new();
    for (id, pn) in &exp.per_node {
        let Some(&pos) = pos_of.get(id) else { continue };
        let li = if pn.in_sources { 0 } else { 1 };
        let candidates: Vec<Vec<u8>> = pn.explicit[li].iter().map(|s| enc_string(s)).collect();
        let hit = candidates.iter().find(|c| pos >= c.len() && &stdin[pos - c.len()..pos] == c.as_slice());
        if let Some(c) = hit {
            path_start.insert(*id, pos - c.len());
        } else if !pn.walked[li] {
            fail!(
                "binary/spelling",
                "the path in front of module marker of {} is none of {:?}",
                fs.abs_path(*id),
                pn.explicit[li]
            );
        }
    }
    if let Some(id) = exp.blocks.iter().filter(|b| b.is_source).flat_map(|b| b.nodes.iter()).filter(|i| pos_of.contains_key(i)).min_by_key(|i| pos_of[i]) {
        check!(
            path_start.get(id) == Some(&header.len()),
            "binary/first-source-position",
            "the first source's path should start at byte {} (right after the header), found at {:?}",
            header.len(),
            path_start.get(id)
        );
    }
    let first_ref = exp
        .blocks
        .iter()
        .filter(|b| !b.is_source)
        .flat_map(|b| b.nodes.iter())
        .filter(|i| pos_of.contains_key(i))
        .min_by_key(|i| pos_of[i]);
    match first_ref {
        Some(id) => {
            if let Some(&start) = path_start.get(id) {
                let count = enc_varuint(n_ref as u64).unwrap();
                check!(
                    start >= count.len() && stdin[start - count.len()..start] == count[..],
                    "binary/reference-count",
                    "the {n_ref} reference file(s) must be announced right in front of the first one (byte {start})"
                );
            }
        }
        None => {
            // no reference file: the request ends with an empty sequence, then come the (empty) arguments
            check!(
                stdin.ends_with(&[0, 0]),
                "binary/reference-count",
                "no reference file expected, but the captured stdin does not end with two empty collections"
            );
        }
    }
    Ok(())
}

fn run_binary(cx: &mut CaseCtx, case: &Case, interleave: &[bool]) -> CaseResult {
    cx.set_key(&(case, interleave));
    let p = prepare(cx, case)?;
    let _cwd = Cwd::enter(&p.root, &cx.workdir);
    label_case(cx, &p.fs, case, &p.model, &p.exp);
    self_check(&p.fs, case)?;
    drop(_cwd);
    let gen = p.dir.install_generator("g/gen0", "");
    // argv: sources positional, references as `-R <x>`, interleaved as the choice bits say,
    // relative order inside each list preserved
    let sources: Vec<String> = case.sources.iter().map(|a| subst(a, &p.fs.root_abs)).collect();
    let references: Vec<String> = case.references.iter().map(|a| subst(a, &p.fs.root_abs)).collect();
    let mut args = Vec::new();
    let (mut si, mut ri, mut k) = (0, 0, 0);
    while si < sources.len() || ri < references.len() {
        let take_ref = if si >= sources.len() {
            true
        } else if ri >= references.len() {
            false
        } else {
            interleave.get(k).copied().unwrap_or(false)
        };
        k += 1;
        if take_ref {
            args.push(os("-R"));
            args.push(os(&references[ri]));
            ri += 1;
        } else {
            args.push(os(&sources[si]));
            si += 1;
        }
    }
    args.push(os("--generator=../g/gen0"));
    cx.sample_with(|| json!({"script": render_script(case), "argv": args.iter().map(|a| a.to_string_lossy().into_owned()).collect::<Vec<_>>(), "model": summary(&p.fs, &p.model, &p.exp)}));
    let r = proc::run_slicec(&p.root, &args, &[], Duration::from_secs(20));
    if let Some(c) = r.crashed() {
        fail!(format!("binary/{c}"), "argv {args:?}: slicec crashed: {}", r.stderr_text());
    }
    let all = p.exp.all();
    let unreadable = all
        .iter()
        .any(|id| matches!(&p.fs.nodes[*id].kind, Kind::File { content: Content::Binary, .. }));
    let has_bad = all
        .iter()
        .any(|id| matches!(&p.fs.nodes[*id].kind, Kind::File { content: Content::Bad, .. }));
    if !p.model.errors.is_empty() {
        cx.label("binary-faulty-argument");
        check!(
            r.code == Some(1),
            "binary/error-exit-status",
            "argv {args:?}: faulty arguments {:?} but exit status {:?}; stderr {}",
            p.model.errors,
            r.code,
            r.stderr_text()
        );
        // nothing is parsed, so there is nothing a generator could be asked to generate
        check!(
            p.dir.generator_log_lines(&gen) == 0,
            "binary/generator-ran-after-io-error",
            "argv {args:?}: faulty arguments {:?} but the generator was started",
            p.model.errors
        );
        return Ok(());
    }
    if unreadable || has_bad {
        // an error of another kind (unreadable file / syntax error): only "fails cleanly" is checked
        cx.label("binary-other-error");
        check!(
            r.code == Some(1),
            "binary/error-exit-status",
            "argv {args:?}: unreadable or ill-formed file but exit status {:?}; stderr {}",
            r.code,
            r.stderr_text()
        );
        return Ok(());
    }
    cx.label("binary-clean-run");
    check!(
        r.code == Some(0),
        "binary/clean-exit-status",
        "argv {args:?}: expected exit 0, got {:?}; stderr {}",
        r.code,
        r.stderr_text()
    );
    let Some(stdin) = p.dir.generator_stdin(&gen) else {
        fail!("binary/generator-not-run", "argv {args:?}: the generator did not run; stderr {}", r.stderr_text());
    };
    judge_binary(&p.fs, &p.exp, &stdin)
}

// ------------------------------------------------------------------------------------------
// Generator
// ------------------------------------------------------------------------------------------

struct Ch<'a> {
    u: Unstructured<'a>,
}

impl<'a> Ch<'a> {
    fn byte(&mut self) -> u8 {
        self.u.arbitrary::<u8>().unwrap_or(0)
    }
    /// 0..n, monotone in the byte
    fn pick(&mut self, n: usize) -> usize {
        if n <= 1 {
            0
        } else {
            (self.byte() as usize * n) >> 8
        }
    }
    /// true with probability per256/256; an exhausted buffer says false
    fn chance(&mut self, per256: u32) -> bool {
        self.byte() as u32 + per256 >= 256
    }
}

#[derive(Clone, Copy, PartialEq)]
enum Flavour {
    InProcess,
    Perm,
    Binary,
}

#[derive(Clone)]
struct GDir {
    path: String,
    depth: usize,
}

#[derive(Clone)]
struct GDirLink {
    path: String,
    target_dir: usize,
}

fn join(dir: &str, name: &str) -> String {
    if dir.is_empty() {
        name.to_owned()
    } else {
        format!("{dir}/{name}")
    }
}

/// Relative path from directory `from` to entry `to` (both relative to the tree root).
fn relative(from: &str, to: &str) -> String {
    let f: Vec<&str> = from.split('/').filter(|c| !c.is_empty()).collect();
    let t: Vec<&str> = to.split('/').filter(|c| !c.is_empty()).collect();
    // keep at least the last component of `to`
    let mut common = 0;
    while common < f.len() && common + 1 < t.len() && f[common] == t[common] {
        common += 1;
    }
    let mut out: Vec<&str> = vec![".."; f.len() - common];
    out.extend(&t[common..]);
    if out.is_empty() {
        ".".to_owned()
    } else {
        out.join("/")
    }
}

struct Tree {
    dirs: Vec<GDir>,
    /// entries that name a `*.slice` file (real files and consistent links)
    slice_entries: Vec<String>,
    /// entries that name a file without the extension
    other_entries: Vec<String>,
    dir_links: Vec<GDirLink>,
    dangling: Vec<String>,
    ops: Vec<Op>,
}

fn gen_tree(c: &mut Ch, flavour: Flavour) -> Tree {
    let mut t = Tree {
        dirs: vec![GDir {
            path: String::new(),
            depth: 0,
        }],
        slice_entries: Vec::new(),
        other_entries: Vec::new(),
        dir_links: Vec::new(),
        dangling: Vec::new(),
        ops: Vec::new(),
    };
    // directories: parents come before children, so "index grows along every edge"
    let n_dirs = c.pick(6);
    for i in 0..n_dirs {
        let candidates: Vec<usize> = (0..t.dirs.len()).filter(|&d| t.dirs[d].depth < 3).collect();
        let parent = candidates[c.pick(candidates.len())];
        let name = match c.pick(4) {
            0 | 1 => format!("d{i}"),
            2 => format!("x{i}.slice"),
            _ => format!(".h{i}"),
        };
        let path = join(&t.dirs[parent].path, &name);
        t.ops.push(Op::Dir {
            path: path.clone(),
            locked: false,
        });
        let depth = t.dirs[parent].depth + 1;
        t.dirs.push(GDir { path, depth });
    }
    // files
    let n_files = 1 + c.pick(7);
    let mut file_entries: Vec<(String, bool)> = Vec::new(); // (path, slice named)
    for i in 0..n_files {
        let parent = c.pick(t.dirs.len());
        let sel = c.byte();
        let (name, content) = match sel {
            0..=129 => (format!("a{i}.slice"), Content::Valid),
            130..=139 => (format!(".a{i}.slice"), Content::Valid),
            140..=169 => {
                const OTHER: [&str; 5] = [".txt", ".slicex", ".slice.bak", "", ".ice"];
                (format!("n{i}{}", OTHER[sel as usize % 5]), Content::Valid)
            }
            170..=199 => (format!("b{i}.slice"), if flavour == Flavour::Binary { Content::Valid } else { Content::Bad }),
            200..=219 => (
                format!("e{i}.slice"),
                // (since the repair of F-01a the binary skips module-less files in the request)
                Content::Empty,
            ),
            _ => (format!("u{i}.slice"), if sel < 238 { Content::Valid } else { Content::Binary }),
        };
        let mut path = join(&t.dirs[parent].path, &name);
        // now and then a name that differs from an earlier file's only in the case of its first
        // letter, in the same directory: two files on a case-sensitive file system
        if matches!(content, Content::Valid) && name.starts_with('a') && c.pick(6) == 0 {
            if let Some((earlier, _)) = file_entries.iter().find(|(p, _)| p.rsplit('/').next().map(|b| b.starts_with('a') && b.ends_with(".slice")).unwrap_or(false)) {
                let (dir, base) = match earlier.rsplit_once('/') {
                    Some((d, b)) => (format!("{d}/"), b.to_owned()),
                    None => (String::new(), earlier.clone()),
                };
                let variant = format!("{dir}A{}", &base[1..]);
                if !file_entries.iter().any(|(p, _)| *p == variant) {
                    path = variant;
                }
            }
        }
        t.ops.push(Op::File {
            path: path.clone(),
            content,
            id: i as u32,
            locked: false,
        });
        let sl = slice_named(&path);
        file_entries.push((path.clone(), sl));
        if sl {
            t.slice_entries.push(path);
        } else {
            t.other_entries.push(path);
        }
    }
    // links
    let n_links = c.pick(5);
    for i in 0..n_links {
        let parent = c.pick(t.dirs.len());
        let ppath = t.dirs[parent].path.clone();
        let kind = c.pick(5);
        let style = c.pick(3);
        let spell_target = |target: &str| match style {
            0 => relative(&ppath, target),
            1 => format!("./{}", relative(&ppath, target)),
            _ => format!("{ROOT_TOKEN}/{target}"),
        };
        let later_dirs: Vec<usize> = (parent + 1..t.dirs.len()).collect();
        if (kind == 1 || kind == 3) && !later_dirs.is_empty() {
            // directory link: only to a directory created later than the one holding the link, so
            // every walk step (child or link) strictly increases the index: no cycle
            let target = later_dirs[c.pick(later_dirs.len())];
            let name = if c.pick(2) == 0 { format!("ld{i}") } else { format!("ld{i}.slice") };
            let path = join(&ppath, &name);
            t.ops.push(Op::Link {
                path: path.clone(),
                target: spell_target(&t.dirs[target].path),
            });
            t.dir_links.push(GDirLink {
                path,
                target_dir: target,
            });
        } else if kind == 4 {
            let path = join(&ppath, &format!("g{i}.slice"));
            t.ops.push(Op::Link {
                path: path.clone(),
                target: format!("missing{i}.slice"),
            });
            t.dangling.push(path);
        } else {
            // file link (possibly to an earlier file link); the link's name keeps the extension
            // class of what it points to (see the module comment)
            let (target, sl) = file_entries[c.pick(file_entries.len())].clone();
            let name = if sl { format!("l{i}.slice") } else { format!("l{i}.txt") };
            let path = join(&ppath, &name);
            t.ops.push(Op::Link {
                path: path.clone(),
                target: spell_target(&target),
            });
            file_entries.push((path.clone(), sl));
            if sl {
                t.slice_entries.push(path);
            } else {
                t.other_entries.push(path);
            }
        }
    }
    t
}

/// Spells the entry `entry` (path relative to the tree root, "" = the root itself).
fn spell(c: &mut Ch, t: &Tree, entry: &str, is_dir: bool) -> String {
    if entry.is_empty() {
        const ROOTS: [&str; 7] = [".", "./", "@ROOT@", "@ROOT@/", "../@BASE@", "./.", "@ROOT@//."];
        return ROOTS[c.pick(ROOTS.len())].to_owned();
    }
    let mut comps: Vec<String> = entry.split('/').map(|s| s.to_owned()).collect();
    let mut link_at: Option<usize> = None;
    // route through a directory link whose target is an ancestor (or the entry itself)
    let routes: Vec<&GDirLink> = t
        .dir_links
        .iter()
        .filter(|l| {
            let tp = &t.dirs[l.target_dir].path;
            entry == tp.as_str() || entry.starts_with(&format!("{tp}/"))
        })
        .collect();
    if !routes.is_empty() && c.chance(110) {
        let l = routes[c.pick(routes.len())];
        let tp = &t.dirs[l.target_dir].path;
        let rest = entry[tp.len()..].trim_start_matches('/');
        let mut v: Vec<String> = l.path.split('/').map(|s| s.to_owned()).collect();
        link_at = Some(v.len() - 1);
        v.extend(rest.split('/').filter(|s| !s.is_empty()).map(|s| s.to_owned()));
        comps = v;
    }
    // `d/../d`: after a directory component that is not a link
    let n_dirs = if is_dir { comps.len() } else { comps.len() - 1 };
    match c.pick(4) {
        2 if n_dirs > 0 => {
            let j = c.pick(n_dirs);
            if Some(j) != link_at {
                let again = comps[j].clone();
                comps.insert(j + 1, "..".into());
                comps.insert(j + 2, again);
            }
        }
        3 => {
            // hop into a top-level real directory and back
            let tops: Vec<&GDir> = t.dirs.iter().filter(|d| d.depth == 1).collect();
            if !tops.is_empty() {
                let d = tops[c.pick(tops.len())].path.clone();
                comps.insert(0, d);
                comps.insert(1, "..".into());
            }
        }
        _ => {}
    }
    let mut s = String::new();
    const PREFIX: [&str; 7] = ["", "./", "@ROOT@/", "", "../@BASE@/", ".//", "@ROOT@/../@BASE@/"];
    s.push_str(PREFIX[c.pick(PREFIX.len())]);
    let doubled = if c.chance(50) { c.pick(comps.len()) } else { usize::MAX };
    for (i, comp) in comps.iter().enumerate() {
        if i > 0 {
            s.push('/');
            if i == doubled {
                s.push('/');
            }
        }
        s.push_str(comp);
    }
    if is_dir {
        s.push_str(["", "", "/", "/."][c.pick(4)]);
    }
    s
}

fn gen_case(c: &mut Ch, flavour: Flavour) -> Case {
    let mut t = gen_tree(c, flavour);
    let mut case = Case::default();
    // argument lists
    let n_src = c.pick(4);
    let n_ref = c.pick(4);
    let focus: Vec<String> = (0..2)
        .filter_map(|_| {
            if t.slice_entries.is_empty() {
                None
            } else {
                Some(t.slice_entries[c.pick(t.slice_entries.len())].clone())
            }
        })
        .collect();
    let mut dir_entries: Vec<String> = t.dirs.iter().map(|d| d.path.clone()).collect();
    dir_entries.extend(t.dir_links.iter().map(|l| l.path.clone()));
    let file_arg = |c: &mut Ch, t: &Tree| -> Option<String> {
        if t.slice_entries.is_empty() {
            return None;
        }
        let e = if c.chance(150) {
            focus[c.pick(focus.len())].clone()
        } else {
            t.slice_entries[c.pick(t.slice_entries.len())].clone()
        };
        Some(spell(c, t, &e, false))
    };
    for _ in 0..n_src {
        if let Some(a) = file_arg(c, &t) {
            case.sources.push(a);
        }
    }
    for _ in 0..n_ref {
        if c.chance(150) {
            let e = dir_entries[c.pick(dir_entries.len())].clone();
            let a = spell(c, &t, &e, true);
            case.references.push(a);
        } else if let Some(a) = file_arg(c, &t) {
            case.references.push(a);
        }
    }
    if case.sources.is_empty() && case.references.is_empty() {
        match t.slice_entries.first() {
            Some(e) => case.sources.push(e.clone()),
            None => case.references.push(".".into()),
        }
    }
    // faulty arguments in about a quarter of the cases
    if c.chance(64) {
        let n = 1 + c.pick(2);
        for k in 0..n {
            let mut kinds: Vec<u8> = vec![0, 1]; // nonexistent name, nonexistent below a directory
            if !t.other_entries.is_empty() {
                kinds.push(2);
            }
            if !t.dangling.is_empty() {
                kinds.push(3);
            }
            kinds.push(4); // directory as source
            if !t.slice_entries.is_empty() {
                kinds.push(5); // file with a trailing slash
            }
            if flavour != Flavour::Binary {
                kinds.push(6); // the empty string (clap refuses it on a real command line)
            }
            let kind = kinds[c.pick(kinds.len())];
            let mut as_source = c.pick(2) == 0;
            let arg = match kind {
                0 => format!("nope{k}.slice"),
                1 => {
                    let d = t.dirs[c.pick(t.dirs.len())].path.clone();
                    let e = join(&d, &format!("nope{k}.slice"));
                    let sp = spell(c, &t, &e, false);
                    sp
                }
                2 => {
                    let e = t.other_entries[c.pick(t.other_entries.len())].clone();
                    spell(c, &t, &e, false)
                }
                3 => {
                    let e = t.dangling[c.pick(t.dangling.len())].clone();
                    spell(c, &t, &e, false)
                }
                4 => {
                    as_source = true;
                    let e = dir_entries[c.pick(dir_entries.len())].clone();
                    spell(c, &t, &e, true)
                }
                5 => {
                    let e = t.slice_entries[c.pick(t.slice_entries.len())].clone();
                    format!("{}/", spell(c, &t, &e, false))
                }
                _ => String::new(),
            };
            let list = if as_source { &mut case.sources } else { &mut case.references };
            let at = c.pick(list.len() + 1);
            list.insert(at, arg);
        }
    }
    // mode-000 entries
    if flavour == Flavour::Perm {
        case.unprivileged = true;
        let what = c.pick(3); // 0 file, 1 directory, 2 both
        if what != 1 {
            let files: Vec<usize> = t
                .ops
                .iter()
                .enumerate()
                .filter(|(_, o)| matches!(o, Op::File { path, .. } if slice_named(path)))
                .map(|(i, _)| i)
                .collect();
            if !files.is_empty() {
                let i = files[c.pick(files.len())];
                if let Op::File { locked, .. } = &mut t.ops[i] {
                    *locked = true;
                }
            }
        }
        if what != 0 {
            let dirs: Vec<usize> = t
                .ops
                .iter()
                .enumerate()
                .filter(|(_, o)| matches!(o, Op::Dir { .. }))
                .map(|(i, _)| i)
                .collect();
            if !dirs.is_empty() {
                let i = dirs[c.pick(dirs.len())];
                if let Op::Dir { locked, .. } = &mut t.ops[i] {
                    *locked = true;
                }
                // A link that points *into* the locked directory is neither dangling nor
                // unreadable (stat fails with EACCES): outside the asserted domain, undo the lock.
                case.ops = t.ops.clone();
                if let Ok(fs) = Fs::build(&case, "/r/t") {
                    let conflict = fs.nodes.iter().any(|n| match &n.kind {
                        Kind::Link(target) => {
                            let (mut h, mut v) = (0, false);
                            fs.resolve(n.parent, target, true, &mut h, &mut v) == Err(RErr::Access)
                        }
                        _ => false,
                    });
                    if conflict {
                        if let Op::Dir { locked, .. } = &mut t.ops[i] {
                            *locked = false;
                        }
                    }
                }
            }
        }
    }
    case.ops = t.ops;
    case
}

fn generated_case(cx: &mut CaseCtx, input: Input, flavour: Flavour) -> CaseResult {
    let mut c = Ch {
        u: Unstructured::new(input.bytes()),
    };
    match flavour {
        Flavour::InProcess => {
            let case = gen_case(&mut c, flavour);
            run_case(cx, &case)
        }
        Flavour::Perm => {
            let case = gen_case(&mut c, flavour);
            run_case(cx, &case)
        }
        Flavour::Binary => {
            let case = gen_case(&mut c, flavour);
            let interleave: Vec<bool> = (0..8).map(|_| c.chance(128)).collect();
            run_binary(cx, &case, &interleave)
        }
    }
}

impl Check for C17 {
    fn id(&self) -> &'static str {
        "C17"
    }
    fn rule(&self) -> String {
        "families: tree = proptest choice sequences -> a directory tree (<= 5 directories to depth 3, 1..7 files: valid / syntax error / empty / non-UTF-8 *.slice files and valid files with other extensions, directories named x.slice, hidden and empty directories, <= 4 symbolic links to files, to links, to directories (acyclic by construction), dangling) created under /verif/work, plus source / reference lists of 0..3 arguments each that spell files and directories through ./, d/../d, //, absolute paths, ../<root>, directory links, trailing / and /., with a quarter of the cases carrying 1..2 faulty arguments; compiled in-process with cwd = tree root and compared with a reference model that resolves paths on the in-memory description of the tree. perm = the same with a mode-000 file and/or directory, compiled with euid nobody. binary = the same through the real binary and a fake generator (paths and source/reference split inside the captured request). Non-trivial = some file is reachable more than once, or a faulty / unreadable entry is present; distinct by the abstract case (tree script + argument lists)".into()
    }
    fn assumptions(&self) -> Vec<String> {
        vec![
            "the order of files found below one directory argument is not asserted; such files need only have a relative_path that names them".into(),
            "DuplicateFile: between 1 and ways-1 per file and list when two different arguments reach it; a repeat that exists only inside one walked directory may go unreported".into(),
            "unreadable entries (non-UTF-8 file, mode-000 file/directory under euid nobody) must give E001; that they stop all parsing is recorded, not asserted (the statement's last sentence lists only nonexistent paths, non-.slice files and directories as sources)".into(),
            "symbolic links keep the extension class of their target; no link points into a mode-000 directory; no hard links; symlink graphs are acyclic".into(),
            "diagnostic wording is not compared: the path is the first quoted piece of the message that is a listed spelling or names a tree entry".into(),
            "binary family: module-less (empty) and ill-formed files are replaced by valid ones (F-01a is C01/C08's finding); only header, per-file path + module marker, order and the two counts of the request are examined".into(),
        ]
    }
    fn essential(&self, _tier: Tier) -> Vec<&'static str> {
        let mut v = vec![
            "alias-through-symlink",
            "alias-through-dotdot",
            "alias-through-absolute-path",
            "alias-through-dot",
            "source-and-reference",
            "repeat-in-sources",
            "repeat-in-references",
            "directory-contains-listed-file",
            "nested-directory",
            "nonslice-in-directory-ignored",
            "listed-not-slice-extension",
            "listed-nonexistent",
            "listed-dangling-link",
            "listed-directory-as-source",
            "dangling-link-in-directory",
            "empty-directory",
            "directory-named-x.slice-walked",
            "directory-symlink-walked",
            "non-utf8-file-reached",
            "syntax-error-file-compiled",
            "faulty-argument-next-to-syntax-error-file",
            "faulty-argument-next-to-good-files",
            "clean-run",
            "directory-block-of-several-files",
            "sources-and-references-in-result",
            "binary-clean-run",
            "binary-faulty-argument",
        ];
        if can_drop_privileges() {
            v.push("perm-mode-000-file");
            v.push("perm-mode-000-directory");
        }
        v
    }
    fn needs_binary(&self) -> bool {
        true
    }
    fn fuzz_families(&self, _tier: Tier) -> Vec<(&'static str, u64)> {
        // libFuzzer runs per job (16 jobs), sized from the measured speed of the instrumented build
        vec![("tree", 6000)]
    }
    fn families(&self, tier: Tier) -> Vec<Family<'_>> {
        vec![
            Family::bytes("tree", 256, tier.pick(1000, 20_000), |cx, i| generated_case(cx, i, Flavour::InProcess)),
            Family::bytes("perm", 256, tier.pick(250, 4000), |cx, i| generated_case(cx, i, Flavour::Perm)),
            Family::bytes("binary", 256, tier.pick(40, 600), |cx, i| generated_case(cx, i, Flavour::Binary)),
            Family::replay_only("direct", |cx, i| {
                // regression inputs: the bytes are the text script documented at `parse_script`
                let text = String::from_utf8_lossy(i.bytes()).into_owned();
                let (case, binary) = parse_script(&text).map_err(|e| Fail::new("harness/bad-script", e))?;
                if binary {
                    run_binary(cx, &case, &[])
                } else {
                    run_case(cx, &case)
                }
            }),
        ]
    }
    fn extra_coverage(&self, _tier: Tier) -> serde_json::Value {
        json!({
            "permission_faults": if can_drop_privileges() {
                "mode-000 entries exercised with euid nobody (family perm)"
            } else {
                "skipped: the process cannot drop privileges or the work directory is not reachable by `nobody` (counted under perm-skipped-cannot-drop-privileges)"
            }
        })
    }
}
