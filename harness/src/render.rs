//! Pretty-printer with a layout parameter.  Every layout decision (white space, comments,
//! optional commas, literal spelling, string escapes, optional identifier escapes) is read from
//! a byte stream, so one abstract program can be printed in arbitrarily many token-level
//! layouts.  The printer records the (row, col) — in characters, 1-based — of every token it
//! emits and which tokens belong to which element: these are the *expected spans* of C09.

use crate::model::*;
use std::collections::{BTreeMap, BTreeSet};

pub type Pos = (usize, usize);

#[derive(Clone, Debug)]
pub struct Tok {
    pub start: Pos,
    pub end: Pos,
    pub text: String,
}

#[derive(Clone, Debug, Default)]
pub struct ElemRec {
    pub kind: &'static str,
    /// first token of the prelude (doc comment / attributes), if any
    pub prelude_first: Option<usize>,
    /// first token of the declaration proper
    pub first: usize,
    /// the name token
    pub name: Option<usize>,
    /// last token before the body / of the header
    pub header_last: usize,
    /// last token of the whole element (closing brace / last token)
    pub last: usize,
}

#[derive(Clone, Debug, Default)]
pub struct TypeRec {
    /// first token including leading attributes
    pub first: usize,
    /// first token of the type expression proper
    pub first_after_attrs: usize,
    pub last: usize,
}

#[derive(Clone, Debug, Default)]
pub struct DocLineRec {
    /// position of the first `/`
    pub slashes: Pos,
    /// position right after `///`
    pub text_start: Pos,
    pub text_end: Pos,
    /// end of the line before its '\n' (after a '\r' if the line ends in CRLF)
    pub line_end: Pos,
}

#[derive(Clone, Debug, Default)]
pub struct Rendered {
    pub text: String,
    pub toks: Vec<Tok>,
    pub elems: BTreeMap<String, ElemRec>,
    pub types: BTreeMap<String, TypeRec>,
    /// attributes: token range directive ..= closing parenthesis (or directive end)
    pub attrs: BTreeMap<String, (usize, usize)>,
    /// identifiers, tags, integer values: single tokens or token ranges
    pub ranges: BTreeMap<String, (usize, usize)>,
    pub docs: BTreeMap<String, Vec<DocLineRec>>,
    pub lines: usize,
    pub labels: BTreeSet<&'static str>,
}

impl Rendered {
    pub fn tok_start(&self, i: usize) -> Pos {
        self.toks[i].start
    }
    pub fn tok_end(&self, i: usize) -> Pos {
        self.toks[i].end
    }
}

/// Source of layout decisions.
pub struct Layout<'a> {
    data: &'a [u8],
    pos: usize,
    /// layouts of one program differ by their salt; salt 0 reads the bytes as they are
    salt: u8,
    /// 0 = canonical (single spaces, one declaration per line), 1 = free layout
    pub free: bool,
    pub allow_comments: bool,
    pub allow_unicode_ws: bool,
    pub allow_crlf: bool,
}

impl<'a> Layout<'a> {
    pub fn canonical() -> Layout<'static> {
        Layout {
            data: &[],
            pos: 0,
            salt: 0,
            free: false,
            allow_comments: false,
            allow_unicode_ws: false,
            allow_crlf: false,
        }
    }
    pub fn free(data: &'a [u8]) -> Layout<'a> {
        Layout {
            data,
            pos: 0,
            salt: 0,
            free: true,
            allow_comments: true,
            allow_unicode_ws: true,
            allow_crlf: true,
        }
    }
    /// The i-th layout derived from the same bytes (read cyclically, mixed with the salt).
    pub fn free_salted(data: &'a [u8], salt: u8) -> Layout<'a> {
        let mut l = Layout::free(data);
        l.salt = salt;
        l
    }
    fn byte(&mut self) -> u8 {
        let j = self.pos;
        self.pos += 1;
        if self.salt == 0 {
            // exhausted buffer = simplest choices
            return self.data.get(j).copied().unwrap_or(0);
        }
        let base = if self.data.is_empty() { 0 } else { self.data[j % self.data.len()] };
        let mix = (j as u32 + 1).wrapping_mul(self.salt as u32 * 2 + 1).wrapping_mul(0x9E37_79B1) >> 24;
        base ^ (mix as u8)
    }
    fn pick(&mut self, n: usize) -> usize {
        if !self.free || n <= 1 {
            return 0;
        }
        (self.byte() as usize * n) >> 8
    }
    fn flip(&mut self, p256: u8) -> bool {
        self.free && self.byte() < p256 && p256 > 0
    }
}

#[derive(Clone, Copy, PartialEq, Eq)]
enum Cls {
    Start,
    /// identifier / keyword / number: needs separation from another Word
    Word,
    Colon,
    LBracket,
    RBracket,
    Minus,
    Other,
}

struct W<'l, 'a> {
    out: String,
    row: usize,
    col: usize,
    toks: Vec<Tok>,
    lay: &'l mut Layout<'a>,
    prev: Cls,
    r: Rendered,
    comment_no: usize,
}

const COMMENT_WORDS: [&str; 8] = ["c", "note", "x y", "é中", "\tt", "a: int32", "struct {", "tag(1)"];

impl<'l, 'a> W<'l, 'a> {
    fn push_raw(&mut self, s: &str) {
        for c in s.chars() {
            if c == '\n' {
                self.row += 1;
                self.col = 1;
            } else {
                self.col += 1;
            }
        }
        self.out.push_str(s);
    }

    fn newline(&mut self) {
        if self.lay.allow_crlf && self.lay.flip(40) {
            self.r.labels.insert("crlf");
            self.push_raw("\r\n");
        } else {
            self.push_raw("\n");
        }
    }

    fn comment_text(&mut self) -> String {
        self.comment_no += 1;
        let w = COMMENT_WORDS[self.lay.pick(COMMENT_WORDS.len())];
        if !w.is_ascii() {
            self.r.labels.insert("non-ascii-before");
        }
        if w.contains('\t') {
            self.r.labels.insert("tab");
        }
        w.to_owned()
    }

    /// Emits the separator in front of a token.  `need` = some white space is required.
    fn sep(&mut self, need: bool, prefer_newline: bool) {
        if !self.lay.free {
            if prefer_newline {
                self.push_raw("\n");
            } else if need {
                self.push_raw(" ");
            }
            return;
        }
        let choice = self.lay.pick(16);
        match choice {
            0 | 1 => {
                if need {
                    self.push_raw(" ");
                }
            }
            2 | 3 => self.push_raw(" "),
            4 => self.push_raw("  "),
            5 => {
                self.r.labels.insert("tab");
                self.push_raw("\t");
            }
            6 | 7 => self.newline(),
            8 => {
                self.newline();
                self.push_raw("    ");
            }
            9 => {
                self.newline();
                self.r.labels.insert("tab");
                self.push_raw("\t");
            }
            10 if self.lay.allow_comments => {
                self.r.labels.insert("block-comment");
                let t = self.comment_text();
                match self.lay.pick(6) {
                    0 | 1 => self.push_raw(&format!(" /* {t} */ ")),
                    2 => self.push_raw(&format!("/** {t} **/")),
                    3 => self.push_raw("/**/"),
                    4 => self.push_raw("/***/"),
                    _ => self.push_raw(&format!("/* {t} * / ***/")),
                }
            }
            11 if self.lay.allow_comments => {
                self.r.labels.insert("line-comment");
                let t = self.comment_text();
                self.push_raw(&format!(" // {t}"));
                self.newline();
            }
            12 if self.lay.allow_comments => {
                self.r.labels.insert("multi-line-block-comment");
                let t = self.comment_text();
                self.push_raw("/*");
                self.newline();
                self.push_raw(&format!("  {t}"));
                self.newline();
                self.push_raw("*/");
            }
            13 if self.lay.allow_comments => {
                self.r.labels.insert("four-slash-comment");
                let t = self.comment_text();
                self.push_raw(&format!(" //// {t}"));
                self.newline();
            }
            14 if self.lay.allow_unicode_ws => {
                self.r.labels.insert("unicode-space");
                self.r.labels.insert("non-ascii-before");
                self.push_raw("\u{3000}");
            }
            15 => {
                self.newline();
                self.newline();
            }
            _ => {
                if need {
                    self.push_raw(" ");
                }
            }
        }
    }

    fn classify(text: &str) -> (Cls, Cls) {
        // (class of the first char, class of the last char)
        let f = text.chars().next().unwrap();
        let l = text.chars().last().unwrap();
        let cls = |c: char, first: bool| -> Cls {
            if c.is_ascii_alphanumeric() || c == '_' || (first && c == '\\') {
                Cls::Word
            } else if c == ':' {
                Cls::Colon
            } else if c == '[' {
                Cls::LBracket
            } else if c == ']' {
                Cls::RBracket
            } else if c == '-' {
                Cls::Minus
            } else {
                Cls::Other
            }
        };
        (cls(f, true), cls(l, false))
    }

    /// Emits one token (with a separator in front) and returns its index.
    fn tok_nl(&mut self, text: &str, prefer_newline: bool) -> usize {
        let (first, last) = Self::classify(text);
        let need = match (self.prev, first) {
            (Cls::Start, _) => false,
            (Cls::Word, Cls::Word) => true,
            (Cls::Colon, Cls::Colon) => true,
            (Cls::LBracket, Cls::LBracket) => true,
            (Cls::RBracket, Cls::RBracket) => true,
            (Cls::Minus, _) if text.starts_with('>') => true,
            // a '/' never starts a token, so no comment can be formed by accident
            _ => false,
        };
        if self.prev != Cls::Start || prefer_newline {
            self.sep(need, prefer_newline && self.prev != Cls::Start);
        }
        let start = (self.row, self.col);
        self.push_raw(text);
        let end = (self.row, self.col);
        self.toks.push(Tok {
            start,
            end,
            text: text.to_owned(),
        });
        self.prev = last;
        self.toks.len() - 1
    }

    fn tok(&mut self, text: &str) -> usize {
        self.tok_nl(text, false)
    }

    fn ident(&mut self, name: &str, in_attribute: bool) -> usize {
        let must = is_keyword(name) && !in_attribute;
        let escape = must || self.lay.flip(24);
        if must {
            self.r.labels.insert("keyword-as-identifier");
        }
        if in_attribute && is_keyword(name) {
            self.r.labels.insert("keyword-in-attribute");
        }
        if escape {
            if !must {
                self.r.labels.insert("optional-escape");
            }
            self.tok(&format!("\\{name}"))
        } else {
            self.tok(name)
        }
    }

    fn ident_nl(&mut self, name: &str, prefer_newline: bool) -> usize {
        if is_keyword(name) {
            self.r.labels.insert("keyword-as-identifier");
            self.tok_nl(&format!("\\{name}"), prefer_newline)
        } else if self.lay.flip(24) {
            self.r.labels.insert("optional-escape");
            self.tok_nl(&format!("\\{name}"), prefer_newline)
        } else {
            self.tok_nl(name, prefer_newline)
        }
    }

    /// `A::B::C` or `::A::B` — returns (first token, last token)
    fn scoped(&mut self, name: &str, in_attribute: bool) -> (usize, usize) {
        let (global, rest) = match name.strip_prefix("::") {
            Some(r) => (true, r),
            None => (false, name),
        };
        let mut first = None;
        let mut last = 0;
        if global {
            self.r.labels.insert("global-spelling");
            let t = self.tok("::");
            first = Some(t);
            last = t;
        }
        for (i, seg) in rest.split("::").enumerate() {
            if i > 0 {
                last = self.tok("::");
            }
            let t = self.ident(seg, in_attribute);
            if first.is_none() {
                first = Some(t);
            }
            last = t;
        }
        (first.unwrap(), last)
    }

    fn int_literal(&mut self, v: i128) -> (usize, usize) {
        // returns token range (a leading '-' is its own token)
        let neg = v < 0 || (v == 0 && self.lay.flip(10));
        let mag = v.unsigned_abs();
        let mut first = None;
        if neg {
            self.r.labels.insert("negative-literal");
            first = Some(self.tok("-"));
        }
        let base = self.lay.pick(4);
        let mut digits = match base {
            1 => {
                self.r.labels.insert("hex-literal");
                if self.lay.flip(128) {
                    format!("0x{mag:x}")
                } else {
                    format!("0x{mag:X}")
                }
            }
            2 => {
                self.r.labels.insert("bin-literal");
                format!("0b{mag:b}")
            }
            _ => {
                self.r.labels.insert("dec-literal");
                if self.lay.flip(20) {
                    // leading zeros are fine in decimal
                    format!("00{mag}")
                } else {
                    format!("{mag}")
                }
            }
        };
        if digits.len() > 3 && self.lay.flip(90) {
            self.r.labels.insert("underscore-literal");
            let at = 2 + self.lay.pick(digits.len() - 2);
            digits.insert(at.max(1), '_');
        }
        let t = self.tok(&digits);
        (first.unwrap_or(t), t)
    }

    fn string_literal(&mut self, s: &str) -> usize {
        let mut out = String::from("\"");
        for c in s.chars() {
            if c == '"' || c == '\\' {
                self.r.labels.insert("string-escape");
                out.push('\\');
            } else if self.lay.flip(12) {
                // gratuitous escape: `\x` reads as `x`
                self.r.labels.insert("string-gratuitous-escape");
                out.push('\\');
            }
            out.push(c);
        }
        out.push('"');
        if !s.is_ascii() {
            self.r.labels.insert("non-ascii-before");
        }
        // a string literal is one token; its first/last chars are quotes
        self.tok(&out)
    }

    fn attribute_body(&mut self, path: &str, a: &AttrM) {
        let (first, mut last) = self.scoped(&a.directive, true);
        let parens = !a.args.is_empty() || self.lay.flip(30);
        if parens {
            self.tok("(");
            let n = a.args.len();
            for (i, arg) in a.args.iter().enumerate() {
                if i > 0 {
                    self.r.labels.insert("second-attribute-argument");
                }
                if is_plain_identifier(arg) && !self.lay.flip(80) {
                    self.ident(arg, true);
                } else {
                    self.string_literal(arg);
                }
                if i + 1 < n {
                    self.tok(",");
                } else if self.lay.flip(40) {
                    self.r.labels.insert("attribute-trailing-comma");
                    self.tok(",");
                }
            }
            last = self.tok(")");
        }
        self.r.attrs.insert(path.to_owned(), (first, last));
    }

    fn local_attribute(&mut self, path: &str, a: &AttrM, prefer_newline: bool) -> usize {
        let t = self.tok_nl("[", prefer_newline);
        self.attribute_body(path, a);
        self.tok("]");
        t
    }

    /// Doc comment lines and local attributes, interleaved by the layout (relative order inside each
    /// list is kept).  Returns the index of the first token (doc lines are not tokens; they are
    /// recorded separately) — None if the prelude has no attribute.
    fn prelude(&mut self, path: &str, pre: &Prelude) -> Option<usize> {
        let mut di = 0;
        let mut ai = 0;
        let mut first_tok = None;
        let mut docs = Vec::new();
        while di < pre.doc.len() || ai < pre.attrs.len() {
            let take_doc = if di >= pre.doc.len() {
                false
            } else if ai >= pre.attrs.len() {
                true
            } else {
                // canonical: docs first
                !self.lay.flip(90)
            };
            if take_doc {
                // a doc comment line: separator, `///text`, line break
                if self.prev != Cls::Start {
                    self.sep(false, true);
                }
                let slashes = (self.row, self.col);
                self.push_raw("///");
                let text_start = (self.row, self.col);
                self.push_raw(&pre.doc[di]);
                let text_end = (self.row, self.col);
                self.newline();
                let line_end = if self.out.ends_with("\r\n") { (text_end.0, text_end.1 + 1) } else { text_end };
                docs.push(DocLineRec {
                    slashes,
                    text_start,
                    text_end,
                    line_end,
                });
                // a doc comment behaves like a token boundary: nothing needs separating after a newline
                self.prev = Cls::Other;
                di += 1;
            } else {
                if ai > 0 || di > 0 {
                    self.r.labels.insert("prelude-mixed");
                }
                let t = self.local_attribute(&format!("{path}/attr{ai}"), &pre.attrs[ai], true);
                if first_tok.is_none() {
                    first_tok = Some(t);
                }
                ai += 1;
            }
        }
        if !docs.is_empty() {
            self.r.docs.insert(path.to_owned(), docs);
        }
        first_tok
    }

    fn type_expr(&mut self, path: &str, t: &TypeM) -> (usize, usize) {
        let mut first = None;
        for (i, a) in t.attrs.iter().enumerate() {
            self.r.labels.insert("type-attribute");
            let tk = self.local_attribute(&format!("{path}/attr{i}"), a, false);
            if first.is_none() {
                first = Some(tk);
            }
        }
        let (f, mut last) = match &t.kind {
            TypeK::Prim(p) => {
                let k = self.tok(p);
                (k, k)
            }
            TypeK::Named(n) => {
                self.r.labels.insert("named-type");
                self.scoped(n, false)
            }
            TypeK::Seq(e) => {
                let k = self.tok("Sequence");
                self.tok("<");
                self.type_expr(&format!("{path}/0"), e);
                (k, self.tok(">"))
            }
            TypeK::Dict(k, v) => {
                let kk = self.tok("Dictionary");
                self.tok("<");
                self.type_expr(&format!("{path}/0"), k);
                self.tok(",");
                self.type_expr(&format!("{path}/1"), v);
                (kk, self.tok(">"))
            }
            TypeK::Result(s, fl) => {
                let kk = self.tok("Result");
                self.tok("<");
                self.type_expr(&format!("{path}/0"), s);
                self.tok(",");
                self.type_expr(&format!("{path}/1"), fl);
                (kk, self.tok(">"))
            }
        };
        if t.optional {
            last = self.tok("?");
        }
        if t.depth() >= 2 {
            self.r.labels.insert("type-nested-2");
        }
        let rec = TypeRec {
            first: first.unwrap_or(f),
            first_after_attrs: f,
            last,
        };
        self.r.types.insert(path.to_owned(), rec.clone());
        (rec.first, rec.last)
    }

    fn tag(&mut self, path: &str, v: i128, nl: bool) -> usize {
        let t = self.tok_nl("tag", nl);
        self.tok("(");
        let (a, b) = self.int_literal(v);
        self.r.ranges.insert(format!("{path}/tag"), (a, b));
        self.tok(")");
        t
    }

    fn list_comma(&mut self, style: usize, is_last: bool) {
        // style 0: no commas, 1: separators only, 2: after every element, 3: random
        let put = match style {
            0 => false,
            1 => !is_last,
            2 => true,
            _ => self.lay.flip(128),
        };
        if put {
            if is_last {
                self.r.labels.insert("trailing-comma");
            }
            self.r.labels.insert("comma-present");
            self.tok(",");
        } else if !is_last {
            self.r.labels.insert("comma-omitted");
        }
    }

    #[allow(clippy::too_many_arguments)]
    fn member(
        &mut self,
        path: &str,
        kind: &'static str,
        pre: &Prelude,
        tag: Option<i128>,
        name: &str,
        stream: bool,
        ty: &TypeM,
        newline: bool,
    ) {
        let prelude_first = self.prelude(path, pre);
        let mut first = None;
        if let Some(tv) = tag {
            self.r.labels.insert("tagged");
            // the tag is the first token of the declaration proper
            first = Some(self.tag(path, tv, newline));
        }
        let nt = if first.is_none() { self.ident_nl(name, newline) } else { self.ident(name, false) };
        self.r.ranges.insert(format!("{path}/name"), (nt, nt));
        self.tok(":");
        if stream {
            self.r.labels.insert("stream");
            self.tok("stream");
        }
        let (_tf, tl) = self.type_expr(&format!("{path}/type"), ty);
        self.r.elems.insert(
            path.to_owned(),
            ElemRec {
                kind,
                prelude_first,
                first: first.unwrap_or(nt),
                name: Some(nt),
                header_last: tl,
                last: tl,
            },
        );
    }

    fn fields(&mut self, parent: &str, fields: &[FieldM]) {
        let style = self.lay.pick(4);
        let n = fields.len();
        for (k, f) in fields.iter().enumerate() {
            self.member(&format!("{parent}/m{k}"), "field", &f.pre, f.tag, &f.name, false, &f.ty, true);
            self.list_comma(style, k + 1 == n);
        }
    }

    fn params(&mut self, parent: &str, prefix: &str, kind: &'static str, params: &[ParamM]) {
        let style = self.lay.pick(4);
        let n = params.len();
        for (k, p) in params.iter().enumerate() {
            self.member(&format!("{parent}/{prefix}{k}"), kind, &p.pre, p.tag, &p.name, p.stream, &p.ty, false);
            self.list_comma(style, k + 1 == n);
        }
    }

    fn def(&mut self, path: &str, d: &DefM) {
        let prelude_first = self.prelude(path, d.pre());
        match d {
            DefM::Struct(s) => {
                self.r.labels.insert("def-struct");
                let mut first = None;
                if s.compact {
                    self.r.labels.insert("compact");
                    first = Some(self.tok_nl("compact", true));
                }
                let kw = if first.is_none() { self.tok_nl("struct", true) } else { self.tok("struct") };
                let nt = self.ident(&s.name, false);
                self.r.ranges.insert(format!("{path}/name"), (nt, nt));
                self.tok("{");
                self.fields(path, &s.fields);
                let close = self.tok_nl("}", !self.lay.free);
                self.r.elems.insert(
                    path.to_owned(),
                    ElemRec {
                        kind: "struct",
                        prelude_first,
                        first: first.unwrap_or(kw),
                        name: Some(nt),
                        header_last: nt,
                        last: close,
                    },
                );
            }
            DefM::Interface(i) => {
                self.r.labels.insert("def-interface");
                let kw = self.tok_nl("interface", true);
                let nt = self.ident(&i.name, false);
                self.r.ranges.insert(format!("{path}/name"), (nt, nt));
                let mut header_last = nt;
                if !i.bases.is_empty() {
                    self.r.labels.insert("interface-bases");
                    self.tok(":");
                    let n = i.bases.len();
                    for (b, base) in i.bases.iter().enumerate() {
                        let (_f, l) = self.type_expr(&format!("{path}/base{b}"), base);
                        header_last = l;
                        if b + 1 < n {
                            self.tok(",");
                        } else if self.lay.flip(40) {
                            header_last = self.tok(",");
                        }
                    }
                }
                self.tok("{");
                for (k, op) in i.ops.iter().enumerate() {
                    let opath = format!("{path}/m{k}");
                    let op_prelude_first = self.prelude(&opath, &op.pre);
                    let mut first = None;
                    if op.idempotent {
                        self.r.labels.insert("idempotent");
                        first = Some(self.tok_nl("idempotent", true));
                    }
                    let ont = if first.is_none() { self.ident_nl(&op.name, true) } else { self.ident(&op.name, false) };
                    self.r.ranges.insert(format!("{opath}/name"), (ont, ont));
                    self.tok("(");
                    self.params(&opath, "p", "parameter", &op.params);
                    let mut last = self.tok(")");
                    match &op.ret {
                        RetM::None => {
                            self.r.labels.insert("op-no-return");
                        }
                        RetM::Single(p) => {
                            self.r.labels.insert("op-single-return");
                            self.tok("->");
                            let rpath = format!("{opath}/r0");
                            let mut rfirst = None;
                            if let Some(tv) = p.tag {
                                rfirst = Some(self.tag(&rpath, tv, false));
                            }
                            if p.stream {
                                self.r.labels.insert("stream");
                                let st = self.tok("stream");
                                if rfirst.is_none() {
                                    rfirst = Some(st);
                                }
                            }
                            let (tf, tl) = self.type_expr(&format!("{rpath}/type"), &p.ty);
                            last = tl;
                            self.r.elems.insert(
                                rpath,
                                ElemRec {
                                    kind: "return-single",
                                    prelude_first: None,
                                    first: rfirst.unwrap_or(tf),
                                    name: None,
                                    header_last: tl,
                                    last: tl,
                                },
                            );
                        }
                        RetM::Tuple(v) => {
                            self.r.labels.insert("op-tuple-return");
                            self.tok("->");
                            let open = self.tok("(");
                            self.params(&opath, "r", "return-member", v);
                            last = self.tok(")");
                            self.r.ranges.insert(format!("{opath}/rtuple"), (open, last));
                        }
                    }
                    self.r.elems.insert(
                        opath,
                        ElemRec {
                            kind: "operation",
                            prelude_first: op_prelude_first,
                            first: first.unwrap_or(ont),
                            name: Some(ont),
                            header_last: last,
                            last,
                        },
                    );
                }
                let close = self.tok_nl("}", !self.lay.free);
                self.r.elems.insert(
                    path.to_owned(),
                    ElemRec {
                        kind: "interface",
                        prelude_first,
                        first: kw,
                        name: Some(nt),
                        header_last,
                        last: close,
                    },
                );
            }
            DefM::Enum(e) => {
                self.r.labels.insert("def-enum");
                let mut first = None;
                if e.compact {
                    self.r.labels.insert("compact");
                    first = Some(self.tok_nl("compact", true));
                }
                if e.unchecked {
                    self.r.labels.insert("unchecked");
                    let t = if first.is_none() { self.tok_nl("unchecked", true) } else { self.tok("unchecked") };
                    if first.is_none() {
                        first = Some(t);
                    }
                }
                let kw = if first.is_none() { self.tok_nl("enum", true) } else { self.tok("enum") };
                let nt = self.ident(&e.name, false);
                self.r.ranges.insert(format!("{path}/name"), (nt, nt));
                let mut header_last = nt;
                if let Some(u) = &e.underlying {
                    self.r.labels.insert("enum-underlying");
                    self.tok(":");
                    let (_f, l) = self.type_expr(&format!("{path}/underlying"), u);
                    header_last = l;
                }
                self.tok("{");
                let style = self.lay.pick(4);
                let n = e.enumerators.len();
                for (k, en) in e.enumerators.iter().enumerate() {
                    let epath = format!("{path}/m{k}");
                    let en_prelude_first = self.prelude(&epath, &en.pre);
                    let ent = self.ident_nl(&en.name, true);
                    self.r.ranges.insert(format!("{epath}/name"), (ent, ent));
                    let mut last = ent;
                    if let Some(fs) = &en.fields {
                        self.r.labels.insert("enumerator-fields");
                        self.tok("(");
                        self.fields(&epath, fs);
                        last = self.tok(")");
                    }
                    if let Some(v) = en.value {
                        self.r.labels.insert("enumerator-explicit");
                        self.tok("=");
                        let (a, b) = self.int_literal(v);
                        self.r.ranges.insert(format!("{epath}/value"), (a, b));
                        last = b;
                    } else if k > 0 {
                        self.r.labels.insert("enumerator-implicit-after");
                    }
                    self.r.elems.insert(
                        epath,
                        ElemRec {
                            kind: "enumerator",
                            prelude_first: en_prelude_first,
                            first: ent,
                            name: Some(ent),
                            header_last: last,
                            last,
                        },
                    );
                    self.list_comma(style, k + 1 == n);
                }
                let close = self.tok_nl("}", !self.lay.free);
                self.r.elems.insert(
                    path.to_owned(),
                    ElemRec {
                        kind: "enum",
                        prelude_first,
                        first: first.unwrap_or(kw),
                        name: Some(nt),
                        header_last,
                        last: close,
                    },
                );
            }
            DefM::Custom(c) => {
                self.r.labels.insert("def-custom");
                let kw = self.tok_nl("custom", true);
                let nt = self.ident(&c.name, false);
                self.r.ranges.insert(format!("{path}/name"), (nt, nt));
                self.r.elems.insert(
                    path.to_owned(),
                    ElemRec {
                        kind: "custom",
                        prelude_first,
                        first: kw,
                        name: Some(nt),
                        header_last: nt,
                        last: nt,
                    },
                );
            }
            DefM::Alias(a) => {
                self.r.labels.insert("def-alias");
                let kw = self.tok_nl("typealias", true);
                let nt = self.ident(&a.name, false);
                self.r.ranges.insert(format!("{path}/name"), (nt, nt));
                self.tok("=");
                let (_f, l) = self.type_expr(&format!("{path}/type"), &a.ty);
                self.r.elems.insert(
                    path.to_owned(),
                    ElemRec {
                        kind: "alias",
                        prelude_first,
                        first: kw,
                        name: Some(nt),
                        header_last: nt,
                        last: l,
                    },
                );
            }
        }
    }
}

/// Renders one file.  `fidx` is the file index used in the recorded paths (`f<idx>/...`).
pub fn render_file(f: &FileM, fidx: usize, lay: &mut Layout) -> Rendered {
    let mut w = W {
        out: String::new(),
        row: 1,
        col: 1,
        toks: Vec::new(),
        lay,
        prev: Cls::Start,
        r: Rendered::default(),
        comment_no: 0,
    };
    let fp = format!("f{fidx}");
    // leading white space / comments before the first token
    if w.lay.free && w.lay.flip(60) {
        w.sep(false, false);
    }
    for (n, a) in f.file_attrs.iter().enumerate() {
        w.r.labels.insert("file-attribute");
        w.tok_nl("[[", n > 0);
        w.attribute_body(&format!("{fp}/fattr{n}"), a);
        w.tok("]]");
    }
    if let Some(m) = &f.module {
        let mpath = format!("{fp}/module");
        let mut prelude_first = None;
        for (n, a) in m.attrs.iter().enumerate() {
            w.r.labels.insert("module-attribute");
            let t = w.local_attribute(&format!("{mpath}/attr{n}"), a, true);
            if prelude_first.is_none() {
                prelude_first = Some(t);
            }
        }
        let kw = w.tok_nl("module", true);
        let (nf, nl) = w.scoped(&m.path.join("::"), false);
        if m.path.len() > 1 {
            w.r.labels.insert("nested-module");
        }
        w.r.ranges.insert(format!("{mpath}/name"), (nf, nl));
        w.r.elems.insert(
            mpath,
            ElemRec {
                kind: "module",
                prelude_first,
                first: kw,
                name: Some(nf),
                header_last: nl,
                last: nl,
            },
        );
    }
    for (j, d) in f.defs.iter().enumerate() {
        w.def(&format!("{fp}/d{j}"), d);
    }
    // trailing white space
    if w.lay.free {
        w.sep(false, false);
    } else {
        w.push_raw("\n");
    }
    let mut r = w.r;
    r.text = w.out;
    r.toks = w.toks;
    r.lines = r.text.matches('\n').count() + 1;
    r
}

pub fn render_program(p: &Program, layout_bytes: &[u8], free: bool) -> Vec<Rendered> {
    let mut lay = if free { Layout::free(layout_bytes) } else { Layout::canonical() };
    p.files.iter().enumerate().map(|(i, f)| render_file(f, i, &mut lay)).collect()
}

// ------------------------------------------------------------------------------------------
// Preprocessor blocks between definitions (C09: "rows after a removed preprocessor block")
// ------------------------------------------------------------------------------------------

/// Inserts whole preprocessor lines in front of top-level definitions that start their line
/// (`#if NOPE` ... `#endif` around junk, `#define`, a selected `#if !NOPE` / `#else` region around the
/// definition) and shifts every recorded position by the number of lines inserted above it.  The
/// directives are indented independently of the line that follows them.  `choices` drives the
/// selection; returns the number of blocks inserted.
pub fn insert_preprocessor_blocks(r: &mut Rendered, choices: &[u8]) -> usize {
    if choices.is_empty() {
        return 0;
    }
    let lines: Vec<String> = r.text.split('\n').map(|s| s.to_owned()).collect();
    // candidate rows: the first thing of a top-level definition (doc comment, attribute or keyword)
    // with nothing but white space before it on its line
    let mut rows: Vec<usize> = Vec::new();
    for (path, e) in &r.elems {
        if path.matches('/').count() != 1 || !path.contains("/d") {
            continue;
        }
        let mut first = r.tok_start(e.prelude_first.unwrap_or(e.first).min(e.first));
        if let Some(d) = r.docs.get(path).and_then(|d| d.first()) {
            first = first.min(d.slashes);
        }
        let Some(line) = lines.get(first.0 - 1) else { continue };
        let before: String = line.chars().take(first.1 - 1).collect();
        if before.chars().all(char::is_whitespace) && first.0 >= 2 {
            rows.push(first.0);
        }
    }
    rows.sort();
    rows.dedup();
    if rows.is_empty() {
        return 0;
    }
    const INDENT: [&str; 4] = ["", "  ", "\t", "      "];
    let mut ci = 0usize;
    let mut next = |n: usize| -> usize {
        let b = choices[ci % choices.len()] as usize;
        ci += 1;
        (b * n) >> 8
    };
    // lines inserted before a given original row
    let mut inserts: BTreeMap<usize, Vec<String>> = BTreeMap::new();
    let mut open = false;
    let mut blocks = 0;
    for row in &rows {
        let v = inserts.entry(*row).or_default();
        if open {
            v.push(format!("{}#endif // close", INDENT[next(4)]));
            open = false;
        }
        let ind = INDENT[next(4)];
        match next(8) {
            0 | 1 => {
                v.push(format!("{ind}#if NOPE"));
                v.push("\tjunk é { that is never parsed".to_owned());
                v.push(format!("{ind}#endif"));
                blocks += 1;
            }
            2 => {
                v.push(format!("{ind}#define FOO{blocks}"));
                blocks += 1;
            }
            3 => {
                v.push(format!("{ind}#if !NOPE"));
                open = true;
                blocks += 1;
            }
            4 => {
                v.push(format!("{ind}#if NOPE && OTHER"));
                v.push("struct Hidden {}".to_owned());
                v.push(format!("{ind}#else"));
                open = true;
                blocks += 1;
            }
            _ => {}
        }
    }
    if blocks == 0 {
        return 0;
    }
    let mut out: Vec<String> = Vec::new();
    let mut shift: Vec<usize> = vec![0; lines.len() + 2]; // shift[row] for 1-based rows
    let mut added = 0usize;
    for (i, line) in lines.iter().enumerate() {
        let row = i + 1;
        if let Some(v) = inserts.get(&row) {
            for l in v {
                out.push(l.clone());
                added += 1;
            }
        }
        shift[row] = added;
        out.push(line.clone());
    }
    let mut text = out.join("\n");
    if open {
        if !text.ends_with('\n') {
            text.push('\n');
        }
        text.push_str("#endif");
    }
    let sh = |p: Pos| -> Pos { (p.0 + shift.get(p.0).copied().unwrap_or(added), p.1) };
    for t in &mut r.toks {
        t.start = sh(t.start);
        t.end = sh(t.end);
    }
    for d in r.docs.values_mut() {
        for l in d {
            l.slashes = sh(l.slashes);
            l.text_start = sh(l.text_start);
            l.text_end = sh(l.text_end);
            l.line_end = sh(l.line_end);
        }
    }
    r.lines += added;
    r.text = text;
    r.labels.insert("preprocessor-block-before-definition");
    blocks
}
