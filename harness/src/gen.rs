//! Choice-sequence generator of *well-formed* Slice programs (by construction): unique names
//! per scope, legal tags and keys, acyclic containment, resolvable references, legal attributes.
//! All decisions are read from an `arbitrary::Unstructured`; byte 0 always selects the simplest
//! alternative, so byte-level shrinking is structural shrinking.

use crate::model::*;
use crate::refcheck::{join, EKind, Table};
use arbitrary::Unstructured;
use std::collections::{BTreeMap, BTreeSet};

pub fn pick(u: &mut Unstructured, n: usize) -> usize {
    if n <= 1 {
        return 0;
    }
    let b = u.arbitrary::<u8>().unwrap_or(0) as usize;
    (b * n) >> 8
}

/// true with probability p/256 (false when the buffer is exhausted)
pub fn chance(u: &mut Unstructured, p: u8) -> bool {
    u.arbitrary::<u8>().unwrap_or(255) < p
}

#[derive(Clone, Debug)]
pub struct GenCfg {
    pub max_files: usize,
    pub max_defs: usize,
    pub max_members: usize,
    pub type_depth: usize,
    pub keywords: bool,
    pub attrs: bool,
    pub docs: bool,
    /// allow `deprecated` on definitions (their uses then produce Deprecated lints)
    pub deprecated: bool,
    /// probability (x/256) that a commentable element gets a doc comment
    pub doc_chance: u8,
    /// non-ASCII / mixed indentation and white-space-only lines in doc comments
    pub exotic_docs: bool,
    /// link / see targets also include scoped, global, member and module names
    pub rich_link_targets: bool,
}

impl Default for GenCfg {
    fn default() -> GenCfg {
        GenCfg {
            max_files: 3,
            max_defs: 8,
            max_members: 4,
            type_depth: 3,
            keywords: true,
            attrs: true,
            docs: true,
            deprecated: false,
            doc_chance: 40,
            exotic_docs: false,
            rich_link_targets: false,
        }
    }
}

pub const MODULE_POOL: [&[&str]; 9] = [&["M"], &["A"], &["A", "B"], &["A", "B", "C"], &["B"], &["A", "C"], &["module"], &["string"], &["A", "int32"]];

const DEF_NAMES: [&str; 30] = [
    "S", "T", "U", "V", "W", "X", "Y", "Z", "Foo", "Bar", "s", "t", "foo", "S1", "X_y", "struct", "enum", "interface",
    "tag", "stream", "compact", "string", "int32", "Sequence", "custom", "idempotent", "unchecked", "typealias",
    "Result", "bool",
];

const MEMBER_NAMES: [&str; 22] = [
    "a", "b", "c", "x", "y", "id", "name", "value", "S", "T", "X", "a1", "b_2", "tag", "struct", "stream", "int32",
    "returnValue", "module", "Sequence", "enum", "string",
];

const KEY_PRIMS: [&str; 14] = [
    "bool", "int8", "uint8", "int16", "uint16", "int32", "uint32", "varint32", "varuint32", "int64", "uint64",
    "varint62", "varuint62", "string",
];

const INTEGRAL_PRIMS: [&str; 12] = [
    "int8", "uint8", "int16", "uint16", "int32", "uint32", "varint32", "varuint32", "int64", "uint64", "varint62",
    "varuint62",
];

const ARG_POOL: [&str; 22] = [
    "x",
    "Foo",
    "a b",
    "quo\"te",
    "back\\slash",
    "]",
    ")",
    ",",
    "// not a comment",
    "é中",
    "struct",
    "",
    "/* x */",
    "tab\there",
    // backslashes at the edges: the written form ends in `\\"`, starts with `"\\`, is nothing but escapes
    "C:\\",
    "\\",
    "\\\\",
    "\\\"",
    "\\leading",
    // white space at the edges of a string argument is part of it
    " leading blank",
    "trailing blank ",
    "  ",
];

#[derive(Clone, Debug)]
struct Plan {
    kind: EKind,
    name: String,
    file: usize,
    scope: String,
    /// legal as a dictionary key
    key_ok: bool,
    /// for aliases: the kind of the final target (Struct/Enum/Custom/Primitive/anonymous=Alias)
    integral_alias: bool,
    /// operation names of an interface including inherited ones
    all_ops: BTreeSet<String>,
    deprecated: bool,
}

pub struct Gen<'a, 'b> {
    pub u: &'a mut Unstructured<'b>,
    pub cfg: GenCfg,
    plans: Vec<Plan>,
    table: Table,
    pub labels: BTreeSet<&'static str>,
}

fn name_from(u: &mut Unstructured, pool: &[&str], keywords: bool, taken: &BTreeSet<String>) -> String {
    let start = pick(u, pool.len());
    for off in 0..pool.len() {
        let cand = pool[(start + off) % pool.len()];
        if !keywords && is_keyword(cand) {
            continue;
        }
        if !taken.contains(cand) {
            return cand.to_owned();
        }
    }
    // pool exhausted: synthesize
    let mut i = taken.len();
    loop {
        let cand = format!("n{i}");
        if !taken.contains(&cand) {
            return cand;
        }
        i += 1;
    }
}

impl<'a, 'b> Gen<'a, 'b> {
    pub fn new(u: &'a mut Unstructured<'b>, cfg: GenCfg) -> Gen<'a, 'b> {
        Gen {
            u,
            cfg,
            plans: Vec::new(),
            table: Table::default(),
            labels: BTreeSet::new(),
        }
    }

    fn pick(&mut self, n: usize) -> usize {
        pick(self.u, n)
    }
    fn chance(&mut self, p: u8) -> bool {
        chance(self.u, p)
    }

    // -------------------------------------------------------------------------------------
    // attributes / doc comments
    // -------------------------------------------------------------------------------------

    fn foreign_attr(&mut self) -> AttrM {
        const DIRS: [&str; 6] = ["cs::identifier", "foo::bar", "a::b::c", "x::struct", "cs::type", "rust::derive"];
        let d = DIRS[self.pick(DIRS.len())];
        let n = self.pick(4);
        let mut args = Vec::new();
        for _ in 0..n {
            args.push(ARG_POOL[self.pick(ARG_POOL.len())].to_owned());
        }
        AttrM {
            directive: d.to_owned(),
            args,
        }
    }

    /// Attributes legal on `target` ("file","module","struct","field","interface","operation",
    /// "operation-noreturn","parameter","enum","enumerator","custom","alias","type").
    pub fn attrs_for(&mut self, target: &str) -> Vec<AttrM> {
        if !self.cfg.attrs || !self.chance(70) {
            return Vec::new();
        }
        let n = 1 + self.pick(3);
        let mut out: Vec<AttrM> = Vec::new();
        for _ in 0..n {
            let sel = self.pick(8);
            let a = match sel {
                0..=3 => Some(self.foreign_attr()),
                4 | 5 => {
                    // allow: legal everywhere except modules and type references
                    if target == "module" || target == "type" {
                        None
                    } else {
                        const LINTS: [&[&str]; 5] = [
                            &["All"],
                            &["Deprecated"],
                            &["BrokenDocLink", "IncorrectDocComment"],
                            &["MalformedDocComment"],
                            &["All", "Deprecated"],
                        ];
                        let l = LINTS[self.pick(LINTS.len())];
                        Some(AttrM::new("allow", l))
                    }
                }
                6 => {
                    // deprecated: illegal on files, modules, type references, parameters (and return
                    // members); non-repeatable
                    let legal = !matches!(target, "file" | "module" | "type" | "parameter");
                    if legal && self.cfg.deprecated && !out.iter().any(|a| a.directive == "deprecated") {
                        if self.chance(128) {
                            Some(AttrM::new("deprecated", &[]))
                        } else if self.chance(128) {
                            Some(AttrM::new("deprecated", &["use something else"]))
                        } else {
                            // any reason is kept as written: empty, quotes, backslashes, ...
                            Some(AttrM::new("deprecated", &[ARG_POOL[self.pick(ARG_POOL.len())]]))
                        }
                    } else {
                        None
                    }
                }
                _ => {
                    if target.starts_with("operation") {
                        let which = self.pick(3);
                        let a = match which {
                            0 if target == "operation-noreturn" => AttrM::new("oneway", &[]),
                            1 => {
                                const C: [&[&str]; 4] = [&["Args"], &["Return"], &["Args", "Return"], &["Return", "Args"]];
                                AttrM::new("compress", C[self.pick(4)])
                            }
                            _ => {
                                const C: [&[&str]; 4] = [&["Args"], &["Return"], &["Args", "Return"], &["Return", "Args"]];
                                AttrM::new("slicedFormat", C[self.pick(4)])
                            }
                        };
                        if out.iter().any(|x| x.directive == a.directive) {
                            None
                        } else {
                            Some(a)
                        }
                    } else {
                        None
                    }
                }
            };
            if let Some(a) = a {
                out.push(a);
            }
        }
        out
    }

    fn doc_cfg(&self, params: Vec<String>, returns: Vec<String>, returns_single: bool) -> crate::doc::DocCfg {
        let mut targets: Vec<String> = self.plans.iter().map(|p| p.name.clone()).filter(|n| !is_keyword(n)).collect();
        targets.push("Missing".into());
        targets.push("int32".into());
        if self.cfg.rich_link_targets {
            for p in &self.plans {
                if is_keyword(&p.name) || p.scope.split("::").any(is_keyword) {
                    continue;
                }
                targets.push(join(&p.scope, &p.name));
                targets.push(format!("::{}", join(&p.scope, &p.name)));
            }
            // member names resolve (or not) from the documented element outwards; module names and
            // scoped member spellings are legal targets too
            // (also globally scoped targets of a single segment: only modules and primitives live there)
            for m in ["a", "b", "x", "id", "name", "S::a", "T::x", "A", "A::B", "M", "Missing::X", "string", "a::b", "::A", "::M", "::Missing", "::string"] {
                targets.push(m.to_owned());
            }
        }
        crate::doc::DocCfg {
            targets,
            params,
            returns,
            returns_single,
            exotic: self.cfg.exotic_docs,
        }
    }

    fn doc_with(&mut self, params: Vec<String>, returns: Vec<String>, returns_single: bool) -> (Vec<String>, Option<Box<crate::doc::DocModel>>) {
        if !self.cfg.docs || !self.chance(self.cfg.doc_chance) {
            return (Vec::new(), None);
        }
        let cfg = self.doc_cfg(params, returns, returns_single);
        let d = crate::doc::gen_doc(self.u, &cfg);
        if d.is_empty() {
            return (Vec::new(), None);
        }
        self.labels.insert("doc-comment");
        (d.lines(), Some(Box::new(d)))
    }

    fn prelude(&mut self, target: &str, docs_ok: bool) -> Prelude {
        let (doc, docm) = if docs_ok { self.doc_with(vec![], vec![], false) } else { (Vec::new(), None) };
        Prelude {
            doc,
            attrs: self.attrs_for(target),
            docm,
        }
    }

    fn op_prelude(&mut self, target: &str, params: &[ParamM], ret: &RetM) -> Prelude {
        let pnames: Vec<String> = params.iter().map(|p| p.name.clone()).filter(|n| !is_keyword(n)).collect();
        let (rnames, single) = match ret {
            RetM::None => (vec![], false),
            RetM::Single(_) => (vec![], true),
            RetM::Tuple(v) => (v.iter().map(|p| p.name.clone()).filter(|n| !is_keyword(n)).collect(), false),
        };
        let (doc, docm) = self.doc_with(pnames, rnames, single);
        Prelude {
            doc,
            attrs: self.attrs_for(target),
            docm,
        }
    }

    // -------------------------------------------------------------------------------------
    // types
    // -------------------------------------------------------------------------------------

    /// All spellings of `target` (a fully scoped name) that resolve to it from `scope`.
    pub fn spellings(&self, target: &str, scope: &str) -> Vec<String> {
        let segs: Vec<&str> = target.split("::").collect();
        let mut cands: Vec<String> = Vec::new();
        for start in (0..segs.len()).rev() {
            cands.push(segs[start..].join("::"));
        }
        cands.push(format!("::{target}"));
        cands
            .into_iter()
            .filter(|c| match self.table.lookup(c, scope) {
                Some((key, _)) => key == target && !self.table.ambiguous(&key),
                None => false,
            })
            .collect()
    }

    fn named_ref(&mut self, plan_idx: usize, scope: &str) -> Option<TypeK> {
        let target = join(&self.plans[plan_idx].scope, &self.plans[plan_idx].name);
        let sp = self.spellings(&target, scope);
        if sp.is_empty() {
            return None;
        }
        let i = self.pick(sp.len());
        if sp[i].starts_with("::") {
            self.labels.insert("global-spelling");
        } else if sp[i].contains("::") {
            self.labels.insert("qualified-spelling");
        }
        if self.plans[plan_idx].scope != scope {
            self.labels.insert("cross-module-ref");
        }
        Some(TypeK::Named(sp[i].clone()))
    }

    /// Plans (with index < limit) usable as a type; `key` = must be a legal dictionary key.
    fn usable(&self, limit: usize, key: bool) -> Vec<usize> {
        (0..limit.min(self.plans.len()))
            .filter(|i| {
                let p = &self.plans[*i];
                p.kind.is_type() && (!key || p.key_ok)
            })
            .collect()
    }

    fn key_type(&mut self, limit: usize, scope: &str) -> TypeM {
        let named = self.usable(limit, true);
        let kind = if !named.is_empty() && self.chance(90) {
            let i = named[self.pick(named.len())];
            self.named_ref(i, scope)
        } else {
            None
        };
        let kind = kind.unwrap_or_else(|| TypeK::Prim(KEY_PRIMS[self.pick(KEY_PRIMS.len())].to_owned()));
        TypeM {
            attrs: self.type_attrs(),
            kind,
            optional: false,
        }
    }

    fn type_attrs(&mut self) -> Vec<AttrM> {
        if self.cfg.attrs && self.chance(25) {
            vec![self.foreign_attr()]
        } else {
            Vec::new()
        }
    }

    pub fn gen_type(&mut self, limit: usize, scope: &str, depth: usize, allow_optional: bool) -> TypeM {
        let named = self.usable(limit, false);
        let sel = self.pick(10);
        let kind = match sel {
            0..=3 => None,
            4..=6 => {
                if named.is_empty() {
                    None
                } else {
                    let i = named[self.pick(named.len())];
                    self.named_ref(i, scope)
                }
            }
            7 if depth > 0 => Some(TypeK::Seq(Box::new(self.gen_type(limit, scope, depth - 1, true)))),
            8 if depth > 0 => {
                let k = self.key_type(limit, scope);
                let v = self.gen_type(limit, scope, depth - 1, true);
                Some(TypeK::Dict(Box::new(k), Box::new(v)))
            }
            9 if depth > 0 => {
                let s = self.gen_type(limit, scope, depth - 1, true);
                let f = self.gen_type(limit, scope, depth - 1, true);
                Some(TypeK::Result(Box::new(s), Box::new(f)))
            }
            _ => None,
        };
        let kind = kind.unwrap_or_else(|| TypeK::Prim(PRIMITIVES[self.pick(PRIMITIVES.len())].to_owned()));
        let optional = allow_optional && self.chance(70);
        TypeM {
            attrs: self.type_attrs(),
            kind,
            optional,
        }
    }

    // -------------------------------------------------------------------------------------
    // members
    // -------------------------------------------------------------------------------------

    fn tag_value(&mut self, used: &mut BTreeSet<i128>) -> i128 {
        const TAGS: [i128; 8] = [0, 1, 2, 7, 63, 64, 16384, 2147483647];
        let start = self.pick(TAGS.len());
        for off in 0..TAGS.len() {
            let t = TAGS[(start + off) % TAGS.len()];
            if used.insert(t) {
                return t;
            }
        }
        let t = 100 + used.len() as i128;
        used.insert(t);
        t
    }

    fn gen_fields(&mut self, limit: usize, scope: &str, min: usize, tags_ok: bool, key_only: bool) -> Vec<FieldM> {
        let n = min + self.pick(self.cfg.max_members + 1 - min.min(self.cfg.max_members));
        let mut names = BTreeSet::new();
        let mut tags = BTreeSet::new();
        let mut out = Vec::new();
        for _ in 0..n {
            let name = name_from(self.u, &MEMBER_NAMES, self.cfg.keywords, &names);
            names.insert(name.clone());
            let tagged = tags_ok && self.chance(60);
            let mut ty = if key_only {
                self.key_type(limit, scope)
            } else {
                self.gen_type(limit, scope, self.cfg.type_depth, true)
            };
            let tag = if tagged {
                ty.optional = true;
                Some(self.tag_value(&mut tags))
            } else {
                None
            };
            out.push(FieldM {
                pre: self.prelude("field", true),
                tag,
                name,
                ty,
            });
        }
        out
    }

    fn gen_params(&mut self, limit: usize, scope: &str, min: usize, max: usize, stream_ok: bool) -> Vec<ParamM> {
        let n = min + self.pick(max + 1 - min);
        let mut names = BTreeSet::new();
        let mut tags = BTreeSet::new();
        let mut out = Vec::new();
        for k in 0..n {
            let name = name_from(self.u, &MEMBER_NAMES, self.cfg.keywords, &names);
            names.insert(name.clone());
            let mut ty = self.gen_type(limit, scope, self.cfg.type_depth, true);
            let tag = if self.chance(50) {
                ty.optional = true;
                Some(self.tag_value(&mut tags))
            } else {
                None
            };
            let stream = stream_ok && k + 1 == n && self.chance(50);
            out.push(ParamM {
                pre: Prelude {
                    doc: vec![],
                    attrs: self.attrs_for("parameter"),
                    docm: None,
                },
                tag,
                name,
                stream,
                ty,
            });
        }
        out
    }

    // -------------------------------------------------------------------------------------
    // program
    // -------------------------------------------------------------------------------------

    pub fn program(&mut self) -> Program {
        let nfiles = 1 + self.pick(self.cfg.max_files);
        let mut files: Vec<FileM> = Vec::new();
        for i in 0..nfiles {
            let mut mi = self.pick(MODULE_POOL.len());
            if !self.cfg.keywords && MODULE_POOL[mi].iter().any(|s| is_keyword(s)) {
                mi = 0;
            }
            let path: Vec<String> = MODULE_POOL[mi].iter().map(|s| s.to_string()).collect();
            let attrs = self.attrs_for("module");
            let file_attrs = self.attrs_for("file");
            files.push(FileM {
                path: format!("string-{i}"),
                file_attrs,
                module: Some(ModuleM { attrs, path }),
                defs: Vec::new(),
            });
        }
        // phase 1: plan the definitions (kind, name, file)
        let ndefs = self.pick(self.cfg.max_defs + 1);
        let mut taken: BTreeMap<String, BTreeSet<String>> = BTreeMap::new();
        let module_segments: BTreeSet<String> = MODULE_POOL.iter().flat_map(|p| p.iter().map(|s| s.to_string())).collect();
        for _ in 0..ndefs {
            let file = self.pick(nfiles);
            let scope = files[file].module.as_ref().unwrap().scope();
            let kind = match self.pick(6) {
                0 | 1 => EKind::Struct,
                2 => EKind::Enum,
                3 => EKind::Interface,
                4 => EKind::Custom,
                _ => EKind::Alias,
            };
            let set = taken.entry(scope.clone()).or_default();
            let mut all_taken = set.clone();
            all_taken.extend(module_segments.iter().cloned());
            let name = name_from(self.u, &DEF_NAMES, self.cfg.keywords, &all_taken);
            set.insert(name.clone());
            self.plans.push(Plan {
                kind,
                name,
                file,
                scope,
                key_ok: false,
                integral_alias: false,
                all_ops: BTreeSet::new(),
                deprecated: false,
            });
        }
        // skeleton table for spelling selection
        {
            let mut skeleton = Program { files: files.clone() };
            for p in &self.plans {
                let d = match p.kind {
                    EKind::Struct => DefM::Struct(StructM {
                        name: p.name.clone(),
                        ..Default::default()
                    }),
                    EKind::Enum => DefM::Enum(EnumM {
                        name: p.name.clone(),
                        ..Default::default()
                    }),
                    EKind::Interface => DefM::Interface(InterfaceM {
                        name: p.name.clone(),
                        ..Default::default()
                    }),
                    EKind::Custom => DefM::Custom(CustomM {
                        name: p.name.clone(),
                        ..Default::default()
                    }),
                    _ => DefM::Alias(AliasM {
                        pre: Prelude::default(),
                        name: p.name.clone(),
                        ty: TypeM::prim("bool"),
                    }),
                };
                skeleton.files[p.file].defs.push(d);
            }
            self.table = Table::build(&skeleton);
        }
        // phase 2: bodies, in plan order (references only go to earlier plans => acyclic)
        let mut bodies: Vec<DefM> = Vec::new();
        for idx in 0..self.plans.len() {
            let d = self.body(idx);
            bodies.push(d);
        }
        // distribute to files in a random source order
        let mut order: Vec<usize> = (0..bodies.len()).collect();
        for i in (1..order.len()).rev() {
            let j = self.pick(i + 1);
            order.swap(i, j);
        }
        if order.iter().enumerate().any(|(pos, idx)| pos != *idx) {
            self.labels.insert("forward-reference-possible");
        }
        for idx in order {
            files[self.plans[idx].file].defs.push(bodies[idx].clone());
        }
        let mut p = Program { files };
        p.fill_effective_values();
        p
    }

    fn body(&mut self, idx: usize) -> DefM {
        let plan = self.plans[idx].clone();
        let scope = plan.scope.clone();
        match plan.kind {
            EKind::Struct => {
                let compact = self.chance(80);
                // a compact struct may serve as a dictionary key if all its fields are key types
                let key_only = compact && self.chance(128);
                let fields = self.gen_fields(idx, &scope, if compact { 1 } else { 0 }, !compact, key_only);
                self.plans[idx].key_ok = compact && key_only;
                let mut pre = self.prelude("struct", true);
                self.note_deprecated(idx, &mut pre);
                DefM::Struct(StructM {
                    pre,
                    compact,
                    name: plan.name,
                    fields,
                })
            }
            EKind::Custom => {
                self.plans[idx].key_ok = true;
                let mut pre = self.prelude("custom", true);
                self.note_deprecated(idx, &mut pre);
                DefM::Custom(CustomM { pre, name: plan.name })
            }
            EKind::Alias => {
                // target: any non-optional type
                let ty = self.gen_type(idx, &scope, self.cfg.type_depth, false);
                let (key_ok, integral) = self.alias_properties(&ty, &scope);
                self.plans[idx].key_ok = key_ok;
                self.plans[idx].integral_alias = integral;
                let mut pre = self.prelude("alias", true);
                self.note_deprecated(idx, &mut pre);
                DefM::Alias(AliasM {
                    pre,
                    name: plan.name,
                    ty,
                })
            }
            EKind::Enum => self.enum_body(idx, plan),
            EKind::Interface => self.interface_body(idx, plan),
            _ => unreachable!(),
        }
    }

    fn note_deprecated(&mut self, idx: usize, pre: &mut Prelude) {
        if pre.attrs.iter().any(|a| a.directive == "deprecated") {
            self.plans[idx].deprecated = true;
            self.labels.insert("deprecated-definition");
        }
    }

    /// (legal as key, aliases an integral primitive) for an alias with this written target
    fn alias_properties(&self, ty: &TypeM, scope: &str) -> (bool, bool) {
        match &ty.kind {
            TypeK::Prim(p) => (KEY_PRIMS.contains(&p.as_str()), is_integral(p)),
            TypeK::Named(n) => match self.table.lookup(n, scope) {
                Some((key, _)) => self
                    .plans
                    .iter()
                    .find(|p| join(&p.scope, &p.name) == key)
                    .map(|p| (p.key_ok, p.integral_alias))
                    .unwrap_or((false, false)),
                None => (false, false),
            },
            _ => (false, false),
        }
    }

    fn enum_body(&mut self, idx: usize, plan: Plan) -> DefM {
        let scope = plan.scope.clone();
        let with_underlying = self.chance(128);
        let mut pre = self.prelude("enum", true);
        self.note_deprecated(idx, &mut pre);
        if with_underlying {
            let prim = INTEGRAL_PRIMS[self.pick(INTEGRAL_PRIMS.len())];
            let unchecked = self.chance(80);
            let (lo, hi) = prim_bounds(prim).unwrap();
            let n = if unchecked { self.pick(5) } else { 1 + self.pick(4) };
            let mut names = BTreeSet::new();
            let mut used: BTreeSet<i128> = BTreeSet::new();
            let mut prev: Option<i128> = None;
            let mut enumerators = Vec::new();
            for _ in 0..n {
                let name = name_from(self.u, &MEMBER_NAMES, self.cfg.keywords, &names);
                names.insert(name.clone());
                let implicit_ok = {
                    let v = prev.map_or(0, |p| p + 1);
                    v >= lo && v <= hi && !used.contains(&v)
                };
                let value = if implicit_ok && !self.chance(128) {
                    None
                } else {
                    // explicit: boundary values preferred
                    let cands = [lo, hi, 0, 1, -1, lo + 1, hi - 1, 5, 42, 1000, -1000];
                    let start = self.pick(cands.len());
                    let mut chosen = None;
                    for off in 0..cands.len() {
                        let c = cands[(start + off) % cands.len()];
                        if c >= lo && c <= hi && !used.contains(&c) {
                            chosen = Some(c);
                            break;
                        }
                    }
                    match chosen {
                        Some(c) => Some(c),
                        None => {
                            // small ranges exhausted: first free value
                            let mut v = lo;
                            while used.contains(&v) {
                                v += 1;
                            }
                            Some(v)
                        }
                    }
                };
                let eff = value.unwrap_or_else(|| prev.map_or(0, |p| p + 1));
                if eff < lo || eff > hi || used.contains(&eff) {
                    break;
                }
                if value == Some(lo) || value == Some(hi) {
                    self.labels.insert("enumerator-at-range-limit");
                }
                used.insert(eff);
                prev = Some(eff);
                enumerators.push(EnumeratorM {
                    pre: self.prelude("enumerator", true),
                    name,
                    fields: None,
                    value,
                    effective: eff,
                });
            }
            if enumerators.is_empty() && !unchecked {
                enumerators.push(EnumeratorM {
                    pre: Prelude::default(),
                    name: "a".into(),
                    fields: None,
                    value: None,
                    effective: 0,
                });
            }
            self.plans[idx].key_ok = true;
            let underlying_attrs = self.type_attrs();
            DefM::Enum(EnumM {
                pre,
                compact: false,
                unchecked,
                name: plan.name,
                underlying: Some(TypeM {
                    attrs: underlying_attrs,
                    kind: TypeK::Prim(prim.to_owned()),
                    optional: false,
                }),
                enumerators,
            })
        } else {
            let compact = self.chance(60);
            let unchecked = !compact && self.chance(60);
            let (lo, hi) = (0i128, (1i128 << 31) - 1);
            let n = if unchecked { self.pick(5) } else { 1 + self.pick(4) };
            let mut names = BTreeSet::new();
            let mut used: BTreeSet<i128> = BTreeSet::new();
            let mut prev: Option<i128> = None;
            let mut enumerators = Vec::new();
            for _ in 0..n {
                let name = name_from(self.u, &MEMBER_NAMES, self.cfg.keywords, &names);
                names.insert(name.clone());
                let implicit_ok = {
                    let v = prev.map_or(0, |p| p + 1);
                    v >= lo && v <= hi && !used.contains(&v)
                };
                let value = if implicit_ok && !self.chance(100) {
                    None
                } else {
                    let cands = [hi, 0, 1, 7, 100, 65536, hi - 1];
                    let start = self.pick(cands.len());
                    let mut chosen = None;
                    for off in 0..cands.len() {
                        let c = cands[(start + off) % cands.len()];
                        if !used.contains(&c) {
                            chosen = Some(c);
                            break;
                        }
                    }
                    chosen.or(Some(200 + used.len() as i128))
                };
                let eff = value.unwrap_or_else(|| prev.map_or(0, |p| p + 1));
                if eff < lo || eff > hi || used.contains(&eff) {
                    break;
                }
                used.insert(eff);
                prev = Some(eff);
                let fields = if self.chance(110) {
                    Some(self.gen_fields(idx, &scope, 0, !compact, false))
                } else {
                    None
                };
                enumerators.push(EnumeratorM {
                    pre: self.prelude("enumerator", true),
                    name,
                    fields,
                    value,
                    effective: eff,
                });
            }
            if enumerators.is_empty() && !unchecked {
                enumerators.push(EnumeratorM {
                    pre: Prelude::default(),
                    name: "a".into(),
                    fields: None,
                    value: None,
                    effective: 0,
                });
            }
            self.plans[idx].key_ok = false;
            DefM::Enum(EnumM {
                pre,
                compact,
                unchecked,
                name: plan.name,
                underlying: None,
                enumerators,
            })
        }
    }

    fn interface_body(&mut self, idx: usize, plan: Plan) -> DefM {
        let scope = plan.scope.clone();
        let earlier: Vec<usize> = (0..idx).filter(|i| self.plans[*i].kind == EKind::Interface).collect();
        let mut bases = Vec::new();
        let mut inherited: BTreeSet<String> = BTreeSet::new();
        if !earlier.is_empty() && self.chance(150) {
            let nb = 1 + self.pick(earlier.len().min(3));
            let mut chosen: Vec<usize> = Vec::new();
            for _ in 0..nb {
                let c = earlier[self.pick(earlier.len())];
                if !chosen.contains(&c) {
                    chosen.push(c);
                }
            }
            for c in chosen {
                let target = join(&self.plans[c].scope, &self.plans[c].name);
                let sp = self.spellings(&target, &scope);
                if sp.is_empty() {
                    continue;
                }
                let s = sp[self.pick(sp.len())].clone();
                inherited.extend(self.plans[c].all_ops.iter().cloned());
                bases.push(TypeM {
                    attrs: vec![],
                    kind: TypeK::Named(s),
                    optional: false,
                });
            }
        }
        let nops = self.pick(4);
        let mut names: BTreeSet<String> = inherited.clone();
        let mut ops = Vec::new();
        for _ in 0..nops {
            let name = name_from(self.u, &MEMBER_NAMES, self.cfg.keywords, &names);
            names.insert(name.clone());
            let params = self.gen_params(idx, &scope, 0, 3, true);
            let ret = match self.pick(4) {
                0 | 1 => RetM::None,
                2 => {
                    let mut ty = self.gen_type(idx, &scope, self.cfg.type_depth, true);
                    let tag = if self.chance(50) {
                        ty.optional = true;
                        Some(if self.chance(128) { 0 } else { 2147483647 })
                    } else {
                        None
                    };
                    RetM::Single(Box::new(ParamM {
                        pre: Prelude::default(),
                        tag,
                        name: String::new(),
                        stream: self.chance(40),
                        ty,
                    }))
                }
                _ => RetM::Tuple(self.gen_params(idx, &scope, 2, 3, true)),
            };
            let target = if matches!(ret, RetM::None) { "operation-noreturn" } else { "operation" };
            let op_pre = self.op_prelude(target, &params, &ret);
            ops.push(OpM {
                pre: op_pre,
                idempotent: self.chance(80),
                name,
                params,
                ret,
            });
        }
        self.plans[idx].all_ops = names;
        let mut pre = self.prelude("interface", true);
        self.note_deprecated(idx, &mut pre);
        DefM::Interface(InterfaceM {
            pre,
            name: plan.name,
            bases,
            ops,
        })
    }
}

pub fn gen_program(u: &mut Unstructured, cfg: &GenCfg) -> (Program, BTreeSet<&'static str>) {
    let mut g = Gen::new(u, cfg.clone());
    let p = g.program();
    (p, g.labels)
}
