//! Running the freshly built `slicec` binary and fake generators in a private temp tree.

use std::ffi::OsString;
use std::io::Read;
use std::path::{Path, PathBuf};
use std::process::{Command, Stdio};
use std::time::{Duration, Instant};

pub fn slicec_path() -> PathBuf {
    std::env::var_os("VCHECK_SLICEC")
        .map(PathBuf::from)
        .unwrap_or_else(|| PathBuf::from(format!("{}/target/repo/debug/slicec", crate::engine::verif_root())))
}

pub fn fakegen_path() -> PathBuf {
    // sits next to the vcheck executable
    let exe = std::env::current_exe().expect("current_exe");
    exe.parent().unwrap().join("fakegen")
}

#[derive(Debug, Clone)]
pub struct RunResult {
    pub code: Option<i32>,
    pub signal: Option<i32>,
    pub stdout: Vec<u8>,
    pub stderr: Vec<u8>,
    pub wall: Duration,
    pub timed_out: bool,
}

impl RunResult {
    pub fn stderr_text(&self) -> String {
        String::from_utf8_lossy(&self.stderr).into_owned()
    }
    pub fn stdout_text(&self) -> String {
        String::from_utf8_lossy(&self.stdout).into_owned()
    }
    /// True if the process ended the way a compiler should: exit status 0, 1 or 2 (usage).
    pub fn clean_exit(&self) -> bool {
        !self.timed_out && self.signal.is_none() && matches!(self.code, Some(0) | Some(1) | Some(2))
    }
    pub fn crashed(&self) -> Option<String> {
        if self.timed_out {
            return Some("timeout".into());
        }
        let se = self.stderr_text();
        if se.contains("has overflowed its stack") {
            return Some("stack-overflow".into());
        }
        if let Some(s) = self.signal {
            return Some(format!("signal{s}"));
        }
        if se.contains("panicked at") {
            // class by panic site
            let site = se
                .lines()
                .find_map(|l| l.split_once("panicked at ").map(|x| x.1))
                .map(|s| s.trim_end_matches(':').to_owned())
                .unwrap_or_default();
            let site = site.split(':').take(2).collect::<Vec<_>>().join(":");
            return Some(format!("panic@{site}"));
        }
        match self.code {
            Some(0) | Some(1) | Some(2) => None,
            Some(c) => Some(format!("exit{c}")),
            None => Some("unknown".into()),
        }
    }
}

pub fn run_cmd(
    program: &Path,
    cwd: &Path,
    args: &[OsString],
    env: &[(&str, &str)],
    timeout: Duration,
) -> RunResult {
    use std::os::unix::process::ExitStatusExt;
    let t0 = Instant::now();
    let mut cmd = Command::new(program);
    cmd.current_dir(cwd)
        .args(args)
        .stdin(Stdio::null())
        .stdout(Stdio::piped())
        .stderr(Stdio::piped())
        .env("RUST_BACKTRACE", "0")
        .env_remove("CLICOLOR_FORCE")
        .env_remove("NO_COLOR")
        .env_remove("CLICOLOR");
    for (k, v) in env {
        cmd.env(k, v);
    }
    let mut child = match cmd.spawn() {
        Ok(c) => c,
        Err(e) => {
            return RunResult {
                code: Some(127),
                signal: None,
                stdout: Vec::new(),
                stderr: format!("spawn failed: {e}").into_bytes(),
                wall: t0.elapsed(),
                timed_out: false,
            }
        }
    };
    let mut so = child.stdout.take().unwrap();
    let mut se = child.stderr.take().unwrap();
    let t_out = std::thread::spawn(move || {
        let mut b = Vec::new();
        let _ = so.read_to_end(&mut b);
        b
    });
    let t_err = std::thread::spawn(move || {
        let mut b = Vec::new();
        let _ = se.read_to_end(&mut b);
        b
    });
    let mut timed_out = false;
    let status = loop {
        match child.try_wait() {
            Ok(Some(st)) => break Some(st),
            Ok(None) => {
                if t0.elapsed() > timeout {
                    let _ = child.kill();
                    timed_out = true;
                    break child.wait().ok();
                }
                std::thread::sleep(Duration::from_millis(1));
            }
            Err(_) => break None,
        }
    };
    let wall = t0.elapsed();
    // Generators that outlive slicec could keep the pipes open; bound the wait for the readers.
    let stdout = t_out.join().unwrap_or_default();
    let stderr = t_err.join().unwrap_or_default();
    RunResult {
        code: status.and_then(|s| s.code()),
        signal: status.and_then(|s| s.signal()),
        stdout,
        stderr,
        wall,
        timed_out,
    }
}

pub fn run_slicec(cwd: &Path, args: &[OsString], env: &[(&str, &str)], timeout: Duration) -> RunResult {
    run_cmd(&slicec_path(), cwd, args, env, timeout)
}

/// A private directory for one case; removed on drop.
pub struct CaseDir {
    pub path: PathBuf,
}

impl CaseDir {
    pub fn new(workdir: &Path, shard: usize, case_no: u64) -> CaseDir {
        let path = workdir.join(format!("c{shard}-{case_no}"));
        let _ = std::fs::remove_dir_all(&path);
        std::fs::create_dir_all(&path).expect("create case dir");
        CaseDir { path }
    }
    pub fn write(&self, rel: &str, content: &[u8]) -> PathBuf {
        let p = self.path.join(rel);
        if let Some(parent) = p.parent() {
            let _ = std::fs::create_dir_all(parent);
        }
        std::fs::write(&p, content).expect("write case file");
        p
    }
    /// Installs a fake generator under `rel` (a symlink to the fakegen executable) with the given
    /// configuration lines; returns the path to pass to `-G`.
    pub fn install_generator(&self, rel: &str, cfg: &str) -> PathBuf {
        let p = self.path.join(rel);
        if let Some(parent) = p.parent() {
            let _ = std::fs::create_dir_all(parent);
        }
        let _ = std::fs::remove_file(&p);
        std::os::unix::fs::symlink(fakegen_path(), &p).expect("symlink fakegen");
        let mut cfg_path = p.clone().into_os_string();
        cfg_path.push(".cfg");
        std::fs::write(cfg_path, cfg).expect("write gen cfg");
        p
    }
    pub fn generator_log_lines(&self, gen: &Path) -> usize {
        let mut p = gen.to_path_buf().into_os_string();
        p.push(".log");
        std::fs::read_to_string(p).map(|t| t.lines().count()).unwrap_or(0)
    }
    pub fn generator_stdin(&self, gen: &Path) -> Option<Vec<u8>> {
        let mut p = gen.to_path_buf().into_os_string();
        p.push(".stdin");
        std::fs::read(p).ok()
    }
    /// What the k-th invocation (1-based) of this generator read.
    pub fn generator_stdin_nth(&self, gen: &Path, k: usize) -> Option<Vec<u8>> {
        if k <= 1 {
            return self.generator_stdin(gen);
        }
        let mut p = gen.to_path_buf().into_os_string();
        p.push(format!(".stdin.{k}"));
        std::fs::read(p).ok()
    }
}

impl Drop for CaseDir {
    fn drop(&mut self) {
        let _ = std::fs::remove_dir_all(&self.path);
    }
}

pub fn os(s: &str) -> OsString {
    OsString::from(s)
}
