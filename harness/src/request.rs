//! Schema-driven decoder of the generator request (C08, C13, C15, C17, C18).
//!
//! The schema is the set of `.slice` files shipped in /repo/slice/Compiler, loaded at run time
//! (parsed with slicec itself — its fidelity is C02's subject).  Decoding follows the codec's
//! conventions: sizes varuint62; non-compact struct = bit sequence for its optional fields,
//! fields in order, tag end marker (varint -1); enum with fields = varint32 discriminant, the
//! variant's fields laid out like a struct, tag end marker; enum with an underlying type = that
//! type; aliases transparent.

use crate::model::*;
use crate::observe::observe_program;
use crate::wire;
use std::collections::{BTreeMap, HashMap};

#[derive(Clone, Debug, PartialEq)]
pub enum Val {
    Bool(bool),
    Int(i128),
    Str(String),
    Seq(Vec<Val>),
    Dict(Vec<(Val, Val)>),
    /// (type name, fields in order; None = optional field absent)
    Struct(String, Vec<(String, Option<Val>)>),
    /// (enum name, enumerator name, discriminant, fields)
    Variant(String, String, i128, Vec<(String, Option<Val>)>),
}

impl Val {
    pub fn field(&self, name: &str) -> Option<&Val> {
        match self {
            Val::Struct(_, fs) | Val::Variant(_, _, _, fs) => fs.iter().find(|f| f.0 == name).and_then(|f| f.1.as_ref()),
            _ => None,
        }
    }
    pub fn has_field(&self, name: &str) -> bool {
        match self {
            Val::Struct(_, fs) | Val::Variant(_, _, _, fs) => fs.iter().any(|f| f.0 == name),
            _ => false,
        }
    }
    pub fn str(&self) -> Option<&str> {
        match self {
            Val::Str(s) => Some(s),
            _ => None,
        }
    }
    pub fn bool(&self) -> Option<bool> {
        match self {
            Val::Bool(b) => Some(*b),
            _ => None,
        }
    }
    pub fn int(&self) -> Option<i128> {
        match self {
            Val::Int(i) => Some(*i),
            _ => None,
        }
    }
    pub fn seq(&self) -> Option<&Vec<Val>> {
        match self {
            Val::Seq(v) => Some(v),
            _ => None,
        }
    }
}

pub struct Schema {
    /// canonical program of the schema files
    pub program: Program,
    /// scoped name -> definition
    pub defs: HashMap<String, DefM>,
}

#[derive(Debug)]
pub struct DecodeError {
    pub at: String,
    pub what: String,
    pub offset: usize,
}

impl Schema {
    /// Loads /repo/slice/Compiler/*.slice.  Err = infrastructure problem (schema unreadable).
    pub fn load() -> Result<Schema, String> {
        let dir = "/repo/slice/Compiler";
        let mut sources: Vec<String> = std::fs::read_dir(dir)
            .map_err(|e| format!("{dir}: {e}"))?
            .filter_map(|e| e.ok().map(|e| e.path()))
            .filter(|p| p.extension().and_then(|e| e.to_str()) == Some("slice"))
            .map(|p| p.to_string_lossy().into_owned())
            .collect();
        sources.sort();
        if sources.is_empty() {
            return Err(format!("no .slice files in {dir}"));
        }
        let options = slicec::slice_options::SliceOptions {
            sources,
            ..Default::default()
        };
        let state = slicec::compile_from_options(&options);
        if state.diagnostics.has_errors() {
            return Err("the Compiler schema files do not compile".into());
        }
        let program = observe_program(&state);
        let mut defs = HashMap::new();
        for f in &program.files {
            let scope = f.module.as_ref().map(|m| m.scope()).unwrap_or_default();
            for d in &f.defs {
                defs.insert(crate::refcheck::join(&scope, d.name()), d.clone());
            }
        }
        let s = Schema { program, defs };
        // the parts the decoded-request interpretation relies on
        for (ty, fields) in [
            ("Compiler::SliceFile", vec!["path", "moduleDeclaration", "attributes", "contents"]),
            ("Compiler::EntityInfo", vec!["identifier", "attributes", "comment"]),
            ("Compiler::TypeRef", vec!["typeId", "isOptional", "typeAttributes"]),
            ("Compiler::Field", vec!["entityInfo", "tag", "dataType"]),
            ("Compiler::Operation", vec!["entityInfo", "isIdempotent", "parameters", "hasStreamedParameter", "returnType", "hasStreamedReturn"]),
            ("Compiler::DocComment", vec!["overview", "seeTags"]),
        ] {
            match s.defs.get(ty) {
                Some(DefM::Struct(st)) => {
                    for f in fields {
                        if !st.fields.iter().any(|x| x.name == f) {
                            return Err(format!("schema changed: {ty} has no field {f}"));
                        }
                    }
                }
                _ => return Err(format!("schema changed: {ty} is not a struct")),
            }
        }
        Ok(s)
    }

    fn named<'a>(&'a self, n: &str) -> Option<(&'a str, &'a DefM)> {
        // canonical named kinds look like "@struct Compiler::X"
        let (_kind, scoped) = n.split_once(' ')?;
        self.defs.get_key_value(scoped).map(|(k, v)| (k.as_str(), v))
    }

    fn fields(&self, owner: &str, fields: &[FieldM], b: &mut &[u8], total: usize, at: &str) -> Result<Vec<(String, Option<Val>)>, DecodeError> {
        let err = |what: String, b: &&[u8]| DecodeError {
            at: at.to_owned(),
            what,
            offset: total - b.len(),
        };
        // bit sequence over the optional, untagged fields
        let optional: Vec<usize> = (0..fields.len()).filter(|i| fields[*i].ty.optional && fields[*i].tag.is_none()).collect();
        let nbytes = optional.len().div_ceil(8);
        let bits = wire::take(b, nbytes).ok_or_else(|| err(format!("{owner}: truncated bit sequence"), b))?.to_vec();
        // unused bits must be zero (a bool-as-bit-sequence of 2 would otherwise pass unnoticed)
        for (i, byte) in bits.iter().enumerate() {
            let used = (optional.len() - i * 8).min(8);
            if used < 8 && byte >> used != 0 {
                return Err(err(format!("{owner}: bit sequence byte {byte:#x} has bits set beyond its {used} optional fields"), b));
            }
        }
        let mut out = Vec::new();
        for (i, f) in fields.iter().enumerate() {
            if f.tag.is_some() {
                return Err(err(format!("{owner}.{}: tagged fields are not expected in the Compiler schema", f.name), b));
            }
            if let Some(pos) = optional.iter().position(|x| *x == i) {
                let present = bits[pos / 8] >> (pos % 8) & 1 == 1;
                if !present {
                    out.push((f.name.clone(), None));
                    continue;
                }
            }
            let mut t = f.ty.clone();
            t.optional = false;
            let v = self.value(&t, b, total, &format!("{at}/{}", f.name))?;
            out.push((f.name.clone(), Some(v)));
        }
        // tag end marker
        match wire::read_varint_as_i32(b) {
            Some(-1) => Ok(out),
            other => Err(err(format!("{owner}: expected the tag end marker, found {other:?}"), b)),
        }
    }

    pub fn value(&self, t: &TypeM, b: &mut &[u8], total: usize, at: &str) -> Result<Val, DecodeError> {
        let err = |what: String, b: &&[u8]| DecodeError {
            at: at.to_owned(),
            what,
            offset: total - b.len(),
        };
        match &t.kind {
            TypeK::Prim(p) => {
                let v = match p.as_str() {
                    "bool" => wire::read_bool(b).map(Val::Bool),
                    "int8" => wire::read_i8(b).map(|x| Val::Int(x as i128)),
                    "uint8" => wire::read_u8(b).map(|x| Val::Int(x as i128)),
                    "int16" => wire::read_i16(b).map(|x| Val::Int(x as i128)),
                    "uint16" => wire::read_u16(b).map(|x| Val::Int(x as i128)),
                    "int32" => wire::read_i32(b).map(|x| Val::Int(x as i128)),
                    "uint32" => wire::read_u32(b).map(|x| Val::Int(x as i128)),
                    "int64" => wire::read_i64(b).map(|x| Val::Int(x as i128)),
                    "uint64" => wire::read_u64(b).map(|x| Val::Int(x as i128)),
                    "varint32" => wire::read_varint_as_i32(b).map(|x| Val::Int(x as i128)),
                    "varuint32" => wire::read_varuint_as_u32(b).map(|x| Val::Int(x as i128)),
                    "varint62" => wire::read_varint(b).map(|x| Val::Int(x as i128)),
                    "varuint62" => wire::read_varuint(b).map(|x| Val::Int(x as i128)),
                    "string" => wire::read_string(b).map(Val::Str),
                    "float32" => wire::read_u32(b).map(|x| Val::Int(x as i128)),
                    "float64" => wire::read_u64(b).map(|x| Val::Int(x as i128)),
                    _ => None,
                };
                v.ok_or_else(|| err(format!("cannot decode a {p}"), b))
            }
            TypeK::Seq(e) => {
                let n = wire::read_size(b).ok_or_else(|| err("truncated sequence size".into(), b))?;
                if e.optional {
                    return Err(err("sequences of optionals are not expected in the Compiler schema".into(), b));
                }
                let mut out = Vec::new();
                for i in 0..n {
                    out.push(self.value(e, b, total, &format!("{at}[{i}]"))?);
                }
                Ok(Val::Seq(out))
            }
            TypeK::Dict(k, v) => {
                let n = wire::read_size(b).ok_or_else(|| err("truncated dictionary size".into(), b))?;
                let mut out = Vec::new();
                for i in 0..n {
                    let kk = self.value(k, b, total, &format!("{at}{{key {i}}}"))?;
                    let vv = self.value(v, b, total, &format!("{at}{{value {i}}}"))?;
                    out.push((kk, vv));
                }
                Ok(Val::Dict(out))
            }
            TypeK::Result(..) => Err(err("results are not expected in the Compiler schema".into(), b)),
            TypeK::Named(n) => {
                let Some((scoped, def)) = self.named(n) else {
                    return Err(err(format!("unknown schema type {n}"), b));
                };
                match def {
                    DefM::Struct(s) => {
                        if s.compact {
                            return Err(err(format!("{scoped}: compact structs are not expected in the Compiler schema"), b));
                        }
                        let fs = self.fields(scoped, &s.fields, b, total, at)?;
                        Ok(Val::Struct(scoped.to_owned(), fs))
                    }
                    DefM::Enum(e) => {
                        if let Some(u) = &e.underlying {
                            return self.value(u, b, total, at);
                        }
                        let d = wire::read_varint_as_i32(b).ok_or_else(|| err(format!("{scoped}: truncated discriminant"), b))? as i128;
                        let Some(en) = e.enumerators.iter().find(|x| x.effective == d) else {
                            return Err(err(format!("{scoped}: no enumerator has discriminant {d}"), b));
                        };
                        let empty = Vec::new();
                        let fields = en.fields.as_ref().unwrap_or(&empty);
                        let fs = if e.compact {
                            return Err(err(format!("{scoped}: compact enums are not expected in the Compiler schema"), b));
                        } else {
                            self.fields(&format!("{scoped}::{}", en.name), fields, b, total, &format!("{at}<{}>", en.name))?
                        };
                        Ok(Val::Variant(scoped.to_owned(), en.name.clone(), d, fs))
                    }
                    DefM::Custom(_) | DefM::Interface(_) | DefM::Alias(_) => Err(err(format!("{scoped}: unexpected kind in a value position"), b)),
                }
            }
        }
    }

    /// Decodes the whole byte stream a generator receives: operation name, the parameters of
    /// `Compiler::CodeGenerator::generateCode` in order.  Returns the values by parameter name;
    /// it is an error if bytes are left over.
    pub fn decode_request(&self, bytes: &[u8]) -> Result<(String, Vec<(String, Val)>), DecodeError> {
        let total = bytes.len();
        let mut b = bytes;
        let name = wire::read_string(&mut b).ok_or(DecodeError {
            at: "operation name".into(),
            what: "cannot decode the operation name".into(),
            offset: 0,
        })?;
        let Some(DefM::Interface(i)) = self.defs.get("Compiler::CodeGenerator") else {
            return Err(DecodeError {
                at: "schema".into(),
                what: "Compiler::CodeGenerator is not an interface".into(),
                offset: 0,
            });
        };
        let Some(op) = i.ops.iter().find(|o| o.name == name) else {
            return Err(DecodeError {
                at: "operation name".into(),
                what: format!("the schema has no operation named {name:?}"),
                offset: 0,
            });
        };
        let mut out = Vec::new();
        for p in &op.params {
            let v = self.value(&p.ty, &mut b, total, &p.name)?;
            out.push((p.name.clone(), v));
        }
        if !b.is_empty() {
            return Err(DecodeError {
                at: "end".into(),
                what: format!("{} bytes left over after the last parameter", b.len()),
                offset: total - b.len(),
            });
        }
        Ok((name, out))
    }
}

pub fn schema() -> &'static Schema {
    use std::sync::OnceLock;
    static S: OnceLock<Schema> = OnceLock::new();
    S.get_or_init(|| match Schema::load() {
        Ok(s) => s,
        Err(e) => {
            eprintln!("vcheck: cannot load the Compiler schema: {e}");
            std::process::exit(2);
        }
    })
}

// ------------------------------------------------------------------------------------------
// Interpretation of a decoded request as abstract files
// ------------------------------------------------------------------------------------------

#[derive(Clone, Debug, PartialEq, Eq)]
pub enum DocPart {
    Text(String),
    Link(String),
}

#[derive(Clone, Debug, PartialEq, Eq, Default)]
pub struct DecDoc {
    pub overview: Vec<DocPart>,
    pub see: Vec<String>,
}

#[derive(Clone, Debug, Default)]
pub struct DecFile {
    pub file: FileM,
    /// element path (relative to the file: `d0`, `d0/m1`, `d0/m1/p0`, `d0/m1/r0`, `d0/m1/m0`) -> comment
    pub docs: BTreeMap<String, DecDoc>,
    /// operations: path -> (has_streamed_parameter, has_streamed_return)
    pub streamed: BTreeMap<String, (bool, bool)>,
    /// number of symbols (anonymous + named)
    pub symbols: usize,
    pub anonymous: usize,
}

#[derive(Clone, Debug, Default)]
pub struct DecRequest {
    pub operation: String,
    pub sources: Vec<DecFile>,
    pub references: Vec<DecFile>,
    pub args: Vec<(String, String)>,
}

pub struct Interp<'a> {
    symbols: &'a [Val],
    /// kinds of all named definitions transmitted in any file: scoped id -> kind
    kinds: &'a HashMap<String, &'static str>,
    pub problems: Vec<String>,
}

fn attrs_of(v: Option<&Val>) -> Vec<AttrM> {
    v.and_then(|x| x.seq())
        .map(|s| {
            s.iter()
                .map(|a| AttrM {
                    directive: a.field("directive").and_then(|d| d.str()).unwrap_or("").to_owned(),
                    args: a
                        .field("args")
                        .and_then(|x| x.seq())
                        .map(|xs| xs.iter().map(|x| x.str().unwrap_or("").to_owned()).collect())
                        .unwrap_or_default(),
                })
                .collect()
        })
        .unwrap_or_default()
}

fn doc_of(info: &Val) -> Option<DecDoc> {
    let c = info.field("comment")?;
    let part = |m: &Val| -> DocPart {
        match m {
            Val::Variant(_, name, _, _) => {
                let v = m.field("v").and_then(|x| x.str()).unwrap_or("").to_owned();
                if name == "Link" {
                    DocPart::Link(v)
                } else {
                    DocPart::Text(v)
                }
            }
            _ => DocPart::Text("<not a message component>".into()),
        }
    };
    Some(DecDoc {
        overview: c.field("overview").and_then(|x| x.seq()).map(|v| v.iter().map(part).collect()).unwrap_or_default(),
        see: c
            .field("seeTags")
            .and_then(|x| x.seq())
            .map(|v| v.iter().map(|x| x.str().unwrap_or("").to_owned()).collect())
            .unwrap_or_default(),
    })
}

impl<'a> Interp<'a> {
    /// A `TypeRef` value used by the symbol at index `user`.
    fn type_ref(&mut self, v: &Val, user: usize, depth: usize) -> TypeM {
        let id = v.field("typeId").and_then(|x| x.str()).unwrap_or("").to_owned();
        let optional = v.field("isOptional").and_then(|x| x.bool()).unwrap_or(false);
        let attrs = attrs_of(v.field("typeAttributes"));
        let kind = if PRIMITIVES.contains(&id.as_str()) {
            TypeK::Prim(id)
        } else if let Ok(index) = id.parse::<usize>() {
            // a numeric id: an earlier anonymous-type symbol of the same file
            if index >= user {
                self.problems.push(format!("numeric type id {index} used by symbol {user} does not refer to an earlier symbol"));
                TypeK::Named(format!("@bad-index {index}"))
            } else if depth > 64 {
                self.problems.push("anonymous types nest deeper than 64".into());
                TypeK::Named("@too-deep".into())
            } else {
                match &self.symbols[index] {
                    Val::Variant(_, name, _, _) if name == "SequenceType" => {
                        let inner = self.symbols[index].field("v").cloned().unwrap_or(Val::Bool(false));
                        let e = inner.field("elementType").cloned().unwrap_or(Val::Bool(false));
                        TypeK::Seq(Box::new(self.type_ref(&e, index, depth + 1)))
                    }
                    Val::Variant(_, name, _, _) if name == "DictionaryType" => {
                        let inner = self.symbols[index].field("v").cloned().unwrap_or(Val::Bool(false));
                        let k = inner.field("keyType").cloned().unwrap_or(Val::Bool(false));
                        let vv = inner.field("valueType").cloned().unwrap_or(Val::Bool(false));
                        TypeK::Dict(Box::new(self.type_ref(&k, index, depth + 1)), Box::new(self.type_ref(&vv, index, depth + 1)))
                    }
                    Val::Variant(_, name, _, _) if name == "ResultType" => {
                        let inner = self.symbols[index].field("v").cloned().unwrap_or(Val::Bool(false));
                        let s = inner.field("successType").cloned().unwrap_or(Val::Bool(false));
                        let f = inner.field("failureType").cloned().unwrap_or(Val::Bool(false));
                        TypeK::Result(Box::new(self.type_ref(&s, index, depth + 1)), Box::new(self.type_ref(&f, index, depth + 1)))
                    }
                    other => {
                        let what = match other {
                            Val::Variant(_, n, _, _) => n.clone(),
                            _ => "?".into(),
                        };
                        self.problems.push(format!("numeric type id {index} refers to a {what}, not to an anonymous type"));
                        TypeK::Named(format!("@not-anonymous {index}"))
                    }
                }
            }
        } else {
            match self.kinds.get(&id) {
                Some(k) => TypeK::Named(format!("@{k} {id}")),
                None => {
                    self.problems.push(format!("type id {id:?} names nothing that is transmitted"));
                    TypeK::Named(format!("@missing {id}"))
                }
            }
        };
        TypeM { attrs, kind, optional }
    }

    fn field(&mut self, v: &Val, user: usize) -> (FieldM, Option<DecDoc>) {
        let info = v.field("entityInfo").cloned().unwrap_or(Val::Bool(false));
        let ty = v.field("dataType").cloned().unwrap_or(Val::Bool(false));
        (
            FieldM {
                pre: Prelude {
                    doc: vec![],
                    attrs: attrs_of(info.field("attributes")),
                    docm: None,
                },
                tag: v.field("tag").and_then(|x| x.int()),
                name: info.field("identifier").and_then(|x| x.str()).unwrap_or("").to_owned(),
                ty: self.type_ref(&ty, user, 0),
            },
            doc_of(&info),
        )
    }
}

fn info_of(v: &Val) -> (String, Vec<AttrM>, Option<DecDoc>) {
    let info = v.field("entityInfo").cloned().unwrap_or(Val::Bool(false));
    (
        info.field("identifier").and_then(|x| x.str()).unwrap_or("").to_owned(),
        attrs_of(info.field("attributes")),
        doc_of(&info),
    )
}

/// Kinds of all named definitions in the decoded files (for the closure check).
pub fn collect_kinds(files: &[&Val]) -> HashMap<String, &'static str> {
    let mut kinds = HashMap::new();
    for f in files {
        let module = f
            .field("moduleDeclaration")
            .and_then(|m| m.field("identifier"))
            .and_then(|x| x.str())
            .unwrap_or("")
            .to_owned();
        for s in f.field("contents").and_then(|x| x.seq()).map(|v| v.as_slice()).unwrap_or(&[]) {
            if let Val::Variant(_, name, _, _) = s {
                let kind = match name.as_str() {
                    "Interface" => "interface",
                    "BasicEnum" | "VariantEnum" => "enum",
                    "Struct" => "struct",
                    "CustomType" => "custom",
                    "TypeAlias" => "alias",
                    _ => continue,
                };
                if let Some(inner) = s.field("v") {
                    let (id, _, _) = info_of(inner);
                    kinds.insert(crate::refcheck::join(&module, &id), kind);
                }
            }
        }
    }
    kinds
}

pub fn interpret_file(f: &Val, kinds: &HashMap<String, &'static str>) -> (DecFile, Vec<String>) {
    let empty = Vec::new();
    let symbols = f.field("contents").and_then(|x| x.seq()).unwrap_or(&empty);
    let mut it = Interp {
        symbols,
        kinds,
        problems: Vec::new(),
    };
    let module_v = f.field("moduleDeclaration").cloned().unwrap_or(Val::Bool(false));
    let mut out = DecFile {
        file: FileM {
            path: f.field("path").and_then(|x| x.str()).unwrap_or("").to_owned(),
            file_attrs: attrs_of(f.field("attributes")),
            module: Some(ModuleM {
                attrs: attrs_of(module_v.field("attributes")),
                path: module_v
                    .field("identifier")
                    .and_then(|x| x.str())
                    .unwrap_or("")
                    .split("::")
                    .map(|s| s.to_owned())
                    .collect(),
            }),
            defs: Vec::new(),
        },
        symbols: symbols.len(),
        ..Default::default()
    };
    for (si, s) in symbols.iter().enumerate() {
        let Val::Variant(_, name, _, _) = s else { continue };
        let Some(inner) = s.field("v") else { continue };
        let dp = format!("d{}", out.file.defs.len());
        match name.as_str() {
            "SequenceType" | "DictionaryType" | "ResultType" => {
                out.anonymous += 1;
            }
            "Struct" => {
                let (id, attrs, doc) = info_of(inner);
                if let Some(d) = doc {
                    out.docs.insert(dp.clone(), d);
                }
                let mut fields = Vec::new();
                for (k, fv) in inner.field("fields").and_then(|x| x.seq()).unwrap_or(&empty).iter().enumerate() {
                    let (fm, fd) = it.field(fv, si);
                    if let Some(d) = fd {
                        out.docs.insert(format!("{dp}/m{k}"), d);
                    }
                    fields.push(fm);
                }
                out.file.defs.push(DefM::Struct(StructM {
                    pre: Prelude { doc: vec![], attrs, docm: None, },
                    compact: inner.field("isCompact").and_then(|x| x.bool()).unwrap_or(false),
                    name: id,
                    fields,
                }));
            }
            "Interface" => {
                let (id, attrs, doc) = info_of(inner);
                if let Some(d) = doc {
                    out.docs.insert(dp.clone(), d);
                }
                let bases: Vec<TypeM> = inner
                    .field("bases")
                    .and_then(|x| x.seq())
                    .unwrap_or(&empty)
                    .iter()
                    .map(|b| {
                        let id = b.str().unwrap_or("").to_owned();
                        if kinds.get(&id) != Some(&"interface") {
                            it.problems.push(format!("base {id:?} names no transmitted interface"));
                        }
                        TypeM {
                            attrs: vec![],
                            kind: TypeK::Named(format!("@interface {id}")),
                            optional: false,
                        }
                    })
                    .collect();
                let mut ops = Vec::new();
                for (k, ov) in inner.field("operations").and_then(|x| x.seq()).unwrap_or(&empty).iter().enumerate() {
                    let op_path = format!("{dp}/m{k}");
                    let (oid, oattrs, odoc) = info_of(ov);
                    if let Some(d) = odoc {
                        out.docs.insert(op_path.clone(), d);
                    }
                    let mut to_params = |list: Option<&Val>, prefix: &str, it: &mut Interp, out: &mut DecFile| -> Vec<ParamM> {
                        list.and_then(|x| x.seq())
                            .unwrap_or(&empty)
                            .iter()
                            .enumerate()
                            .map(|(q, pv)| {
                                let (fm, fd) = it.field(pv, si);
                                if let Some(d) = fd {
                                    out.docs.insert(format!("{op_path}/{prefix}{q}"), d);
                                }
                                ParamM {
                                    pre: fm.pre,
                                    tag: fm.tag,
                                    name: fm.name,
                                    stream: false,
                                    ty: fm.ty,
                                }
                            })
                            .collect()
                    };
                    let mut params = to_params(ov.field("parameters"), "p", &mut it, &mut out);
                    let mut rets = to_params(ov.field("returnType"), "r", &mut it, &mut out);
                    let hsp = ov.field("hasStreamedParameter").and_then(|x| x.bool()).unwrap_or(false);
                    let hsr = ov.field("hasStreamedReturn").and_then(|x| x.bool()).unwrap_or(false);
                    out.streamed.insert(op_path.clone(), (hsp, hsr));
                    if hsp {
                        if let Some(l) = params.last_mut() {
                            l.stream = true;
                        }
                    }
                    if hsr {
                        if let Some(l) = rets.last_mut() {
                            l.stream = true;
                        }
                    }
                    let ret = match rets.len() {
                        0 => RetM::None,
                        1 => {
                            let mut only = rets.into_iter().next().unwrap();
                            only.name = String::new();
                            RetM::Single(Box::new(only))
                        }
                        _ => RetM::Tuple(rets),
                    };
                    ops.push(OpM {
                        pre: Prelude { doc: vec![], attrs: oattrs, docm: None, },
                        idempotent: ov.field("isIdempotent").and_then(|x| x.bool()).unwrap_or(false),
                        name: oid,
                        params,
                        ret,
                    });
                }
                out.file.defs.push(DefM::Interface(InterfaceM {
                    pre: Prelude { doc: vec![], attrs, docm: None, },
                    name: id,
                    bases,
                    ops,
                }));
            }
            "BasicEnum" => {
                let (id, attrs, doc) = info_of(inner);
                if let Some(d) = doc {
                    out.docs.insert(dp.clone(), d);
                }
                let underlying = inner.field("underlying").and_then(|x| x.str()).unwrap_or("").to_owned();
                let mut enumerators = Vec::new();
                for (k, ev) in inner.field("enumerators").and_then(|x| x.seq()).unwrap_or(&empty).iter().enumerate() {
                    let (eid, eattrs, edoc) = info_of(ev);
                    if let Some(d) = edoc {
                        out.docs.insert(format!("{dp}/m{k}"), d);
                    }
                    let abs = ev.field("absoluteValue").and_then(|x| x.int()).unwrap_or(0);
                    let neg = ev.field("hasNegativeValue").and_then(|x| x.bool()).unwrap_or(false);
                    let value = if neg { -abs } else { abs };
                    enumerators.push(EnumeratorM {
                        pre: Prelude { doc: vec![], attrs: eattrs, docm: None, },
                        name: eid,
                        fields: None,
                        value: None,
                        effective: value,
                    });
                }
                out.file.defs.push(DefM::Enum(EnumM {
                    pre: Prelude { doc: vec![], attrs, docm: None, },
                    compact: false,
                    unchecked: inner.field("isUnchecked").and_then(|x| x.bool()).unwrap_or(false),
                    name: id,
                    underlying: Some(TypeM {
                        attrs: vec![],
                        kind: TypeK::Prim(underlying),
                        optional: false,
                    }),
                    enumerators,
                }));
            }
            "VariantEnum" => {
                let (id, attrs, doc) = info_of(inner);
                if let Some(d) = doc {
                    out.docs.insert(dp.clone(), d);
                }
                let mut enumerators = Vec::new();
                for (k, ev) in inner.field("variants").and_then(|x| x.seq()).unwrap_or(&empty).iter().enumerate() {
                    let (eid, eattrs, edoc) = info_of(ev);
                    if let Some(d) = edoc {
                        out.docs.insert(format!("{dp}/m{k}"), d);
                    }
                    let mut fields = Vec::new();
                    for (q, fv) in ev.field("fields").and_then(|x| x.seq()).unwrap_or(&empty).iter().enumerate() {
                        let (fm, fd) = it.field(fv, si);
                        if let Some(d) = fd {
                            out.docs.insert(format!("{dp}/m{k}/m{q}"), d);
                        }
                        fields.push(fm);
                    }
                    enumerators.push(EnumeratorM {
                        pre: Prelude { doc: vec![], attrs: eattrs, docm: None, },
                        name: eid,
                        // the request does not distinguish `A` from `A()`
                        fields: Some(fields),
                        value: None,
                        effective: ev.field("discriminant").and_then(|x| x.int()).unwrap_or(-1),
                    });
                }
                out.file.defs.push(DefM::Enum(EnumM {
                    pre: Prelude { doc: vec![], attrs, docm: None, },
                    compact: inner.field("isCompact").and_then(|x| x.bool()).unwrap_or(false),
                    unchecked: inner.field("isUnchecked").and_then(|x| x.bool()).unwrap_or(false),
                    name: id,
                    underlying: None,
                    enumerators,
                }));
            }
            "CustomType" => {
                let (id, attrs, doc) = info_of(inner);
                if let Some(d) = doc {
                    out.docs.insert(dp.clone(), d);
                }
                out.file.defs.push(DefM::Custom(CustomM {
                    pre: Prelude { doc: vec![], attrs, docm: None, },
                    name: id,
                }));
            }
            "TypeAlias" => {
                let (id, attrs, doc) = info_of(inner);
                if let Some(d) = doc {
                    out.docs.insert(dp.clone(), d);
                }
                let ty = inner.field("underlyingType").cloned().unwrap_or(Val::Bool(false));
                let ty = it.type_ref(&ty, si, 0);
                out.file.defs.push(DefM::Alias(AliasM {
                    pre: Prelude { doc: vec![], attrs, docm: None, },
                    name: id,
                    ty,
                }));
            }
            other => it.problems.push(format!("unknown symbol kind {other}")),
        }
    }
    (out, it.problems)
}

/// Decodes and interprets what a generator received.  `Err` carries the decode problem, the
/// second component the semantic problems (dangling ids ...).
pub fn decode_and_interpret(bytes: &[u8]) -> Result<(DecRequest, Vec<String>), DecodeError> {
    let (operation, params) = schema().decode_request(bytes)?;
    let get = |n: &str| params.iter().find(|p| p.0 == n).map(|p| &p.1);
    let empty = Vec::new();
    let src = get("sourceFiles").and_then(|x| x.seq()).unwrap_or(&empty);
    let refs = get("referenceFiles").and_then(|x| x.seq()).unwrap_or(&empty);
    let all: Vec<&Val> = src.iter().chain(refs.iter()).collect();
    let kinds = collect_kinds(&all);
    let mut problems = Vec::new();
    let mut conv = |v: &Vec<Val>| -> Vec<DecFile> {
        v.iter()
            .map(|f| {
                let (d, p) = interpret_file(f, &kinds);
                problems.extend(p.into_iter().map(|x| format!("{}: {x}", d.file.path)));
                d
            })
            .collect()
    };
    let sources = conv(src);
    let references = conv(refs);
    let args = match get("args") {
        Some(Val::Dict(v)) => v
            .iter()
            .map(|(k, v)| (k.str().unwrap_or("").to_owned(), v.str().unwrap_or("").to_owned()))
            .collect(),
        _ => Vec::new(),
    };
    Ok((
        DecRequest {
            operation,
            sources,
            references,
            args,
        },
        problems,
    ))
}
