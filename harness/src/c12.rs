//! C12 — output targets act as an append-only byte log with safe reservations; input sources
//! never yield bytes outside the buffer and peeks never consume.
//!
//! Oracle: lock-step with a reference model written from the statement — a byte log, a position,
//! a list of reservations (ranges shrinking from the front), a capacity for the fixed-slice target;
//! a buffer and a position for input sources.
//!
//!  * after every operation the result (`Ok` / `Err`) equals the model's and `remaining()` agrees
//!    (fixed-slice target and input source; the growable target's `remaining()` is spare capacity,
//!    which the statement leaves to the allocator — it is called, never compared);
//!  * the *contents* can only be read once the target's borrow has ended, so every prefix of a
//!    history is replayed on a fresh target and the underlying buffer is compared with the model's
//!    log (a failing operation changes neither contents nor position; reservations fill front to
//!    back and never touch a byte outside themselves; the growable target zero-fills reservations);
//!  * the slice handed to the fixed target lies between canary regions (or flush against a
//!    PROT_NONE page) that must be intact;
//!  * input sources return exactly `buf[pos..pos+k]`, the buffer ends at a PROT_NONE page.
//!
//! Leniencies (statement silent): bytes of a fixed-slice reservation that were never written may
//! hold the slice's previous content or zero; after a *failing* `read_bytes_into_exact` the trait
//! documentation explicitly gives no guarantee about the amount consumed, so the model re-reads the
//! position there (it must not move backwards or past the end) and the destination is not compared.
//!
//! Families: `out-exhaustive` / `in-exhaustive` (every history of length <= 4 quick / <= 5 thorough
//! with sizes 0..=3 on capacities 0..=4), `out-random` / `in-random` (choice sequences: up to 200
//! operations, sizes to 4 KiB, exact-fit / one-too-many sizes, `usize::MAX`-like sizes), `direct`
//! (replay only: the textual history, e.g. `slice 4: r 2; w 1; wr 0 1; wr 0 2; rem`).

use crate::engine::*;
use crate::guard::{self, CanaryBuf};
use crate::{check, fail};
use arbitrary::Unstructured;
use serde_json::json;
use slice_codec::buffer::slice::{SliceInputSource, SliceOutputTarget};
use slice_codec::buffer::vec::VecOutputTarget;
use slice_codec::buffer::{InputSource, OutputTarget, Reservation};

pub struct C12;

// ------------------------------------------------------------------------------------------
// Histories
// ------------------------------------------------------------------------------------------

#[derive(Clone, Debug, PartialEq)]
enum Op {
    WriteByte,
    WriteBytes(usize),
    Reserve(usize),
    /// (index into the reservations created so far, number of bytes)
    WriteReserved(usize, usize),
    Remaining,
}

#[derive(Clone, Debug, PartialEq)]
enum Target {
    /// fixed slice of `cap` bytes between canaries
    Slice { cap: usize },
    /// fixed slice of `cap` bytes whose end is a PROT_NONE page (canary in front)
    SliceGuard { cap: usize },
    /// growable target: `init` bytes already in a vector of capacity `capacity` (>= init)
    Vec { init: usize, capacity: usize },
}

#[derive(Clone, Debug, PartialEq)]
enum InOp {
    PeekByte,
    ReadByte,
    PeekArr(usize),
    ReadArr(usize),
    PeekSlice(usize),
    ReadSlice(usize),
    ReadInto(usize),
    Remaining,
}

const ARR_SIZES: [usize; 8] = [0, 1, 2, 3, 4, 8, 16, 32];

fn size_text(k: usize) -> String {
    if k > usize::MAX - 4096 {
        if k == usize::MAX {
            "max".into()
        } else {
            format!("max-{}", usize::MAX - k)
        }
    } else {
        k.to_string()
    }
}

fn parse_size(s: &str) -> Option<usize> {
    if s == "max" {
        Some(usize::MAX)
    } else if let Some(d) = s.strip_prefix("max-") {
        d.parse::<usize>().ok().map(|d| usize::MAX - d)
    } else {
        s.parse().ok()
    }
}

fn out_text(t: &Target, ops: &[Op]) -> String {
    let head = match t {
        Target::Slice { cap } => format!("slice {cap}"),
        Target::SliceGuard { cap } => format!("slice-guard {cap}"),
        Target::Vec { init, capacity } => format!("vec {init} {capacity}"),
    };
    let body: Vec<String> = ops
        .iter()
        .map(|o| match o {
            Op::WriteByte => "wb".into(),
            Op::WriteBytes(k) => format!("w {}", size_text(*k)),
            Op::Reserve(k) => format!("r {}", size_text(*k)),
            Op::WriteReserved(r, k) => format!("wr {r} {}", size_text(*k)),
            Op::Remaining => "rem".into(),
        })
        .collect();
    format!("{head}: {}", body.join("; "))
}

fn in_text(len: usize, ops: &[InOp]) -> String {
    let body: Vec<String> = ops
        .iter()
        .map(|o| match o {
            InOp::PeekByte => "pb".into(),
            InOp::ReadByte => "rb".into(),
            InOp::PeekArr(n) => format!("pa {n}"),
            InOp::ReadArr(n) => format!("ra {n}"),
            InOp::PeekSlice(k) => format!("ps {}", size_text(*k)),
            InOp::ReadSlice(k) => format!("rs {}", size_text(*k)),
            InOp::ReadInto(k) => format!("ri {}", size_text(*k)),
            InOp::Remaining => "rem".into(),
        })
        .collect();
    format!("in {len}: {}", body.join("; "))
}

enum Parsed {
    Out(Target, Vec<Op>),
    In(usize, Vec<InOp>),
}

/// Parses the textual history of the `direct` family (see module comment); None = malformed.
fn parse_history(text: &str) -> Option<Parsed> {
    let (head, body) = text.split_once(':')?;
    let h: Vec<&str> = head.split_whitespace().collect();
    let items: Vec<Vec<&str>> = body
        .split(';')
        .map(|s| s.split_whitespace().collect::<Vec<_>>())
        .filter(|v| !v.is_empty())
        .collect();
    let limit = |k: usize| k <= (1 << 20) || k > usize::MAX / 2; // no gigantic real allocations from a replay file
    match h.as_slice() {
        ["in", len] => {
            let len: usize = len.parse().ok().filter(|l| *l <= 1 << 20)?;
            let mut ops = Vec::new();
            for it in items {
                ops.push(match it.as_slice() {
                    ["pb"] => InOp::PeekByte,
                    ["rb"] => InOp::ReadByte,
                    ["pa", n] => InOp::PeekArr(n.parse().ok().filter(|n| ARR_SIZES.contains(n))?),
                    ["ra", n] => InOp::ReadArr(n.parse().ok().filter(|n| ARR_SIZES.contains(n))?),
                    ["ps", k] => InOp::PeekSlice(parse_size(k)?),
                    ["rs", k] => InOp::ReadSlice(parse_size(k)?),
                    ["ri", k] => InOp::ReadInto(parse_size(k).filter(|k| *k <= 1 << 20)?),
                    ["rem"] => InOp::Remaining,
                    _ => return None,
                });
            }
            Some(Parsed::In(len, ops))
        }
        _ => {
            let target = match h.as_slice() {
                ["slice", cap] => Target::Slice { cap: cap.parse().ok().filter(|c| *c <= 1 << 20)? },
                ["slice-guard", cap] => Target::SliceGuard { cap: cap.parse().ok().filter(|c| *c <= 1 << 20)? },
                ["vec", init, capacity] => {
                    let init: usize = init.parse().ok().filter(|c| *c <= 1 << 20)?;
                    let capacity: usize = capacity.parse().ok().filter(|c| *c <= 1 << 20)?;
                    Target::Vec { init, capacity: capacity.max(init) }
                }
                _ => return None,
            };
            let mut ops = Vec::new();
            for it in items {
                ops.push(match it.as_slice() {
                    ["wb"] => Op::WriteByte,
                    ["w", k] => Op::WriteBytes(parse_size(k).filter(|k| *k <= 1 << 20)?),
                    ["r", k] => Op::Reserve(parse_size(k).filter(|k| limit(*k))?),
                    ["wr", r, k] => Op::WriteReserved(r.parse().ok()?, parse_size(k).filter(|k| *k <= 1 << 20)?),
                    ["rem"] => Op::Remaining,
                    _ => return None,
                });
            }
            Some(Parsed::Out(target, ops))
        }
    }
}

/// The bytes an operation writes: a pure function of (step, offset), never zero (zero is what
/// the growable target fills reservations with) and never the initial filler values.
fn data_byte(step: usize, j: usize) -> u8 {
    1 + ((step * 37 + j * 11 + 5) % 199) as u8
}

fn data(step: usize, k: usize) -> Vec<u8> {
    (0..k).map(|j| data_byte(step, j)).collect()
}

/// Initial content of a fixed slice (what "untouched" looks like) / of the vector.
fn slice_filler(i: usize) -> u8 {
    0xE0 | (i as u8 & 0x0F)
}
fn vec_initial(i: usize) -> u8 {
    0xD0 | (i as u8 & 0x0F)
}

// ------------------------------------------------------------------------------------------
// Reference model of an output target
// ------------------------------------------------------------------------------------------

#[derive(Clone, Copy, PartialEq, Debug)]
enum Cell {
    /// must hold exactly this byte
    Is(u8),
    /// fixed-slice reservation byte not yet written: previous content or zero
    Reserved(u8),
}

struct OutModel {
    fixed: bool,
    /// fixed: every byte of the slice; growable: initial content followed by the log
    cells: Vec<Cell>,
    /// next write position (growable: == cells.len())
    pos: usize,
    /// still-unwritten range of every reservation created so far
    res: Vec<(usize, usize)>,
}

impl OutModel {
    fn new(t: &Target) -> OutModel {
        match t {
            Target::Slice { cap } | Target::SliceGuard { cap } => OutModel {
                fixed: true,
                cells: (0..*cap).map(|i| Cell::Is(slice_filler(i))).collect(),
                pos: 0,
                res: Vec::new(),
            },
            Target::Vec { init, .. } => OutModel {
                fixed: false,
                cells: (0..*init).map(|i| Cell::Is(vec_initial(i))).collect(),
                pos: *init,
                res: Vec::new(),
            },
        }
    }

    fn fits(&self, k: usize) -> bool {
        if self.fixed {
            k <= self.cells.len() - self.pos
        } else {
            // a vector cannot exceed isize::MAX bytes; the generators produce either small sizes or
            // sizes far beyond that limit, nothing that depends on the amount of free memory
            k <= (isize::MAX as usize).saturating_sub(self.pos)
        }
    }

    fn append(&mut self, bytes: &[u8]) {
        for (j, b) in bytes.iter().enumerate() {
            if self.fixed {
                self.cells[self.pos + j] = Cell::Is(*b);
            } else {
                self.cells.push(Cell::Is(*b));
            }
        }
        self.pos += bytes.len();
    }

    /// Applies `op` (at history position `step`); returns Some(expected ok?) or None if the op is
    /// void (a reserved write when no reservation exists yet).
    fn apply(&mut self, step: usize, op: &Op) -> Option<bool> {
        match op {
            Op::WriteByte => {
                if !self.fits(1) {
                    return Some(false);
                }
                self.append(&[data_byte(step, 0)]);
                Some(true)
            }
            Op::WriteBytes(k) => {
                if !self.fits(*k) {
                    return Some(false);
                }
                self.append(&data(step, *k));
                Some(true)
            }
            Op::Reserve(k) => {
                if !self.fits(*k) {
                    return Some(false);
                }
                let start = self.pos;
                for j in 0..*k {
                    if self.fixed {
                        let old = match self.cells[start + j] {
                            Cell::Is(b) | Cell::Reserved(b) => b,
                        };
                        self.cells[start + j] = Cell::Reserved(old);
                    } else {
                        self.cells.push(Cell::Is(0));
                    }
                }
                self.pos += *k;
                self.res.push((start, start + *k));
                Some(true)
            }
            Op::WriteReserved(r, k) => {
                if self.res.is_empty() {
                    return None;
                }
                let r = *r % self.res.len();
                let (start, end) = self.res[r];
                if *k > end - start {
                    return Some(false);
                }
                for j in 0..*k {
                    self.cells[start + j] = Cell::Is(data_byte(step, j));
                }
                self.res[r].0 = start + *k;
                Some(true)
            }
            Op::Remaining => Some(true),
        }
    }

    fn remaining(&self) -> usize {
        self.cells.len() - self.pos
    }

    fn mismatch(&self, observed: &[u8]) -> Option<String> {
        let expected_len = self.cells.len();
        if observed.len() != expected_len {
            return Some(format!("length {} instead of {expected_len}", observed.len()));
        }
        for (i, (c, o)) in self.cells.iter().zip(observed).enumerate() {
            let ok = match c {
                Cell::Is(b) => o == b,
                Cell::Reserved(old) => o == old || *o == 0,
            };
            if !ok {
                return Some(format!("byte {i} is {o:#04x}, the log says {c:?}"));
            }
        }
        None
    }

    fn render(&self) -> String {
        let mut s = String::new();
        for c in self.cells.iter().take(64) {
            match c {
                Cell::Is(b) => s.push_str(&format!("{b:02x}")),
                Cell::Reserved(_) => s.push_str("??"),
            }
        }
        if self.cells.len() > 64 {
            s.push_str("...");
        }
        s
    }
}

// ------------------------------------------------------------------------------------------
// Running a history on the real targets
// ------------------------------------------------------------------------------------------

fn op_name(op: &Op) -> &'static str {
    match op {
        Op::WriteByte => "write_byte",
        Op::WriteBytes(_) => "write_bytes_exact",
        Op::Reserve(_) => "reserve_space",
        Op::WriteReserved(..) => "write_bytes_into_reserved_exact",
        Op::Remaining => "remaining",
    }
}

struct Expect {
    /// per op: None = void, Some(ok)
    ok: Vec<Option<bool>>,
    /// fixed target: remaining() after each op
    remaining: Vec<usize>,
}

/// Executes ops[..upto] on `t`, comparing results (and `remaining()` when `fixed`).
fn drive<O: OutputTarget>(t: &mut O, ops: &[Op], upto: usize, exp: &Expect, fixed: bool, tname: &str) -> CaseResult {
    let mut reservations: Vec<Reservation> = Vec::new();
    for (step, op) in ops.iter().enumerate().take(upto) {
        let Some(want_ok) = exp.ok[step] else { continue };
        let got_ok = match op {
            Op::WriteByte => t.write_byte(data_byte(step, 0)).is_ok(),
            Op::WriteBytes(k) => t.write_bytes_exact(&data(step, *k)).is_ok(),
            Op::Reserve(k) => match t.reserve_space(*k) {
                Ok(r) => {
                    reservations.push(r);
                    true
                }
                Err(_) => false,
            },
            Op::WriteReserved(r, k) => {
                let idx = *r % reservations.len();
                t.write_bytes_into_reserved_exact(&mut reservations[idx], &data(step, *k)).is_ok()
            }
            Op::Remaining => {
                let _ = t.remaining();
                true
            }
        };
        if got_ok != want_ok {
            let what = if want_ok { "refused-but-fits" } else { "accepted-but-does-not-fit" };
            fail!(
                format!("out/{tname}/{}/{what}", op_name(op)),
                "operation {} ({op:?}) returned {} but the model says {}",
                step + 1,
                if got_ok { "Ok" } else { "Err" },
                if want_ok { "Ok" } else { "Err" }
            );
        }
        if fixed {
            let rem = t.remaining();
            check!(
                rem == exp.remaining[step],
                format!("out/{tname}/remaining-after/{}{}", op_name(op), if want_ok { "" } else { "-failed" }),
                "after operation {} ({op:?}) remaining() is {rem}, the model says {}",
                step + 1,
                exp.remaining[step]
            );
        }
    }
    Ok(())
}

#[derive(Default)]
struct OutFacts {
    res_multi_piece: bool,
    res_overfull: bool,
    res_exhausted_reuse: bool,
    reserve_exact_remaining: bool,
    zero_length: bool,
    fail_then_succeed: bool,
    res_write_after_append: bool,
    realloc_between_reserve_and_fill: bool,
    huge: bool,
    failing_ops: usize,
}

/// The whole oracle for one output history.  `sample_all`: offer every non-trivial case as an
/// evidence sample (random families); otherwise only failing and feature-rich ones.
fn run_out_history(cx: &mut CaseCtx, target: &Target, ops: &[Op], sample_all: bool, slot: usize) -> CaseResult {
    let mut rich = false;
    let r = out_history_inner(cx, target, ops, &mut rich);
    // evidence samples: each family offers them on its own quarter of the shards (variety)
    if r.is_err() || cx.strict || ((sample_all || rich) && cx.shard % 4 == slot) {
        cx.sample_with(|| json!({"history": out_text(target, ops)}));
    }
    r
}

fn out_history_inner(cx: &mut CaseCtx, target: &Target, ops: &[Op], rich: &mut bool) -> CaseResult {
    let text = out_text(target, ops);
    let tname = match target {
        Target::Slice { .. } | Target::SliceGuard { .. } => "slice",
        Target::Vec { .. } => "vec",
    };
    let fixed = tname == "slice";

    // pass 1: the model alone -> expected results, facts for labels
    let mut facts = OutFacts::default();
    let mut exp = Expect { ok: Vec::new(), remaining: Vec::new() };
    {
        let mut m = OutModel::new(target);
        // per reservation: (pieces written, position of the log when it was created, step created)
        let mut pieces: Vec<(usize, usize, usize)> = Vec::new();
        let mut failed_before = false;
        for (step, op) in ops.iter().enumerate() {
            let before_pos = m.pos;
            let before_remaining = m.remaining();
            let exhausted_target = match op {
                Op::WriteReserved(r, _) if !m.res.is_empty() => {
                    let (s, e) = m.res[*r % m.res.len()];
                    s == e && e > 0 && pieces[*r % m.res.len()].0 > 0
                }
                _ => false,
            };
            let r = m.apply(step, op);
            exp.ok.push(r);
            exp.remaining.push(m.remaining());
            match (op, r) {
                (_, None) => {}
                (Op::Remaining, _) => {}
                (_, Some(false)) => {
                    facts.failing_ops += 1;
                    failed_before = true;
                    if let Op::WriteReserved(..) = op {
                        facts.res_overfull = true;
                    }
                    if let Op::Reserve(k) = op {
                        facts.huge |= *k > usize::MAX / 2;
                    }
                }
                (_, Some(true)) => {
                    if failed_before {
                        facts.fail_then_succeed = true;
                    }
                    match op {
                        Op::WriteBytes(0) | Op::Reserve(0) | Op::WriteReserved(_, 0) => facts.zero_length = true,
                        _ => {}
                    }
                    match op {
                        Op::Reserve(k) => {
                            pieces.push((0, before_pos + *k, step));
                            if fixed && *k > 0 && *k == before_remaining {
                                facts.reserve_exact_remaining = true;
                            }
                        }
                        Op::WriteReserved(r, k) => {
                            let idx = *r % pieces.len();
                            if exhausted_target {
                                facts.res_exhausted_reuse = true;
                            }
                            if *k > 0 {
                                pieces[idx].0 += 1;
                                if pieces[idx].0 >= 2 {
                                    facts.res_multi_piece = true;
                                }
                                if m.pos > pieces[idx].1 {
                                    facts.res_write_after_append = true;
                                }
                            }
                        }
                        _ => {}
                    }
                }
            }
        }
    }

    // pass 2: every prefix on a fresh target, contents compared once the borrow has ended
    let mut model = OutModel::new(target);
    let mut caps: Vec<usize> = Vec::new(); // growable target: capacity after each prefix
    for p in 1..=ops.len() {
        let applied = model.apply(p - 1, &ops[p - 1]);
        debug_assert_eq!(applied, exp.ok[p - 1]);
        if applied.is_none() || matches!(ops[p - 1], Op::Remaining) && p != ops.len() {
            // nothing can have changed that the next prefix does not show as well
            if let Target::Vec { .. } = target {
                caps.push(caps.last().copied().unwrap_or(0));
            }
            continue;
        }
        let last = &ops[p - 1];
        let after = format!("{}{}", op_name(last), if applied == Some(false) { "-failed" } else { "" });
        match target {
            Target::Slice { cap } => {
                let mut cb = CanaryBuf::new(*cap, slice_filler);
                {
                    let mut t = SliceOutputTarget::from(cb.inner_mut());
                    drive(&mut t, ops, p, &exp, true, tname)?;
                }
                if let Err(why) = cb.check() {
                    fail!(format!("out/slice/canary-after/{after}"), "after {p} operations: {why}");
                }
                if let Some(why) = model.mismatch(cb.inner()) {
                    fail!(
                        format!("out/slice/contents-after/{after}"),
                        "after {p} operations ({last:?} last): {why}\n expected {}\n observed {}",
                        model.render(),
                        to_hex(&cb.inner()[..cb.inner().len().min(64)])
                    );
                }
            }
            Target::SliceGuard { cap } => {
                let pad = guard::CANARY_PAD;
                guard::with_arena(*cap + pad, |arena| -> CaseResult {
                    let cap = *cap;
                    let region = arena.place_with(cap + pad, |i| if i < pad { 0xA7 } else { slice_filler(i - pad) });
                    let (front, slice) = region.split_at_mut(pad);
                    {
                        let mut t = SliceOutputTarget::from(&mut *slice);
                        drive(&mut t, ops, p, &exp, true, tname)?;
                    }
                    if let Some(i) = front.iter().position(|b| *b != 0xA7) {
                        fail!(
                            format!("out/slice/canary-after/{after}"),
                            "after {p} operations: byte {} before the start of the slice was overwritten",
                            pad - i
                        );
                    }
                    if let Some(why) = model.mismatch(slice) {
                        fail!(
                            format!("out/slice/contents-after/{after}"),
                            "after {p} operations ({last:?} last): {why}\n expected {}\n observed {}",
                            model.render(),
                            to_hex(&slice[..slice.len().min(64)])
                        );
                    }
                    Ok(())
                })?;
            }
            Target::Vec { init, capacity } => {
                let mut v: Vec<u8> = Vec::with_capacity(*capacity);
                for i in 0..*init {
                    v.push(vec_initial(i));
                }
                {
                    let mut t = VecOutputTarget::from(&mut v);
                    drive(&mut t, ops, p, &exp, false, tname)?;
                }
                caps.push(v.capacity());
                if let Some(why) = model.mismatch(&v) {
                    fail!(
                        format!("out/vec/contents-after/{after}"),
                        "after {p} operations ({last:?} last): {why}\n expected {}\n observed {}",
                        model.render(),
                        to_hex(&v[..v.len().min(64)])
                    );
                }
            }
        }
    }

    // growable target: did the vector reallocate between a reservation and a later fill?
    if let Target::Vec { capacity, .. } = target {
        let cap_after = |p: usize| -> usize {
            if p == 0 {
                *capacity
            } else {
                caps.get(p - 1).copied().filter(|c| *c != 0).unwrap_or(*capacity)
            }
        };
        let mut created_at: Vec<usize> = Vec::new();
        for (step, op) in ops.iter().enumerate() {
            match (op, exp.ok[step]) {
                (Op::Reserve(_), Some(true)) => created_at.push(step),
                (Op::WriteReserved(r, k), Some(true)) if *k > 0 => {
                    let c = created_at[*r % created_at.len()];
                    if cap_after(c + 1) != cap_after(step) && cap_after(step) != 0 {
                        facts.realloc_between_reserve_and_fill = true;
                    }
                }
                _ => {}
            }
        }
    }

    cx.nontrivial = facts.res_write_after_append || facts.fail_then_succeed;
    *rich = facts.res_write_after_append && (facts.res_multi_piece || facts.fail_then_succeed);
    cx.key = hash64(&text);
    cx.label(format!("target/{tname}"));
    cx.label_if(facts.res_multi_piece, "reservation-written-in-pieces");
    cx.label_if(facts.res_overfull, "reservation-overfull-write");
    cx.label_if(facts.res_exhausted_reuse, "reservation-exhausted-then-used");
    cx.label_if(facts.reserve_exact_remaining, "reserve-exactly-remaining-capacity");
    cx.label_if(facts.zero_length, "zero-length-op");
    cx.label_if(facts.fail_then_succeed, "failing-op-mid-history");
    cx.label_if(facts.res_write_after_append, "reservation-filled-after-later-append");
    cx.label_if(facts.realloc_between_reserve_and_fill, "vec-realloc-between-reserve-and-fill");
    cx.label_if(facts.huge, "huge-size-refused");
    cx.label_if(matches!(target, Target::SliceGuard { .. }), "slice-at-guard-page");
    Ok(())
}

// ------------------------------------------------------------------------------------------
// Input sources
// ------------------------------------------------------------------------------------------

fn in_byte(i: usize) -> u8 {
    (i as u8).wrapping_mul(73).wrapping_add(19)
}

fn in_op_name(op: &InOp) -> &'static str {
    match op {
        InOp::PeekByte => "peek_byte",
        InOp::ReadByte => "read_byte",
        InOp::PeekArr(_) => "peek_bytes_exact",
        InOp::ReadArr(_) => "read_bytes_exact",
        InOp::PeekSlice(_) => "peek_byte_slice_exact",
        InOp::ReadSlice(_) => "read_byte_slice_exact",
        InOp::ReadInto(_) => "read_bytes_into_exact",
        InOp::Remaining => "remaining",
    }
}

fn peek_arr(s: &mut SliceInputSource, n: usize) -> Option<Vec<u8>> {
    match n {
        0 => s.peek_bytes_exact::<0>().ok().map(|a| a.to_vec()),
        1 => s.peek_bytes_exact::<1>().ok().map(|a| a.to_vec()),
        2 => s.peek_bytes_exact::<2>().ok().map(|a| a.to_vec()),
        3 => s.peek_bytes_exact::<3>().ok().map(|a| a.to_vec()),
        4 => s.peek_bytes_exact::<4>().ok().map(|a| a.to_vec()),
        8 => s.peek_bytes_exact::<8>().ok().map(|a| a.to_vec()),
        16 => s.peek_bytes_exact::<16>().ok().map(|a| a.to_vec()),
        _ => s.peek_bytes_exact::<32>().ok().map(|a| a.to_vec()),
    }
}

fn read_arr(s: &mut SliceInputSource, n: usize) -> Option<Vec<u8>> {
    match n {
        0 => s.read_bytes_exact::<0>().ok().map(|a| a.to_vec()),
        1 => s.read_bytes_exact::<1>().ok().map(|a| a.to_vec()),
        2 => s.read_bytes_exact::<2>().ok().map(|a| a.to_vec()),
        3 => s.read_bytes_exact::<3>().ok().map(|a| a.to_vec()),
        4 => s.read_bytes_exact::<4>().ok().map(|a| a.to_vec()),
        8 => s.read_bytes_exact::<8>().ok().map(|a| a.to_vec()),
        16 => s.read_bytes_exact::<16>().ok().map(|a| a.to_vec()),
        _ => s.read_bytes_exact::<32>().ok().map(|a| a.to_vec()),
    }
}

fn run_in_history(cx: &mut CaseCtx, len: usize, ops: &[InOp], sample_all: bool, slot: usize) -> CaseResult {
    let mut rich = false;
    let r = in_history_inner(cx, len, ops, &mut rich);
    if r.is_err() || cx.strict || ((sample_all || rich) && cx.shard % 4 == slot) {
        cx.sample_with(|| json!({"history": in_text(len, ops)}));
    }
    r
}

fn in_history_inner(cx: &mut CaseCtx, len: usize, ops: &[InOp], rich: &mut bool) -> CaseResult {
    let text = in_text(len, ops);
    let mut peek_then_read = false;
    let mut fail_then_succeed = false;
    let mut read_to_exact_end = false;
    let mut zero_len = false;
    let mut huge = false;
    let mut failures = 0usize;
    guard::with_arena(len, |arena| -> CaseResult {
        let buf: &[u8] = arena.place_with(len, in_byte);
        let mut src = SliceInputSource::from(buf);
        let mut pos = 0usize; // the model
        let mut failed_before = false;
        let mut last_was_peek_ok = false;
        for (step, op) in ops.iter().enumerate() {
            let name = in_op_name(op);
            let rem = len - pos;
            // (k requested, consumes?)
            let (k, consumes) = match op {
                InOp::PeekByte => (1, false),
                InOp::ReadByte => (1, true),
                InOp::PeekArr(n) => (*n, false),
                InOp::ReadArr(n) => (*n, true),
                InOp::PeekSlice(k) => (*k, false),
                InOp::ReadSlice(k) => (*k, true),
                InOp::ReadInto(k) => (*k, true),
                InOp::Remaining => (0, false),
            };
            let want: Option<&[u8]> = if k <= rem { Some(&buf[pos..pos + k]) } else { None };
            let mut dest_canary_ok = Ok(());
            let got: Option<Vec<u8>> = match op {
                InOp::PeekByte => src.peek_byte().ok().map(|b| vec![b]),
                InOp::ReadByte => src.read_byte().ok().map(|b| vec![b]),
                InOp::PeekArr(n) => peek_arr(&mut src, *n),
                InOp::ReadArr(n) => read_arr(&mut src, *n),
                InOp::PeekSlice(k) => src.peek_byte_slice_exact(*k).ok().map(|s| s.to_vec()),
                InOp::ReadSlice(k) => src.read_byte_slice_exact(*k).ok().map(|s| s.to_vec()),
                InOp::ReadInto(k) => {
                    let mut dest = CanaryBuf::new(*k, |_| 0xDD);
                    let r = src.read_bytes_into_exact(dest.inner_mut());
                    dest_canary_ok = dest.check();
                    r.ok().map(|_| dest.inner().to_vec())
                }
                InOp::Remaining => Some(Vec::new()),
            };
            if let Err(why) = dest_canary_ok {
                fail!("in/read_bytes_into_exact/destination-canary", "operation {} ({op:?}): {why}", step + 1);
            }
            match (want, &got) {
                (Some(w), Some(g)) => {
                    check!(
                        w == &g[..],
                        format!("in/{name}/wrong-bytes"),
                        "operation {} ({op:?}) at position {pos} of a {len}-byte buffer returned {}, expected {}",
                        step + 1,
                        to_hex(&g[..g.len().min(64)]),
                        to_hex(&w[..w.len().min(64)])
                    );
                    if consumes {
                        pos += k;
                    }
                    if failed_before && !matches!(op, InOp::Remaining) {
                        fail_then_succeed = true;
                    }
                    if consumes && last_was_peek_ok && k > 0 {
                        peek_then_read = true;
                    }
                    if consumes && k > 0 && pos == len {
                        read_to_exact_end = true;
                    }
                    if k == 0 && !matches!(op, InOp::Remaining) {
                        zero_len = true;
                    }
                    last_was_peek_ok = !consumes && !matches!(op, InOp::Remaining) && k > 0;
                }
                (None, None) => {
                    failures += 1;
                    failed_before = true;
                    last_was_peek_ok = false;
                    huge |= k > usize::MAX / 2;
                    if let InOp::ReadInto(_) = op {
                        // documented: no guarantee about the amount consumed by a failing read_bytes_into_exact
                        let r = src.remaining();
                        check!(
                            r <= len - pos,
                            "in/read_bytes_into_exact/moved-backwards",
                            "operation {}: after the failing {op:?} remaining() grew from {} to {r}",
                            step + 1,
                            len - pos
                        );
                        pos = len - r;
                    }
                }
                (Some(w), None) => fail!(
                    format!("in/{name}/refused-but-available"),
                    "operation {} ({op:?}) at position {pos} of a {len}-byte buffer failed, {} bytes were available ({})",
                    step + 1,
                    len - pos,
                    to_hex(&w[..w.len().min(16)])
                ),
                (None, Some(g)) => fail!(
                    format!("in/{name}/yielded-beyond-buffer"),
                    "operation {} ({op:?}) at position {pos} of a {len}-byte buffer returned {} bytes, only {} remain",
                    step + 1,
                    g.len(),
                    len - pos
                ),
            }
            let r = src.remaining();
            check!(
                r == len - pos,
                format!("in/{name}/remaining-after{}", if want.is_some() { "" } else { "-failed" }),
                "after operation {} ({op:?}) remaining() is {r}, the model says {}",
                step + 1,
                len - pos
            );
        }
        Ok(())
    })?;
    cx.nontrivial = peek_then_read || fail_then_succeed;
    *rich = peek_then_read && fail_then_succeed && read_to_exact_end && zero_len;
    cx.key = hash64(&text);
    cx.label("target/input-source");
    cx.label_if(peek_then_read, "input/peek-then-read");
    cx.label_if(fail_then_succeed, "input/failing-read-then-success");
    cx.label_if(read_to_exact_end, "input/read-exactly-to-end");
    cx.label_if(zero_len, "input/zero-length-op");
    cx.label_if(huge, "input/huge-size-refused");
    cx.label_if(failures > 0, "input/failing-op");
    Ok(())
}

// ------------------------------------------------------------------------------------------
// Bounded-exhaustive enumeration
// ------------------------------------------------------------------------------------------

const OUT_ALPHABET: u64 = 18;
const IN_ALPHABET: u64 = 23;

fn out_op_from_digit(d: u64) -> Op {
    match d {
        0 => Op::WriteByte,
        1..=4 => Op::WriteBytes((d - 1) as usize),
        5..=8 => Op::Reserve((d - 5) as usize),
        9..=12 => Op::WriteReserved(0, (d - 9) as usize),
        // a second distinguished reservation: index 1 modulo the number created so far (the second
        // one, or the only one)
        13..=16 => Op::WriteReserved(1, (d - 13) as usize),
        _ => Op::Remaining,
    }
}

fn in_op_from_digit(d: u64) -> InOp {
    match d {
        0 => InOp::PeekByte,
        1 => InOp::ReadByte,
        2..=5 => InOp::PeekArr((d - 2) as usize),
        6..=9 => InOp::ReadArr((d - 6) as usize),
        10..=13 => InOp::PeekSlice((d - 10) as usize),
        14..=17 => InOp::ReadSlice((d - 14) as usize),
        18..=21 => InOp::ReadInto((d - 18) as usize),
        _ => InOp::Remaining,
    }
}

fn out_targets() -> Vec<Target> {
    let mut t: Vec<Target> = (0..=4).map(|cap| Target::Slice { cap }).collect();
    t.push(Target::Vec { init: 0, capacity: 0 });
    t.push(Target::Vec { init: 0, capacity: 2 });
    t.push(Target::Vec { init: 2, capacity: 2 });
    t.push(Target::Vec { init: 2, capacity: 3 });
    t
}

fn histories_up_to(alphabet: u64, max_len: u32) -> u64 {
    (0..=max_len).map(|l| alphabet.pow(l)).sum()
}

/// Histories ordered by length, then lexicographically; returns the digits.
fn nth_history(mut idx: u64, alphabet: u64) -> Vec<u64> {
    let mut len = 0u32;
    let mut count = 1u64;
    while idx >= count {
        idx -= count;
        len += 1;
        count *= alphabet;
    }
    let mut digits = vec![0u64; len as usize];
    for pos in (0..len as usize).rev() {
        digits[pos] = idx % alphabet;
        idx /= alphabet;
    }
    digits
}

fn out_exhaustive_case(cx: &mut CaseCtx, input: Input) -> CaseResult {
    let targets = out_targets();
    let idx = input.index();
    let t = &targets[(idx % targets.len() as u64) as usize];
    let ops: Vec<Op> = nth_history(idx / targets.len() as u64, OUT_ALPHABET).into_iter().map(out_op_from_digit).collect();
    run_out_history(cx, t, &ops, false, 0)
}

fn in_exhaustive_case(cx: &mut CaseCtx, input: Input) -> CaseResult {
    let idx = input.index();
    let len = (idx % 5) as usize;
    let ops: Vec<InOp> = nth_history(idx / 5, IN_ALPHABET).into_iter().map(in_op_from_digit).collect();
    run_in_history(cx, len, &ops, false, 1)
}

// ------------------------------------------------------------------------------------------
// Random histories
// ------------------------------------------------------------------------------------------

fn byte(u: &mut Unstructured) -> u8 {
    u.arbitrary::<u8>().unwrap_or(0)
}

fn small_or_large(u: &mut Unstructured) -> usize {
    let sel = byte(u) as usize;
    match sel {
        0..=149 => (sel * 9) / 150,                          // 0..=8
        150..=209 => 9 + ((sel - 150) * 56) / 60,            // 9..=64
        210..=239 => 65 + ((sel - 210) * 450) / 30,          // 65..=514
        _ => 515 + ((sel - 240) * 3582) / 16 + (byte(u) as usize % 8), // ..=4096+
    }
    .min(4096)
}

fn out_random_case(cx: &mut CaseCtx, input: Input) -> CaseResult {
    let mut u = Unstructured::new(input.bytes());
    let tsel = byte(&mut u);
    let target = match tsel {
        0..=79 => Target::Slice { cap: (byte(&mut u) as usize * 33) >> 8 },                  // 0..=32
        80..=119 => Target::Slice { cap: small_or_large(&mut u) * 2 },
        120..=149 => Target::SliceGuard { cap: if tsel & 1 == 0 { (byte(&mut u) as usize * 33) >> 8 } else { small_or_large(&mut u) * 2 } },
        _ => {
            let init = match byte(&mut u) {
                b @ 0..=127 => (b as usize * 5) >> 7,       // 0..=4
                _ => small_or_large(&mut u).min(64),
            };
            // small initial capacities, so that growth happens between a reservation and its fill
            let extra = (byte(&mut u) as usize * 9) >> 8;   // 0..=8
            Target::Vec { init, capacity: init + extra }
        }
    };
    let fixed = !matches!(target, Target::Vec { .. });
    let n_ops = match byte(&mut u) {
        b @ 0..=199 => 1 + (b as usize * 24) / 200,          // 1..=24
        b => 25 + ((b as usize - 200) * 176) / 56,           // 25..=200
    };
    // a model run alongside generation, to aim sizes at the interesting boundaries
    let mut m = OutModel::new(&target);
    let mut ops = Vec::new();
    for step in 0..n_ops {
        let sel = byte(&mut u);
        let size = |u: &mut Unstructured, m: &OutModel, room: usize| -> usize {
            match byte(u) {
                0..=119 => small_or_large(u),
                120..=169 => room,                            // exactly what fits
                170..=209 => room.saturating_add(1),          // one too many
                210..=229 => 0,
                _ => room / 2,
            }
            .min(if m.fixed { 16384 } else { 4096 })
        };
        let room = if fixed { m.remaining() } else { small_or_large(&mut u) };
        let op = match sel {
            0..=39 => Op::WriteByte,
            40..=99 => Op::WriteBytes(size(&mut u, &m, room)),
            100..=149 => Op::Reserve(size(&mut u, &m, room)),
            150..=154 => {
                // sizes no target can hold (a growable target must refuse them too)
                let d = byte(&mut u) as usize;
                Op::Reserve(match d % 4 {
                    0 => usize::MAX,
                    1 => usize::MAX - d,
                    2 => (usize::MAX - m.pos).saturating_add(d % 3),
                    _ => (isize::MAX as usize) + 1 + d,
                })
            }
            155..=239 => {
                if m.res.is_empty() {
                    Op::Reserve(size(&mut u, &m, room))
                } else {
                    let r = byte(&mut u) as usize % m.res.len();
                    let (s, e) = m.res[r];
                    let left = e - s;
                    Op::WriteReserved(r, size(&mut u, &m, left))
                }
            }
            _ => Op::Remaining,
        };
        // keep the growable log bounded (sizes to 4 KiB, total below ~256 KiB)
        if !fixed && m.cells.len() > 256 * 1024 {
            break;
        }
        m.apply(step, &op);
        ops.push(op);
    }
    run_out_history(cx, &target, &ops, true, 2)
}

fn in_random_case(cx: &mut CaseCtx, input: Input) -> CaseResult {
    let mut u = Unstructured::new(input.bytes());
    let len = match byte(&mut u) {
        b @ 0..=159 => (b as usize * 41) / 160,              // 0..=40
        _ => small_or_large(&mut u) * 2,
    };
    let n_ops = match byte(&mut u) {
        b @ 0..=199 => 1 + (b as usize * 24) / 200,
        b => 25 + ((b as usize - 200) * 176) / 56,
    };
    let mut pos = 0usize;
    let mut ops = Vec::new();
    for _ in 0..n_ops {
        let rem = len - pos;
        let size = |u: &mut Unstructured| -> usize {
            match byte(u) {
                0..=119 => small_or_large(u),
                120..=159 => rem,
                160..=199 => rem + 1,
                200..=214 => 0,
                215..=229 => {
                    let d = byte(u) as usize;
                    match d % 4 {
                        0 => usize::MAX,
                        1 => usize::MAX - d,
                        2 => (usize::MAX - pos).saturating_add(d % 3), // pos + k would wrap around
                        _ => (isize::MAX as usize) + d,
                    }
                }
                _ => rem / 2,
            }
        };
        let op = match byte(&mut u) {
            0..=24 => InOp::PeekByte,
            25..=59 => InOp::ReadByte,
            60..=84 => InOp::PeekArr(ARR_SIZES[(byte(&mut u) as usize * ARR_SIZES.len()) >> 8]),
            85..=119 => InOp::ReadArr(ARR_SIZES[(byte(&mut u) as usize * ARR_SIZES.len()) >> 8]),
            120..=149 => InOp::PeekSlice(size(&mut u)),
            150..=199 => InOp::ReadSlice(size(&mut u)),
            200..=244 => InOp::ReadInto(size(&mut u).min(8192)),
            _ => InOp::Remaining,
        };
        // advance the generator's own position estimate (successful reads only)
        let k = match &op {
            InOp::ReadByte => Some(1),
            InOp::ReadArr(n) => Some(*n),
            InOp::ReadSlice(k) | InOp::ReadInto(k) => Some(*k),
            _ => None,
        };
        if let Some(k) = k {
            if k <= rem {
                pos += k;
            }
        }
        ops.push(op);
    }
    run_in_history(cx, len, &ops, true, 3)
}

impl Check for C12 {
    fn id(&self) -> &'static str {
        "C12"
    }
    fn rule(&self) -> String {
        "oracle: lock-step with a reference model (byte log + position + reservation ranges; buffer + position for input sources): result Ok/Err of every operation, remaining() after every operation (fixed slice, input source), and the underlying buffer after EVERY PREFIX of the history replayed on a fresh target (contents can only be read once the borrow ends), canaries / PROT_NONE page around the fixed slice, guard page behind input buffers. families: out-exhaustive = every history of length <= N (4 quick, 5 thorough) over {write_byte, write_bytes_exact(0..3), reserve_space(0..3), write_bytes_into_reserved_exact(first|latest reservation, 0..3), remaining} x {slice capacity 0..4, Vec (len,cap) in (0,0),(0,2),(2,2),(2,3)}; in-exhaustive = every history of length <= N over {peek_byte, read_byte, peek/read_bytes_exact::<0..3>, peek/read_byte_slice_exact(0..3), read_bytes_into_exact(0..3), remaining} x buffer length 0..4; out-random / in-random = proptest choice sequences, up to 200 operations, sizes to 4 KiB aimed at exact-fit / one-too-many / zero, usize::MAX-like sizes, Vec targets with initial content and tiny capacity. Non-trivial = a reservation is filled after a later append, or a failing operation is followed by a succeeding one (input: peek followed by a read, or failure then success); distinct by history text".into()
    }
    fn assumptions(&self) -> Vec<String> {
        vec![
            "never-written bytes of a fixed-slice reservation may hold the previous content or zero (only the growable target is stated to zero them)".into(),
            "after a failing read_bytes_into_exact the consumed amount is unspecified (trait documentation); the position is re-read there and must not move backwards".into(),
            "reservations are only used with the target that issued them; the growable target is asked for small sizes or sizes above isize::MAX, never for amounts whose success depends on free memory".into(),
        ]
    }
    fn essential(&self, _tier: Tier) -> Vec<&'static str> {
        vec![
            "target/slice",
            "target/vec",
            "target/input-source",
            "reservation-written-in-pieces",
            "reservation-overfull-write",
            "reservation-exhausted-then-used",
            "reserve-exactly-remaining-capacity",
            "zero-length-op",
            "failing-op-mid-history",
            "reservation-filled-after-later-append",
            "vec-realloc-between-reserve-and-fill",
            "huge-size-refused",
            "slice-at-guard-page",
            "input/peek-then-read",
            "input/failing-read-then-success",
            "input/read-exactly-to-end",
            "input/zero-length-op",
            "input/huge-size-refused",
        ]
    }
    fn fuzz_families(&self, _tier: Tier) -> Vec<(&'static str, u64)> {
        // libFuzzer runs per job (16 jobs), sized from the measured speed of the instrumented build
        vec![("out-random", 40000), ("in-random", 200000)]
    }
    fn families(&self, tier: Tier) -> Vec<Family<'_>> {
        let max_len = tier.pick(4, 5);
        let out_total = histories_up_to(OUT_ALPHABET, max_len) * out_targets().len() as u64;
        let in_total = histories_up_to(IN_ALPHABET, max_len) * 5;
        vec![
            Family::enumerate("out-exhaustive", out_total, 1, out_exhaustive_case),
            Family::enumerate("in-exhaustive", in_total, 1, in_exhaustive_case),
            Family::bytes("out-random", 1200, tier.pick(40_000, 125_000), out_random_case),
            Family::bytes("in-random", 900, tier.pick(30_000, 100_000), in_random_case),
            Family::replay_only("direct", |cx, i| {
                // input bytes = the textual history (module comment), e.g.
                //   "slice 4: r 2; w 1; wr 0 1; wr 0 2; rem"   "vec 2 3: r 3; w 4; wr 0 3"   "in 5: pb; rs 2; ri 4; rem"
                let text = String::from_utf8_lossy(i.bytes()).into_owned();
                match parse_history(&text) {
                    Some(Parsed::Out(t, ops)) => run_out_history(cx, &t, &ops, true, 0),
                    Some(Parsed::In(len, ops)) => run_in_history(cx, len, &ops, true, 0),
                    None => Err(Fail::new("direct/malformed-history", format!("cannot parse {text:?}"))),
                }
            }),
        ]
    }
}
