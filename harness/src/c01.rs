//! C01 — every input yields a verdict: no crash, abort or hang.
//!
//! Families (all crossed with 1..4 files and option vectors): token soups (bounded-exhaustive in
//! 8 contexts), byte / char / token mutations of valid programs, every type form in every type
//! position, cycles, dense acyclic graphs, doc comments with exotic indentation, arbitrary
//! Unicode.  Oracle: the isolated worker survives (a death is seen by the supervisor), no panic
//! unwinds, the per-case watchdog (20 s) does not fire, diagnostics can be patched and emitted in
//! both formats; known-malformed input carries >= 1 error; through the binary: exit status in
//! {0,1,2}, no signal, no panic text.

use crate::compile::*;
use crate::engine::*;
use crate::gen::{gen_program, pick, GenCfg};
use crate::proc::{self, os, CaseDir};
use crate::{check, fail};
use arbitrary::Unstructured;
use serde_json::json;
use slicec::compilation_state::CompilationState;
use slicec::diagnostic_emitter::DiagnosticEmitter;
use slicec::slice_options::{DiagnosticFormat, SliceOptions};
use std::time::{Duration, Instant};

pub struct C01;

pub const TOKENS: [&str; 82] = [
    "module", "struct", "interface", "enum", "custom", "typealias", "Result", "Sequence", "Dictionary", "bool", "int8",
    "uint8", "int32", "varint62", "uint64", "float64", "string", "compact", "idempotent", "stream", "tag", "unchecked",
    "(", ")", "[", "]", "[[", "]]", "{", "}", "<", ">", ",", ":", "::", "=", "?", "->", "-", "A", "b", "\\struct", "\\a", "\\", "0",
    "7", "0x1F", "0b2", "0x", "1_000", "340282366920938463463374607431768211456", "\"s\"", "\"unclosed", "\"esc\\\"aped\"",
    "/// doc", "/// {@link A}", "/// @param x: y", "/// @", "// c", "//// c", "/* c */", "/* open", "#if A", "#elif A", "#else",
    "#endif", "#define A", "#undef A", "#", "#bogus", "\n", "\r\n", "\t", "é", "/", "@", "$", "\u{3000}",
    "@param x : y", "@returns x\t: y", "@see A", "@throws E : y",
];

/// (prefix, suffix) around the soup
const CONTEXTS: [(&str, &str); 8] = [
    ("", ""),
    ("module M\n", "\n"),
    ("module M\nstruct S {\n", "\n}\n"),
    ("module M\ninterface I {\n", "\n}\n"),
    ("module M\nenum E {\n", "\n}\n"),
    ("module M\n[", "]\nstruct S {}\n"),
    ("module M\nstruct S { a: ", " }\n"),
    ("module M\n/// ", "\nstruct S {}\n"),
];

/// Runs the whole pipeline on texts: compile, patch diagnostics, emit in both formats.
pub fn pipeline(texts: &[String], options: &SliceOptions) -> Result<(usize, usize), Fail> {
    if std::env::var_os("VCHECK_NO_COMPILE").is_some() {
        return Ok((0, 0)); // rendering a crashing input: see engine::render_main
    }
    let t0 = Instant::now();
    let refs: Vec<&str> = texts.iter().map(|s| s.as_str()).collect();
    let CompilationState { ast, diagnostics, files } = slicec::compile_from_strings(&refs, Some(options));
    let diags = diagnostics.into_updated(&ast, &files, options);
    let (w, e) = slicec::diagnostics::get_totals(&diags);
    // emit: human first (needs the diagnostics by value), JSON from a second compilation would double
    // the cost; the emitter only reads, so format the same list twice through two option sets
    let mut out: Vec<u8> = Vec::new();
    {
        let opts = SliceOptions {
            diagnostic_format: DiagnosticFormat::Human,
            disable_color: true,
            ..Default::default()
        };
        let mut em = DiagnosticEmitter::new(&mut out, &opts, &files);
        em.emit_diagnostics(diags).map_err(|e| Fail::new("emitter-io-error", e.to_string()))?;
    }
    // second pass for JSON
    let CompilationState { ast, diagnostics, files } = slicec::compile_from_strings(&refs, Some(options));
    let diags = diagnostics.into_updated(&ast, &files, options);
    {
        let opts = SliceOptions {
            diagnostic_format: DiagnosticFormat::Json,
            ..Default::default()
        };
        let mut em = DiagnosticEmitter::new(&mut out, &opts, &files);
        em.emit_diagnostics(diags).map_err(|e| Fail::new("emitter-io-error", e.to_string()))?;
    }
    let total: usize = texts.iter().map(|t| t.len()).sum();
    let dt = t0.elapsed();
    if total <= 8192 && dt > Duration::from_secs(20) {
        return Err(Fail::new("too-slow", format!("{total} bytes of input took {dt:?}")));
    }
    Ok((w, e))
}

fn options_from(u: &mut Unstructured) -> SliceOptions {
    const SYMS: [&str; 6] = ["A", "B", "FOO", "a_b", "é", ""];
    let mut o = SliceOptions::default();
    for _ in 0..pick(u, 3) {
        o.defined_symbols.push(SYMS[pick(u, SYMS.len())].to_owned());
    }
    const LINTS: [&str; 6] = ["All", "Deprecated", "deprecated", "BrokenDocLink", "nonsense", ""];
    for _ in 0..pick(u, 3) {
        o.allowed_lints.push(LINTS[pick(u, LINTS.len())].to_owned());
    }
    o
}

fn soup_case(cx: &mut CaseCtx, input: Input, len: u32) -> CaseResult {
    let mut idx = input.index();
    let ctx = (idx % 8) as usize;
    idx /= 8;
    let mut toks: Vec<&str> = Vec::new();
    // sequences of length 0..=len: index blocks by length
    let n = TOKENS.len() as u64;
    let mut l = 0u32;
    let mut block = 1u64;
    while idx >= block {
        idx -= block;
        l += 1;
        block *= n;
        if l > len {
            return Ok(());
        }
    }
    for _ in 0..l {
        toks.push(TOKENS[(idx % n) as usize]);
        idx /= n;
    }
    let (pre, post) = CONTEXTS[ctx];
    let text = format!("{pre}{}{post}", toks.join(" "));
    cx.nontrivial = l >= 2 || toks.iter().any(|t| t.starts_with('#'));
    cx.label(format!("context-{ctx}"));
    cx.sample_with(|| json!({"text": text}));
    let (_w, e) = pipeline(&[text.clone()], &SliceOptions::default())?;
    cx.label(if e > 0 { "has-errors" } else { "no-errors" });
    // malformed for sure: unbalanced brackets among the soup's own tokens (contexts are balanced),
    // unless a comment / string / directive token could swallow them
    let swallowing = toks.iter().any(|t| t.starts_with('/') || t.starts_with('"') || t.starts_with('#'));
    if !swallowing && ctx != 7 {
        let count = |open: &str, close: &str| toks.iter().filter(|t| **t == open).count() as i64 - toks.iter().filter(|t| **t == close).count() as i64;
        let unbalanced = count("(", ")") != 0 || count("{", "}") != 0 || count("<", ">") != 0 || (count("[", "]") + 2 * count("[[", "]]")) != 0;
        if unbalanced {
            cx.label("known-malformed");
            check!(e > 0, "malformed-input-accepted", "unbalanced brackets but no error diagnostic:\n{text}");
        }
    }
    Ok(())
}

fn soup_total(len: u32) -> u64 {
    let n = TOKENS.len() as u64;
    8 * (0..=len).map(|l| n.pow(l)).sum::<u64>()
}

// ---- type forms in type positions -----------------------------------------------------------------

const TYPE_FORMS: [&str; 22] = [
    "bool", "int32", "float64", "string", "varuint62", "Sequence<int32>", "Dictionary<string, int32>", "Result<bool, string>",
    "St", "En", "EnU", "If", "Cu", "Al", "AlSeq", "::M::St", "Missing", "M", "St::f", "If::op", "Sequence<Sequence<Al?>>",
    "Dictionary<Al, Dictionary<En, St>>",
];

const POSITIONS: [&str; 14] = [
    "struct P { f: {T} }",
    "interface P { op(p: {T}) }",
    "interface P { op() -> {T} }",
    "interface P { op() -> (a: {T}, b: bool) }",
    "enum P { A(f: {T}) }",
    "struct P { f: Sequence<{T}> }",
    "struct P { f: Dictionary<{T}, int32> }",
    "struct P { f: Dictionary<int32, {T}> }",
    "struct P { f: Result<{T}, string> }",
    "struct P { f: Result<string, {T}> }",
    "typealias P = {T}",
    "interface P : {T} {}",
    "enum P : {T} { A }",
    "interface P { op(p: stream {T}) -> stream {T} }",
];

const TYPE_PRELUDE: &str = "module M\nstruct St { f: int32 }\nenum En { A, B(x: int32) }\nenum EnU : uint8 { A }\ninterface If { op(p: bool) }\ncustom Cu\ntypealias Al = int32\ntypealias AlSeq = Sequence<St?>\n";

fn types_case(cx: &mut CaseCtx, input: Input) -> CaseResult {
    let mut idx = input.index();
    let form = TYPE_FORMS[(idx % 22) as usize];
    idx /= 22;
    let pos = POSITIONS[(idx % 14) as usize];
    idx /= 14;
    let optional = idx % 2 == 1;
    idx /= 2;
    let tagged = idx % 2 == 1;
    let t = format!("{}{form}{}", if tagged { "[cs::attr] " } else { "" }, if optional { "?" } else { "" });
    let text = format!("{TYPE_PRELUDE}{}\n", pos.replace("{T}", &t));
    cx.nontrivial = true;
    cx.label("type-form-in-position");
    cx.sample_with(|| json!({"text": text}));
    pipeline(&[text], &SliceOptions::default())?;
    Ok(())
}

// ---- mutations of valid programs -------------------------------------------------------------------

fn mutate(text: &str, u: &mut Unstructured) -> String {
    let mut chars: Vec<char> = text.chars().collect();
    let n = 1 + pick(u, 4);
    for _ in 0..n {
        if chars.is_empty() {
            break;
        }
        let at = {
            let a = u.arbitrary::<u16>().unwrap_or(0) as usize;
            (a * chars.len()) >> 16
        };
        const INS: [&str; 24] = [
            "{", "}", "(", ")", "[", "]", "<", ">", "?", ":", "::", "\"", "/*", "*/", "///", "//", "#if X\n", "#endif\n", "\\", "\n", "tag(", "-",
            "\u{3000}", "é",
        ];
        match pick(u, 7) {
            0 => {
                chars.remove(at);
            }
            1 => {
                let ins: Vec<char> = INS[pick(u, INS.len())].chars().collect();
                for (k, c) in ins.into_iter().enumerate() {
                    chars.insert(at + k, c);
                }
            }
            2 => {
                let ins: Vec<char> = INS[pick(u, INS.len())].chars().collect();
                chars[at] = ins[0];
            }
            3 => {
                let len = (1 + pick(u, 12)).min(chars.len() - at);
                let dup: Vec<char> = chars[at..at + len].to_vec();
                for (k, c) in dup.into_iter().enumerate() {
                    chars.insert(at + k, c);
                }
            }
            4 => {
                let other = {
                    let a = u.arbitrary::<u16>().unwrap_or(0) as usize;
                    (a * chars.len()) >> 16
                };
                chars.swap(at, other);
            }
            5 => chars.truncate(at),
            _ => {
                // delete a whole word / token
                let mut end = at;
                while end < chars.len() && chars[end].is_alphanumeric() {
                    end += 1;
                }
                chars.drain(at..end.max(at + 1).min(chars.len()));
            }
        }
    }
    chars.into_iter().collect()
}

fn seed_corpus() -> Vec<String> {
    let mut out = Vec::new();
    for dir in ["/repo/slice/Compiler"] {
        if let Ok(rd) = std::fs::read_dir(dir) {
            let mut paths: Vec<_> = rd.flatten().map(|e| e.path()).collect();
            paths.sort();
            for p in paths {
                if p.extension().and_then(|e| e.to_str()) == Some("slice") {
                    if let Ok(t) = std::fs::read_to_string(&p) {
                        out.push(t);
                    }
                }
            }
        }
    }
    out
}

fn mutation_case(cx: &mut CaseCtx, input: Input, cfg: &GenCfg, corpus: &[String]) -> CaseResult {
    let (lay_bytes, prog_bytes) = crate::c02::split_input(input.bytes());
    let mut u = Unstructured::new(prog_bytes);
    let from_corpus = !corpus.is_empty() && pick(&mut u, 5) == 0;
    let mut texts: Vec<String> = if from_corpus {
        vec![corpus[pick(&mut u, corpus.len())].clone()]
    } else {
        let (p, _l) = gen_program(&mut u, cfg);
        crate::c02::render_layout(&p, lay_bytes, 1).0
    };
    let victim = pick(&mut u, texts.len());
    texts[victim] = mutate(&texts[victim], &mut u);
    let options = options_from(&mut u);
    cx.nontrivial = true;
    cx.label_if(texts.len() > 1, "multi-file");
    cx.label_if(texts.iter().any(|t| !t.is_ascii()), "non-ascii-text");
    cx.label_if(from_corpus, "seed-corpus");
    cx.sample_with(|| json!({"files": texts, "defined": options.defined_symbols, "allowed": options.allowed_lints}));
    let (_w, e) = pipeline(&texts, &options)?;
    cx.label(if e > 0 { "has-errors" } else { "no-errors" });
    Ok(())
}

// ---- arbitrary Unicode ------------------------------------------------------------------------------

fn unicode_case(cx: &mut CaseCtx, input: Input) -> CaseResult {
    let mut u = Unstructured::new(input.bytes());
    let nfiles = 1 + pick(&mut u, 3);
    let mut texts = Vec::new();
    for _ in 0..nfiles {
        let n = pick(&mut u, 40);
        let mut s = String::new();
        for _ in 0..n {
            match pick(&mut u, 6) {
                0 => s.push_str(TOKENS[pick(&mut u, TOKENS.len())]),
                1 => s.push(' '),
                2 => s.push('\n'),
                3 => {
                    const SPECIAL: [char; 12] = ['\0', '\u{feff}', '\u{2028}', '\u{301}', '\u{200b}', '\u{85}', '\u{a0}', '\u{1f600}', '\u{10ffff}', '\u{7f}', '\u{1b}', '\u{d7ff}'];
                    s.push(SPECIAL[pick(&mut u, SPECIAL.len())]);
                }
                _ => {
                    let v = u.arbitrary::<u32>().unwrap_or(65) % 0x11_0000;
                    s.push(char::from_u32(v).unwrap_or('\u{fffd}'));
                }
            }
        }
        texts.push(s);
    }
    cx.nontrivial = texts.iter().any(|t| t.chars().count() >= 2);
    cx.label("non-ascii-text");
    cx.label_if(texts.len() > 1, "multi-file");
    cx.sample_with(|| json!({"files": texts}));
    let (_w, e) = pipeline(&texts, &options_from(&mut u))?;
    cx.label(if e > 0 { "has-errors" } else { "no-errors" });
    Ok(())
}

// ---- definitions named like primitives (escaped identifiers) ---------------------------------------

const PRIMITIVES: [&str; 16] = [
    "bool", "int8", "uint8", "int16", "uint16", "int32", "uint32", "varint32", "varuint32", "int64", "uint64", "varint62", "varuint62", "float32", "float64",
    "string",
];
pub const PRIMITIVE_NAMES_TOTAL: u64 = 16 * 6 * 4;

/// primitive x kind of definition (or module) carrying its name x {no module, module M, module named
/// like the primitive}; the keyword itself is used before and after (F-01i).
fn primitive_names_case(cx: &mut CaseCtx, input: Input) -> CaseResult {
    let idx = input.index() as usize;
    let (p, kind, scope) = (PRIMITIVES[idx % 16], (idx / 16) % 6, idx / 96);
    let def = match kind {
        0 => format!("struct \\{p} {{ x: {p} }}"),
        1 => format!("enum \\{p} {{ A, B }}"),
        2 => format!("interface \\{p} {{ op(a: {p}) -> {p} }}"),
        3 => format!("custom \\{p}"),
        4 => format!("typealias \\{p} = Sequence<{p}>"),
        _ => format!("struct Other {{ y: \\{p} }}"),
    };
    let head = match scope {
        0 => String::new(),
        1 => "module M\n".to_owned(),
        _ => format!("module \\{p}\n"),
    };
    let text = format!("{head}struct Before {{ a: {p} }}\n{def}\nstruct After {{ b: {p}, c: Sequence<{p}?> }}\n");
    if scope == 3 {
        // two files: a module named like the primitive comes first, the keyword is used in a later file
        let first = format!("module \\{p}\n{def}\n");
        let second = format!("module Later\nstruct Uses {{ b: {p}, c: Dictionary<{p}, Sequence<{p}>> }}\n");
        cx.nontrivial = true;
        cx.label("module-named-like-a-primitive-in-an-earlier-file");
        cx.sample_with(|| json!({"files": [first, second]}));
        pipeline(&[first.clone(), second.clone()], &SliceOptions::default())?;
        return Ok(());
    }
    cx.nontrivial = true;
    cx.label("definition-named-like-a-primitive");
    cx.label_if(scope == 0, "definition-named-like-a-primitive-at-global-scope");
    cx.sample_with(|| json!({"files": [text]}));
    let (_w, e) = pipeline(&[text.clone()], &SliceOptions::default())?;
    // without a module declaration the file is malformed and must say so
    check!(scope != 0 || e > 0, "module-less-file-accepted", "{text}");
    Ok(())
}

// ---- orphaned elements: a file that fails to parse after defining what another file defines too -------

pub const ORPHANS_TOTAL: u64 = 5 * 2 * 2;

/// Two files declare the same scoped names with a doc comment lint on an inner element; one of them
/// then runs into a syntax error inside the enclosing definition (F-01k): both file orders.
fn orphans_case(cx: &mut CaseCtx, input: Input) -> CaseResult {
    let idx = input.index() as usize;
    let (shape, lint, order) = (idx % 5, (idx / 5) % 2, idx / 10);
    let doc = ["/// {@link }", "/// @foo bar"][lint];
    // (complete text, text with a syntax error inside the definition after the commented element)
    let (good, broken): (String, String) = match shape {
        0 => (format!("module M\nenum E {{\n    A(\n        {doc}\n        f: int32\n    )\n}}\n"), format!("module M\nenum E {{\n    A(\n        {doc}\n        f: int32\n    )\n    B = = 3\n}}\n")),
        1 => (format!("module M\nstruct S {{\n    {doc}\n    f: int32\n}}\n"), format!("module M\nstruct S {{\n    {doc}\n    f: int32\n    g: :\n}}\n")),
        2 => (format!("module M\ninterface I {{\n    {doc}\n    op(a: bool)\n}}\n"), format!("module M\ninterface I {{\n    {doc}\n    op(a: bool)\n    other(\n}}\n")),
        3 => (format!("module M\nenum E {{\n    {doc}\n    A\n    B\n}}\n"), format!("module M\nenum E {{\n    {doc}\n    A\n    B = \n}}\n")),
        _ => (format!("module M::N\n{doc}\nstruct S {{}}\nstruct T {{ s: S }}\n"), format!("module M::N\n{doc}\nstruct S {{}}\nstruct T {{ s: }}\n")),
    };
    let texts = if order == 0 { vec![good, broken] } else { vec![broken, good] };
    cx.nontrivial = true;
    cx.label("orphaned-elements-of-a-file-that-failed-to-parse");
    cx.sample_with(|| json!({"files": texts}));
    let (_w, e) = pipeline(&texts, &SliceOptions::default())?;
    check!(e > 0, "syntax-error-not-reported", "{}", texts.join("\n=====\n"));
    Ok(())
}

// ---- raw source text (what a byte-level fuzzer mutates best) -----------------------------------------

/// The input bytes are the source itself: files separated by U+001E, decoded lossily.  Random
/// bytes from proptest are a weak baseline; the coverage-guided stage starts this family from the
/// committed seed files (`fuzz/seeds/C01/text`) with the token dictionary `fuzz/dict/C01-text.dict`.
fn text_case(cx: &mut CaseCtx, input: Input) -> CaseResult {
    let all = String::from_utf8_lossy(input.bytes()).into_owned();
    let texts: Vec<String> = all.split('\u{1e}').take(4).map(|s| s.to_owned()).collect();
    cx.nontrivial = all.chars().filter(|c| !c.is_whitespace()).count() >= 2;
    cx.label("raw-text");
    cx.label_if(texts.len() > 1, "multi-file");
    cx.sample_with(|| json!({"files": texts}));
    let (_w, e) = pipeline(&texts, &SliceOptions::default())?;
    cx.label(if e > 0 { "has-errors" } else { "no-errors" });
    Ok(())
}

// ---- valid programs (reach patchers and validators), cycles, docs ---------------------------------------

fn valid_case(cx: &mut CaseCtx, input: Input, cfg: &GenCfg) -> CaseResult {
    let (lay_bytes, prog_bytes) = crate::c02::split_input(input.bytes());
    let mut u = Unstructured::new(prog_bytes);
    let (mut p, _l) = gen_program(&mut u, cfg);
    let inj = pick(&mut u, 3);
    for _ in 0..inj {
        let w = pick(&mut u, crate::inject::CATALOGUE.len());
        crate::inject::inject(&mut p, w, &mut u);
    }
    p.fill_effective_values();
    let (texts, _) = crate::c02::render_layout(&p, lay_bytes, 1);
    cx.nontrivial = true;
    cx.set_key(&p);
    cx.label_if(texts.len() > 1, "multi-file");
    cx.sample_with(|| json!({"files": texts}));
    let (_w, e) = pipeline(&texts, &options_from(&mut u))?;
    cx.label(if e > 0 { "reaches-error-in-some-phase" } else { "reaches-validators-without-error" });
    Ok(())
}

// ---- the binary with option vectors -------------------------------------------------------------------

fn binary_case(cx: &mut CaseCtx, input: Input, cfg: &GenCfg) -> CaseResult {
    let (lay_bytes, prog_bytes) = crate::c02::split_input(input.bytes());
    let mut u = Unstructured::new(prog_bytes);
    let dir = CaseDir::new(&cx.workdir, cx.shard, cx.case_no);
    let kind = pick(&mut u, 6);
    let texts: Vec<String> = match kind {
        0 => vec![String::new()],
        1 => vec!["// only a comment\n".into(), "[[cs::x]]\n".into()],
        2 => {
            let (p, _) = gen_program(&mut u, cfg);
            let mut t = crate::c02::render_layout(&p, lay_bytes, 1).0;
            let v = pick(&mut u, t.len());
            t[v] = mutate(&t[v], &mut u);
            t
        }
        3 => vec!["module M\ninterface A : A {}\ntypealias T = Sequence<T>\n".into()],
        4 => vec![format!("module M\n{}", (0..pick(&mut u, 30)).map(|i| format!("struct S{i} {{ a: S{}, b: S{} }}\n", i + 1, i + 1)).collect::<String>())],
        _ => {
            let (p, _) = gen_program(&mut u, cfg);
            crate::c02::render_layout(&p, lay_bytes, 0).0
        }
    };
    // the chain of kind 4 ends in a missing type unless closed
    let mut argv: Vec<std::ffi::OsString> = Vec::new();
    for (i, t) in texts.iter().enumerate() {
        dir.write(&format!("f{i}.slice"), t.as_bytes());
        if i > 0 && pick(&mut u, 3) == 0 {
            argv.push(os("-R"));
        }
        argv.push(os(&format!("f{i}.slice")));
    }
    const EXTRA: [&[&str]; 22] = [
        &[],
        &["--dry-run"],
        &["-D", "A"],
        &["-D", ""],
        &["-D", "é", "-D", "A"],
        &["-A", "All"],
        &["-A", "all"],
        &["-A", "Nonsense"],
        &["-A", ""],
        &["-G", ""],
        &["-G", ","],
        &["-G", "="],
        &["-G", "./gen,,"],
        &["--generator=./gen,k=v"],
        &["--diagnostic-format", "json"],
        &["--diagnostic-format", "JSON"],
        &["--diagnostic-format", "xml"],
        &["--disable-color"],
        &["-O", ""],
        &["-O", "no/such/dir", "--generator=./gen"],
        &["-R", "."],
        &["--generator=./gen", "--generator=./missing", "--dry-run"],
    ];
    dir.install_generator("gen", "");
    for _ in 0..pick(&mut u, 3) {
        for a in EXTRA[pick(&mut u, EXTRA.len())] {
            argv.push(os(a));
        }
    }
    cx.nontrivial = true;
    cx.label("binary-level-case");
    cx.label(format!("binary-kind-{kind}"));
    cx.sample_with(|| json!({"argv": argv.iter().map(|a| a.to_string_lossy().into_owned()).collect::<Vec<_>>(), "files": texts}));
    let r = proc::run_slicec(&dir.path, &argv, &[], Duration::from_secs(25));
    if r.timed_out {
        fail!("binary/timeout", "argv {argv:?}: no verdict within 25 s\n{}", texts.join("\n=====\n"));
    }
    if let Some(c) = r.crashed() {
        fail!(format!("binary/{c}"), "argv {argv:?}: {}\n--- files ---\n{}", r.stderr_text(), texts.join("\n=====\n"));
    }
    Ok(())
}

/// F-01f probe: acyclic chains `S_i { a: S_{i+1}, b: S_{i+1} }` have 2^n containment paths.
/// CPU time of the calling thread (not wall time: a loaded machine must not turn into a finding).
fn thread_cpu_time() -> Duration {
    unsafe {
        let mut ts: libc::timespec = std::mem::zeroed();
        if libc::clock_gettime(libc::CLOCK_THREAD_CPUTIME_ID, &mut ts) != 0 {
            return Duration::ZERO;
        }
        Duration::new(ts.tv_sec as u64, ts.tv_nsec as u32)
    }
}

pub const GROWTH_SHAPES: u64 = 8;

fn growth_probe(cx: &mut CaseCtx, input: Input) -> CaseResult {
    let which = input.index();
    let depth = 22usize;
    let mut text = String::from("module M\n");
    let dense_structs = |text: &mut String| {
        for i in 0..depth {
            text.push_str(&format!("struct S{i} {{ a: S{}, b: S{} }}\n", i + 1, i + 1));
        }
    };
    let (expect_cycle, class) = match which {
        0 => {
            dense_structs(&mut text);
            text.push_str(&format!("struct S{depth} {{}}\n"));
            (false, "exponential-time/containment-paths")
        }
        1 => {
            for i in 0..depth {
                text.push_str(&format!("interface I{i} : I{}, J{} {{}}\ninterface J{i} : I{}, J{} {{}}\n", i + 1, i + 1, i + 1, i + 1));
            }
            text.push_str(&format!("interface I{depth} {{}}\ninterface J{depth} {{}}\n"));
            (false, "exponential-time/inheritance-paths")
        }
        2 => {
            // a type on a cycle with the dense acyclic graph hanging off one of its fields
            text.push_str("struct C { c: C?, t: S0 }\n");
            dense_structs(&mut text);
            text.push_str(&format!("struct S{depth} {{}}\n"));
            (true, "exponential-time/paths-leaving-a-cycle")
        }
        3 => {
            // the same through an enum and a two-node cycle
            text.push_str("enum E { Leaf, Node(p: P) }\nstruct P { e: Sequence<E>, t: S0 }\n");
            dense_structs(&mut text);
            text.push_str(&format!("struct S{depth} {{}}\n"));
            (true, "exponential-time/paths-leaving-a-cycle")
        }
        4 => {
            // the dense graph leads into a cycle
            dense_structs(&mut text);
            text.push_str(&format!("struct S{depth} {{ back: S{depth}? }}\n"));
            (true, "exponential-time/paths-into-a-cycle")
        }
        6 | 7 => {
            // a dictionary key that is a dense acyclic graph of compact structs (F-01j); valid, and
            // with a leaf that is no legal key
            for i in 0..depth {
                text.push_str(&format!("compact struct K{i} {{ a: K{}, b: K{} }}\n", i + 1, i + 1));
            }
            text.push_str(&format!("compact struct K{depth} {{ a: {} }}\nstruct U {{ m: Dictionary<K0, bool> }}\n", if which == 6 { "int32" } else { "float64" }));
            (false, "exponential-time/dictionary-key-paths")
        }
        _ => {
            // dense acyclic graph of aliases of anonymous types, used by a struct
            for i in 0..depth {
                text.push_str(&format!("typealias T{i} = Dictionary<string, Result<T{}, T{}>>\n", i + 1, i + 1));
            }
            text.push_str(&format!("typealias T{depth} = int32\nstruct U {{ t: T0 }}\n"));
            (false, "exponential-time/alias-paths")
        }
    };
    cx.nontrivial = true;
    cx.label("dense-acyclic-graph");
    cx.label_if(expect_cycle, "dense-graph-next-to-a-cycle");
    cx.sample_with(|| json!({"text": text}));
    if std::env::var_os("VCHECK_NO_COMPILE").is_some() {
        return Ok(());
    }
    let t0 = thread_cpu_time();
    let state = compile_strings(&[text.clone()], None);
    let dt = thread_cpu_time().saturating_sub(t0);
    let errors = error_codes(&diagnostics_of(state, &Default::default()));
    if expect_cycle {
        check!(errors.iter().any(|c| c == "E032"), "cycle-next-to-dense-graph-accepted", "codes {errors:?}");
    } else if which == 7 {
        check!(!errors.is_empty(), "illegal-key-accepted", "codes {errors:?}");
    } else {
        check!(errors.is_empty(), "dense-graph-rejected", "codes {errors:?}");
    }
    // a detector that is polynomial in the size of the input needs a few milliseconds of CPU here;
    // an enumeration of all 2^22 paths needs seconds
    if dt > Duration::from_millis(600) {
        if class == "exponential-time/alias-paths" && cx.tolerate_known("F-01h") {
            // recorded finding (the saved regression input reports it in strict mode)
            cx.label("known:F-01h");
            return Ok(());
        }
        fail!(class, "{} bytes of definitions ({depth} levels, fan-out 2) took {dt:?} of CPU time: time doubles with every level", text.len());
    }
    Ok(())
}

impl Check for C01 {
    fn id(&self) -> &'static str {
        "C01"
    }
    fn rule(&self) -> String {
        format!("families: soups = every sequence of <= 2 (quick) / <= 3 (thorough) tokens over a {}-token alphabet (keywords, punctuation incl. [[ ]] :: -> -, identifiers, escaped identifiers, literals in three bases and malformed, strings closed / unclosed, doc / line / block comments open and closed, all preprocessor directives, line breaks, non-ASCII) in 8 contexts (exhaustive); types = 22 type forms x 14 positions (incl. interface base, enum underlying, stream) x optional x attribute (exhaustive); mutations = proptest choice sequences -> generated programs and the shipped .slice files with 1..4 byte / char / token mutations x -D / -A vectors; unicode = arbitrary code points incl. NUL, BOM, U+2028, combining marks; valid = generated programs with 0..2 injected violations; binary = empty / comment-only files, mutated programs, self-referential definitions, chains x 22 option vectors incl. empty strings, bad values, --dry-run, -G forms; growth = dense acyclic containment and inheritance graphs. Oracle: the isolated worker survives, no panic, verdict within 20 s, diagnostics patch and emit in both formats, known-malformed input has an error, binary exit status in {{0,1,2}}. Non-trivial = >= 2 tokens or a directive; distinct by (family, input)", TOKENS.len())
    }
    fn assumptions(&self) -> Vec<String> {
        vec!["'grows gently' is asserted only as the stated bound (20 s for <= 8 KiB) plus the doubling probe on dense acyclic graphs".into()]
    }
    fn essential(&self, _tier: Tier) -> Vec<&'static str> {
        vec![
            "has-errors",
            "no-errors",
            "known-malformed",
            "reaches-validators-without-error",
            "reaches-error-in-some-phase",
            "binary-level-case",
            "multi-file",
            "non-ascii-text",
            "type-form-in-position",
            "seed-corpus",
            "dense-acyclic-graph",
            "alias-loop",
            "inheritance-graph",
            "containment-graph",
        ]
    }
    fn needs_binary(&self) -> bool {
        true
    }
    fn timeout_is_violation(&self) -> bool {
        true
    }
    fn fuzz_families(&self, _tier: Tier) -> Vec<(&'static str, u64)> {
        // libFuzzer runs per job (16 jobs), sized from the measured speed of the instrumented build
        vec![("text", 40000), ("unicode", 40000), ("mutations", 10000), ("valid", 8000)]
    }
    fn families(&self, tier: Tier) -> Vec<Family<'_>> {
        let len = tier.pick(2, 3);
        let cfg = GenCfg {
            doc_chance: 90,
            exotic_docs: true,
            rich_link_targets: true,
            deprecated: true,
            ..GenCfg::default()
        };
        let (cfg2, cfg3, cfg4) = (cfg.clone(), cfg.clone(), cfg.clone());
        let corpus = seed_corpus();
        vec![
            Family::enumerate("growth", GROWTH_SHAPES, 1, growth_probe),
            Family::enumerate("primitive-names", PRIMITIVE_NAMES_TOTAL, 1, primitive_names_case),
            Family::enumerate("orphans", ORPHANS_TOTAL, 1, orphans_case),
            Family::enumerate("types", 22 * 14 * 2 * 2, 1, types_case),
            // (d) containment / alias / inheritance cycles: the C05 enumerators, judged here only for
            // "a verdict within the bound" (a hang is seen by the watchdog)
            Family::enumerate("alias-graphs", crate::c05::ALIAS_TOTAL, tier.pick(31, 7), |cx, i| {
                let (p, cyclic) = crate::c05::alias_program(i.index());
                let texts = p.plain();
                cx.nontrivial = true;
                cx.label(if cyclic { "alias-loop" } else { "alias-acyclic" });
                cx.sample_with(|| json!({"files": texts}));
                pipeline(&texts, &SliceOptions::default())?;
                Ok(())
            }),
            Family::enumerate("inheritance-graphs", crate::c05::INHERIT_TOTAL, tier.pick(9, 1), |cx, i| {
                let (p, _cyclic, _) = crate::c05::inherit_program(i.index());
                let texts = p.plain();
                cx.nontrivial = true;
                cx.label("inheritance-graph");
                cx.sample_with(|| json!({"files": texts}));
                pipeline(&texts, &SliceOptions::default())?;
                Ok(())
            }),
            Family::enumerate("containment-graphs", crate::c05::SMALL_TOTAL, tier.pick(3, 1), |cx, i| {
                let g = crate::c05::small_graph(i.index());
                let (p, _) = crate::c05::graph_program(&g);
                let texts = p.plain();
                cx.nontrivial = true;
                cx.label("containment-graph");
                cx.sample_with(|| json!({"files": texts}));
                pipeline(&texts, &SliceOptions::default())?;
                Ok(())
            }),
            Family::enumerate("soups", soup_total(len), 1, move |cx, i| soup_case(cx, i, len)),
            Family::bytes("mutations", 700, tier.pick(4_000, 120_000), move |cx, i| mutation_case(cx, i, &cfg, &corpus)),
            Family::bytes("unicode", 200, tier.pick(3_000, 60_000), unicode_case),
            Family::bytes("text", 1024, tier.pick(1_000, 20_000), text_case),
            Family::bytes("valid", 700, tier.pick(1_500, 30_000), move |cx, i| valid_case(cx, i, &cfg2)),
            Family::bytes("binary", 700, tier.pick(100, 2_000), move |cx, i| binary_case(cx, i, &cfg3)),
            Family::replay_only("direct", move |cx, i| {
                // regression inputs: files separated by U+001E; compiled in-process and through the binary
                let _ = &cfg4;
                let all = String::from_utf8_lossy(i.bytes()).into_owned();
                let texts: Vec<String> = all.split('\u{1e}').map(|s| s.to_owned()).collect();
                cx.nontrivial = true;
                cx.sample_with(|| json!({"files": texts}));
                pipeline(&texts, &SliceOptions::default())?;
                let dir = CaseDir::new(&cx.workdir, cx.shard, cx.case_no);
                let mut argv = Vec::new();
                for (k, t) in texts.iter().enumerate() {
                    dir.write(&format!("f{k}.slice"), t.as_bytes());
                    argv.push(os(&format!("f{k}.slice")));
                }
                dir.install_generator("gen", "");
                argv.push(os("--generator=./gen"));
                let r = proc::run_slicec(&dir.path, &argv, &[], Duration::from_secs(25));
                if let Some(c) = r.crashed() {
                    fail!(format!("binary/{c}"), "{}", r.stderr_text());
                }
                Ok(())
            }),
        ]
    }
}
