//! C04 — accepted programs are well-formed; every rule violation is diagnosed.
//!
//! G: well-formed programs (constructive generator) with 0..3 violations injected from the
//! catalogue, plus bounded-exhaustive small-scope families.
//! O: the reference checker (`rules`) recomputes the violated set from the mutated model:
//!    well-formed  => zero error diagnostics;
//!    ill-formed   => >= 1 error diagnostic and every reported code is an admissible code of a
//!                    rule the reference finds violated by this very program.

use crate::c02::{render_layout, split_input};
use crate::compile::*;
use crate::engine::*;
use crate::gen::{gen_program, pick, GenCfg};
use crate::inject::{inject, CATALOGUE};
use crate::model::*;
use crate::refcheck::Resolver;
use crate::rules::{check_program, Report};
use crate::{check, fail};
use arbitrary::Unstructured;
use serde_json::json;

pub struct C04;

/// Sub-rules the statement leaves open (see DESIGN section 3): programs whose only violations are
/// of these kinds are kept out of the accept/reject comparison.
const DONT_CARE: [&str; 1] = ["R-UNDERLYING-EMPTY-FIELD-LIST"];

pub fn compare(cx: &mut CaseCtx, p: &Program, report: &Report, texts: &[String]) -> CaseResult {
    let state = compile_strings(texts, None);
    let diags = diagnostics_of(state, &Default::default());
    let errors = error_codes(&diags);
    let rules = report.rules();
    for r in &rules {
        cx.label(format!("rule:{r}"));
    }
    if rules.len() == 1 {
        cx.label(format!("sole:{}", rules.iter().next().unwrap()));
    }
    let judged: Vec<&&str> = rules.iter().filter(|r| !DONT_CARE.contains(r)).collect();
    if !rules.is_empty() && judged.is_empty() {
        cx.label("dont-care-only");
        return Ok(());
    }
    let src = || texts.join("\n=====\n");
    if report.well_formed() {
        cx.label("well-formed");
        check!(
            errors.is_empty(),
            format!("reject-mismatch/well-formed/code={}", errors.first().cloned().unwrap_or_default()),
            "the reference checker finds no rule violated, but the compiler rejects the program:\n{}\n--- source ---\n{}",
            summarize(&diags),
            src()
        );
        return Ok(());
    }
    cx.label("ill-formed");
    if errors.is_empty() {
        let mut rs: Vec<&str> = judged.iter().map(|r| **r).collect();
        rs.sort();
        // F-04: duplicate enumerator field names are accepted
        if rs == ["R-NAME-ENUMERATOR-FIELD"] && cx.tolerate_known("F-04") {
            return Ok(());
        }
        // F-04b: the attributes of an enum's underlying type and of an interface's bases are never validated
        let unseen_reference = |v: &crate::rules::Violation| {
            matches!(v.rule, "R-ATTR-TARGET" | "R-ATTR-REPEATED") && (v.at.contains("/underlying/attr") || v.at.contains("/base"))
        };
        if report.violations.iter().filter(|v| !DONT_CARE.contains(&v.rule)).all(unseen_reference) {
            if cx.tolerate_known("F-04b") {
                cx.label("known:F-04b");
                return Ok(());
            }
            fail!(
                format!("accept-mismatch/unvalidated-type-reference/rule={}", rs.join("+")),
                "the program violates {:?} on the type reference of an underlying type / a base but was accepted\n violations: {:?}\n--- source ---\n{}",
                rs,
                report.violations,
                src()
            );
        }
        fail!(
            format!("accept-mismatch/rule={}", rs.join("+")),
            "the program violates {:?} but was accepted without an error diagnostic\n violations: {:?}\n--- source ---\n{}",
            rs,
            report.violations,
            src()
        );
    }
    let admissible = report.codes();
    for c in &errors {
        if !admissible.contains(c.as_str()) {
            fail!(
                format!("reject-mismatch/code={c}"),
                "the compiler reports {c}, which belongs to no rule this program violates (violated: {:?})\n{}\n--- source ---\n{}",
                report.violations,
                summarize(&diags),
                src()
            );
        }
    }
    let _ = p;
    Ok(())
}

fn case(cx: &mut CaseCtx, input: Input, cfg: &GenCfg) -> CaseResult {
    let (lay_bytes, prog_bytes) = split_input(input.bytes());
    let mut u = Unstructured::new(prog_bytes);
    let k = pick(&mut u, 4);
    let which: Vec<usize> = (0..k).map(|_| pick(&mut u, CATALOGUE.len())).collect();
    let (mut p, _labels) = gen_program(&mut u, cfg);
    let mut applied = 0;
    for w in which {
        if inject(&mut p, w, &mut u) {
            applied += 1;
            cx.label(format!("inj:{}", CATALOGUE[w % CATALOGUE.len()]));
        }
    }
    p.fill_effective_values();
    cx.set_key(&p);
    let report = check_program(&p);
    let features = program_features(&p);
    cx.nontrivial = !report.well_formed() || features >= 2;
    cx.label_if(applied >= 2, "several-injections");
    {
        let r = Resolver::new(&p);
        // module / definition name collisions make binding order dependent (F-15): not judged here
        let ambiguous = r.table.map.keys().any(|k| {
            let v = r.table.exact(k);
            v.iter().any(|e| e.kind == crate::refcheck::EKind::Module)
                && v.iter().any(|e| !matches!(e.kind, crate::refcheck::EKind::Module | crate::refcheck::EKind::Primitive))
        });
        if ambiguous {
            // A definition with the scoped name of a module of some file: ill-formed ("names unique
            // within their scope", E010 since the F-15 fix) in whatever order the files come.  What
            // else is reported depends on which of the two a reference binds to, so only the
            // rejection and its code are judged here.
            cx.label("module-definition-collision");
            cx.nontrivial = true;
            let (texts, _r) = render_layout(&p, lay_bytes, 0);
            cx.sample_with(|| json!({"files": texts, "violated": ["R-NAME-MODULE-DEFINITION"]}));
            let state = compile_strings(&texts, None);
            let diags = diagnostics_of(state, &Default::default());
            let errors = error_codes(&diags);
            // (other violations may be reported in an earlier phase and stop the compilation there:
            // E010 is demanded only when the collision is the sole defect)
            let sole = report.rules().iter().all(|r| *r == "R-NAME-MODULE-DEFINITION");
            cx.label_if(sole, "sole:R-NAME-MODULE-DEFINITION");
            check!(
                if sole { errors.iter().any(|c| c == "E010") } else { !errors.is_empty() },
                "accept-mismatch/rule=R-NAME-MODULE-DEFINITION",
                "a definition has the same scoped name as a module, but {} (codes {errors:?})\n--- source ---\n{}",
                if sole { "no E010 is reported" } else { "the program is accepted" },
                texts.join("\n=====\n")
            );
            return Ok(());
        }
    }
    let (texts, _r) = render_layout(&p, lay_bytes, 0);
    cx.sample_with(|| json!({"files": texts, "violated": report.rules()}));
    compare(cx, &p, &report, &texts)
}

/// Number of rule-relevant features (tags, dictionary keys, streams, attributes ...).
fn program_features(p: &Program) -> usize {
    let mut n = 0;
    for f in &p.files {
        n += f.file_attrs.len();
        for d in &f.defs {
            n += d.pre().attrs.len();
            match d {
                DefM::Struct(s) => n += s.fields.iter().filter(|f| f.tag.is_some() || matches!(f.ty.kind, TypeK::Dict(..))).count(),
                DefM::Interface(i) => {
                    n += i.bases.len();
                    for o in &i.ops {
                        n += o.params.iter().chain(o.ret.members()).filter(|p| p.tag.is_some() || p.stream).count();
                    }
                }
                DefM::Enum(e) => n += e.enumerators.iter().filter(|x| x.value.is_some()).count(),
                _ => {}
            }
        }
    }
    n
}

// ---- bounded-exhaustive small-scope families ------------------------------------------------

const TAG_CHOICES: [Option<i128>; 6] = [None, Some(0), Some(1), Some(2147483647), Some(-1), Some(2147483648)];

/// Every tag / optional assignment over <= 3 members x compact x {struct, enumerator, parameters,
/// return tuple}: index -> program.
fn tags3_program(mut idx: u64) -> Program {
    let host = (idx % 4) as usize;
    idx /= 4;
    let compact = idx % 2 == 1;
    idx /= 2;
    let n = 1 + (idx % 3) as usize;
    idx /= 3;
    let mut members: Vec<(Option<i128>, bool)> = Vec::new();
    for _ in 0..n {
        let t = TAG_CHOICES[(idx % 6) as usize];
        idx /= 6;
        let opt = idx % 2 == 1;
        idx /= 2;
        members.push((t, opt));
    }
    let names = ["a", "b", "c"];
    let fields: Vec<FieldM> = members
        .iter()
        .enumerate()
        .map(|(i, (t, o))| FieldM {
            pre: Prelude::default(),
            tag: *t,
            name: names[i].to_owned(),
            ty: TypeM {
                attrs: vec![],
                kind: TypeK::Prim("int32".into()),
                optional: *o,
            },
        })
        .collect();
    let params: Vec<ParamM> = fields
        .iter()
        .map(|f| ParamM {
            pre: Prelude::default(),
            tag: f.tag,
            name: f.name.clone(),
            stream: false,
            ty: f.ty.clone(),
        })
        .collect();
    let def = match host {
        0 => DefM::Struct(StructM {
            pre: Prelude::default(),
            compact,
            name: "S".into(),
            fields,
        }),
        1 => DefM::Enum(EnumM {
            pre: Prelude::default(),
            compact,
            unchecked: false,
            name: "E".into(),
            underlying: None,
            enumerators: vec![EnumeratorM {
                pre: Prelude::default(),
                name: "A".into(),
                fields: Some(fields),
                value: None,
                effective: 0,
            }],
        }),
        2 => DefM::Interface(InterfaceM {
            pre: Prelude::default(),
            name: "I".into(),
            bases: vec![],
            ops: vec![OpM {
                pre: Prelude::default(),
                idempotent: compact,
                name: "op".into(),
                params,
                ret: RetM::None,
            }],
        }),
        _ => DefM::Interface(InterfaceM {
            pre: Prelude::default(),
            name: "I".into(),
            bases: vec![],
            ops: vec![OpM {
                pre: Prelude::default(),
                idempotent: compact,
                name: "op".into(),
                params: vec![],
                ret: if params.len() == 1 { RetM::Single(Box::new(params[0].clone())) } else { RetM::Tuple(params) },
            }],
        }),
    };
    Program {
        files: vec![FileM {
            path: "string-0".into(),
            file_attrs: vec![],
            module: Some(ModuleM {
                attrs: vec![],
                path: vec!["M".into()],
            }),
            defs: vec![def],
        }],
    }
}

const TAGS3_TOTAL: u64 = 4 * 2 * 3 * 12 * 12 * 12;

/// Every stream placement over <= 3 parameters / return members.
fn streams_program(mut idx: u64) -> Program {
    let in_return = idx % 2 == 1;
    idx /= 2;
    let n = 1 + (idx % 3) as usize;
    idx /= 3;
    let names = ["a", "b", "c"];
    let params: Vec<ParamM> = (0..n)
        .map(|i| {
            let s = idx % 2 == 1;
            idx /= 2;
            // (a tagged member is optional; tags are distinct)
            let tagged = idx % 2 == 1;
            idx /= 2;
            ParamM {
                pre: Prelude::default(),
                tag: if tagged { Some(i as i128 + 1) } else { None },
                name: names[i].to_owned(),
                stream: s,
                ty: if tagged { TypeM::prim("uint8").opt() } else { TypeM::prim("uint8") },
            }
        })
        .collect();
    let op = OpM {
        pre: Prelude::default(),
        idempotent: false,
        name: "op".into(),
        params: if in_return { vec![] } else { params.clone() },
        ret: if !in_return {
            RetM::None
        } else if params.len() == 1 {
            RetM::Single(Box::new(params[0].clone()))
        } else {
            RetM::Tuple(params)
        },
    };
    Program {
        files: vec![FileM {
            path: "string-0".into(),
            file_attrs: vec![],
            module: Some(ModuleM {
                attrs: vec![],
                path: vec!["M".into()],
            }),
            defs: vec![DefM::Interface(InterfaceM {
                pre: Prelude::default(),
                name: "I".into(),
                bases: vec![],
                ops: vec![op],
            })],
        }],
    }
}

const STREAMS_TOTAL: u64 = 2 * 3 * 64;

/// Every enum modifier x underlying x emptiness x field presence x value shape combination.
fn enums_program(mut idx: u64) -> Program {
    let compact = idx % 2 == 1;
    idx /= 2;
    let unchecked = idx % 2 == 1;
    idx /= 2;
    const UNDER: [Option<(&str, bool)>; 8] = [
        None,
        Some(("uint8", false)),
        Some(("int8", false)),
        Some(("varint62", false)),
        Some(("uint64", false)),
        Some(("bool", false)),
        Some(("float64", false)),
        Some(("int32", true)),
    ];
    let under = UNDER[(idx % 8) as usize];
    idx /= 8;
    let n = (idx % 3) as usize;
    idx /= 3;
    let with_fields = (idx % 3) as usize; // 0 none, 1 `A()`, 2 `A(x: int32)`
    idx /= 3;
    // value shapes for up to 2 enumerators
    const VALS: [[Option<i128>; 2]; 9] = [
        [None, None],
        [Some(0), None],
        [Some(255), None],
        [Some(-128), Some(-128)],
        [Some(-1), Some(0)],
        [Some(256), Some(1)],
        [Some(1), Some(0)],
        [Some(2147483647), None],
        [Some(127), None],
    ];
    let vals = VALS[(idx % 9) as usize];
    let names = ["A", "B"];
    let enumerators: Vec<EnumeratorM> = (0..n)
        .map(|i| EnumeratorM {
            pre: Prelude::default(),
            name: names[i].to_owned(),
            fields: match with_fields {
                0 => None,
                1 => Some(vec![]),
                _ => Some(vec![FieldM {
                    pre: Prelude::default(),
                    tag: None,
                    name: "x".into(),
                    ty: TypeM::prim("int32"),
                }]),
            },
            value: vals[i],
            effective: 0,
        })
        .collect();
    let mut p = Program {
        files: vec![FileM {
            path: "string-0".into(),
            file_attrs: vec![],
            module: Some(ModuleM {
                attrs: vec![],
                path: vec!["M".into()],
            }),
            defs: vec![DefM::Enum(EnumM {
                pre: Prelude::default(),
                compact,
                unchecked,
                name: "E".into(),
                underlying: under.map(|(p, o)| TypeM {
                    attrs: vec![],
                    kind: TypeK::Prim(p.to_owned()),
                    optional: o,
                }),
                enumerators,
            })],
        }],
    };
    p.fill_effective_values();
    p
}

const ENUMS_TOTAL: u64 = 2 * 2 * 8 * 3 * 3 * 9;

/// Every key type up to nesting depth 2 (through aliases and compact structs of compact structs),
/// in four positions.
fn keys_program(mut idx: u64) -> Program {
    let position = (idx % 8) as usize;
    idx /= 8;
    let via_alias = idx % 2 == 1;
    idx /= 2;
    // leaf kinds
    const LEAVES: [&str; 14] = [
        "bool", "uint8", "varint62", "string", "float32", "float64", "int32?", "Custom", "EnumU", "EnumNoU", "SeqI", "DictII",
        "ResIS", "NonCompact",
    ];
    let shape = (idx % 3) as usize; // 0 leaf itself, 1 compact struct { leaf }, 2 compact struct { compact struct { leaf } }
    idx /= 3;
    let leaf = LEAVES[(idx % LEAVES.len() as u64) as usize];
    let leaf_type = |l: &str| -> TypeM {
        match l {
            "int32?" => TypeM::prim("int32").opt(),
            "Custom" => TypeM::named("Cu"),
            "EnumU" => TypeM::named("EU"),
            "EnumNoU" => TypeM::named("EN"),
            "SeqI" => TypeM::seq(TypeM::prim("int32")),
            "DictII" => TypeM::dict(TypeM::prim("int32"), TypeM::prim("int32")),
            "ResIS" => TypeM::result(TypeM::prim("int32"), TypeM::prim("string")),
            "NonCompact" => TypeM::named("NC"),
            p => TypeM::prim(p),
        }
    };
    let fld = |n: &str, t: TypeM| FieldM {
        pre: Prelude::default(),
        tag: None,
        name: n.to_owned(),
        ty: t,
    };
    let mut defs = vec![
        DefM::Custom(CustomM {
            pre: Prelude::default(),
            name: "Cu".into(),
        }),
        DefM::Enum(EnumM {
            pre: Prelude::default(),
            compact: false,
            unchecked: false,
            name: "EU".into(),
            underlying: Some(TypeM::prim("uint16")),
            enumerators: vec![EnumeratorM {
                pre: Prelude::default(),
                name: "A".into(),
                fields: None,
                value: None,
                effective: 0,
            }],
        }),
        DefM::Enum(EnumM {
            pre: Prelude::default(),
            compact: false,
            unchecked: false,
            name: "EN".into(),
            underlying: None,
            enumerators: vec![EnumeratorM {
                pre: Prelude::default(),
                name: "A".into(),
                fields: None,
                value: None,
                effective: 0,
            }],
        }),
        DefM::Struct(StructM {
            pre: Prelude::default(),
            compact: false,
            name: "NC".into(),
            fields: vec![fld("q", TypeM::prim("int32"))],
        }),
    ];
    let mut key = leaf_type(leaf);
    if shape >= 1 {
        defs.push(DefM::Struct(StructM {
            pre: Prelude::default(),
            compact: true,
            name: "K1".into(),
            fields: vec![fld("ok", TypeM::prim("int8")), fld("leaf", key)],
        }));
        key = TypeM::named("K1");
    }
    if shape >= 2 {
        defs.push(DefM::Struct(StructM {
            pre: Prelude::default(),
            compact: true,
            name: "K2".into(),
            fields: vec![fld("inner", key)],
        }));
        key = TypeM::named("K2");
    }
    if via_alias {
        defs.push(DefM::Alias(AliasM {
            pre: Prelude::default(),
            name: "KA".into(),
            ty: key,
        }));
        key = TypeM::named("KA");
    }
    let dict = TypeM::dict(key, TypeM::prim("string"));
    match position {
        0 => defs.push(DefM::Struct(StructM {
            pre: Prelude::default(),
            compact: false,
            name: "Host".into(),
            fields: vec![fld("d", dict)],
        })),
        1 => defs.push(DefM::Alias(AliasM {
            pre: Prelude::default(),
            name: "Host".into(),
            ty: dict,
        })),
        2 => defs.push(DefM::Interface(InterfaceM {
            pre: Prelude::default(),
            name: "Host".into(),
            bases: vec![],
            ops: vec![OpM {
                pre: Prelude::default(),
                idempotent: false,
                name: "op".into(),
                params: vec![],
                ret: RetM::Single(Box::new(ParamM {
                    pre: Prelude::default(),
                    tag: None,
                    name: String::new(),
                    stream: false,
                    ty: TypeM::seq(dict),
                })),
            }],
        })),
        3 => defs.push(DefM::Struct(StructM {
            pre: Prelude::default(),
            compact: false,
            name: "Host".into(),
            fields: vec![fld("d", TypeM::result(TypeM::prim("bool"), dict.opt()))],
        })),
        // the field of an enumerator (directly, and nested in a sequence)
        4 | 5 => defs.push(DefM::Enum(EnumM {
            pre: Prelude::default(),
            compact: false,
            unchecked: false,
            name: "Host".into(),
            underlying: None,
            enumerators: vec![
                EnumeratorM { pre: Prelude::default(), name: "Plain".into(), fields: None, value: None, effective: 0 },
                EnumeratorM {
                    pre: Prelude::default(),
                    name: "WithFields".into(),
                    fields: Some(vec![fld("x", TypeM::prim("bool")), fld("d", if position == 4 { dict } else { TypeM::seq(dict.opt()) })]),
                    value: None,
                    effective: 1,
                },
            ],
        })),
        // a parameter; a member of a return tuple
        _ => {
            let prm = |name: &str, ty: TypeM| ParamM { pre: Prelude::default(), tag: None, name: name.to_owned(), stream: false, ty };
            let (params, ret) = if position == 6 {
                (vec![prm("a", TypeM::prim("bool")), prm("d", dict)], RetM::None)
            } else {
                (vec![], RetM::Tuple(vec![prm("a", TypeM::prim("bool")), prm("d", dict)]))
            };
            defs.push(DefM::Interface(InterfaceM {
                pre: Prelude::default(),
                name: "Host".into(),
                bases: vec![],
                ops: vec![OpM { pre: Prelude::default(), idempotent: false, name: "op".into(), params, ret }],
            }))
        }
    }
    let mut p = Program {
        files: vec![FileM {
            path: "string-0".into(),
            file_attrs: vec![],
            module: Some(ModuleM {
                attrs: vec![],
                path: vec!["M".into()],
            }),
            defs,
        }],
    };
    p.fill_effective_values();
    p
}

const KEYS_TOTAL: u64 = 8 * 2 * 3 * 14;

/// Every attribute x target x argument shape.
fn attrs_program(mut idx: u64) -> Program {
    const ATTRS: [(&str, &[&str]); 17] = [
        ("allow", &["All"]),
        ("allow", &["Deprecated", "BrokenDocLink"]),
        ("allow", &[]),
        ("allow", &["Nope"]),
        ("allow", &["DuplicateFile"]),
        ("deprecated", &[]),
        ("deprecated", &["why"]),
        ("deprecated", &["a", "b"]),
        ("oneway", &[]),
        ("oneway", &["x"]),
        ("compress", &["Args"]),
        ("compress", &[]),
        ("compress", &["Args", "Nope"]),
        ("slicedFormat", &["Return", "Args"]),
        ("foo", &[]),
        ("foo::bar", &["x", "y z"]),
        ("cs::identifier", &["Foo"]),
    ];
    let (d, args) = ATTRS[(idx % 17) as usize];
    idx /= 17;
    let target = (idx % 25) as usize;
    idx /= 25;
    let twice = idx % 2 == 1;
    let mut attrs = vec![AttrM::new(d, args)];
    if twice {
        attrs.push(AttrM::new(d, args));
    }
    let pre = |on: bool| Prelude {
        doc: vec![],
        attrs: if on { attrs.clone() } else { vec![] },
        docm: None,
    };
    let ty = |on: bool| TypeM {
        attrs: if on { attrs.clone() } else { vec![] },
        kind: TypeK::Prim("int32".into()),
        optional: false,
    };
    let prm = |name: &str, on_decl: bool, on_type: bool| ParamM {
        pre: pre(on_decl),
        tag: None,
        name: name.to_owned(),
        stream: false,
        ty: ty(on_type),
    };
    let t = target;
    let defs = vec![
        DefM::Struct(StructM {
            pre: pre(t == 2),
            compact: false,
            name: "S".into(),
            fields: vec![
                FieldM {
                    pre: pre(t == 3),
                    tag: None,
                    name: "f".into(),
                    ty: ty(t == 4),
                },
                // the element type of an anonymous type
                FieldM {
                    pre: pre(false),
                    tag: None,
                    name: "n".into(),
                    ty: TypeM::seq(ty(t == 19)),
                },
            ],
        }),
        DefM::Interface(InterfaceM {
            pre: pre(t == 5),
            name: "I".into(),
            bases: vec![],
            ops: vec![
                OpM {
                    pre: pre(t == 6),
                    idempotent: false,
                    name: "noreturn".into(),
                    params: vec![prm("p", t == 7, t == 16)],
                    ret: RetM::None,
                },
                // (an operation whose only return value is a stream; one whose last parameter is)
                OpM {
                    pre: pre(t == 21),
                    idempotent: false,
                    name: "returnsStream".into(),
                    params: vec![],
                    ret: RetM::Single(Box::new(ParamM { pre: pre(false), tag: None, name: String::new(), stream: true, ty: ty(false) })),
                },
                OpM {
                    pre: pre(t == 22),
                    idempotent: false,
                    name: "takesStream".into(),
                    params: vec![prm("x", false, false), ParamM { pre: pre(false), tag: None, name: "s".into(), stream: true, ty: ty(false) }],
                    ret: RetM::None,
                },
                OpM {
                    pre: pre(t == 8),
                    idempotent: false,
                    name: "returns".into(),
                    params: vec![],
                    ret: RetM::Tuple(vec![prm("r1", t == 9, t == 17), prm("r2", false, false)]),
                },
            ],
        }),
        DefM::Enum(EnumM {
            pre: pre(t == 10),
            compact: false,
            unchecked: false,
            name: "E".into(),
            underlying: None,
            enumerators: vec![EnumeratorM {
                pre: pre(t == 11),
                name: "A".into(),
                // (a field of an enumerator and its type are targets too)
                fields: Some(vec![FieldM {
                    pre: pre(t == 14),
                    tag: None,
                    name: "g".into(),
                    ty: ty(t == 15),
                }]),
                value: None,
                effective: 0,
            }],
        }),
        DefM::Custom(CustomM {
            pre: pre(t == 12),
            name: "C".into(),
        }),
        // the type references written as an enum's underlying type and as an interface's base
        DefM::Enum(EnumM {
            pre: pre(false),
            compact: false,
            unchecked: false,
            name: "Backed".into(),
            underlying: Some(TypeM {
                attrs: if t == 23 { attrs.clone() } else { vec![] },
                kind: TypeK::Prim("uint8".into()),
                optional: false,
            }),
            enumerators: vec![EnumeratorM { pre: pre(false), name: "B".into(), fields: None, value: None, effective: 0 }],
        }),
        DefM::Interface(InterfaceM {
            pre: pre(false),
            name: "Derived".into(),
            bases: vec![TypeM {
                attrs: if t == 24 { attrs.clone() } else { vec![] },
                kind: TypeK::Named("I".into()),
                optional: false,
            }],
            ops: vec![],
        }),
        DefM::Alias(AliasM {
            pre: pre(t == 13),
            name: "T".into(),
            ty: TypeM {
                attrs: if t == 18 { attrs.clone() } else { vec![] },
                kind: TypeK::Prim("bool".into()),
                optional: false,
            },
        }),
    ];
    // a second file that declares no module and holds nothing but the attribute
    let lone = FileM {
        path: "string-1".into(),
        file_attrs: attrs.clone(),
        module: None,
        defs: vec![],
    };
    let mut p = Program {
        files: vec![FileM {
            path: "string-0".into(),
            file_attrs: if t == 0 { attrs.clone() } else { vec![] },
            module: Some(ModuleM {
                attrs: if t == 1 { attrs.clone() } else { vec![] },
                path: vec!["M".into()],
            }),
            defs,
        }],
    };
    if t == 20 {
        p.files.push(lone);
    }
    p
}

const ATTRS_TOTAL: u64 = 17 * 25 * 2;

fn enumerated(cx: &mut CaseCtx, input: Input, build: fn(u64) -> Program, label: &'static str) -> CaseResult {
    let mut p = build(input.index());
    p.fill_effective_values();
    let report = check_program(&p);
    cx.nontrivial = true;
    cx.label(label);
    let texts = p.plain();
    cx.sample_with(|| json!({"files": texts, "violated": report.rules()}));
    compare(cx, &p, &report, &texts)
}

impl Check for C04 {
    fn id(&self) -> &'static str {
        "C04"
    }
    fn rule(&self) -> String {
        format!("families: injected = proptest choice sequences -> well-formed program with 0..3 violations injected from a {}-entry catalogue at boundary values (the reference checker recomputes the violated rule set from the mutated model); tags3 / streams / enums / keys / attributes = bounded-exhaustive small-scope families (every tag-optional-compact assignment over <= 3 members in four hosts; every stream x tag placement over <= 3 members; every enum modifier x underlying x emptiness x fields x value shape; every key leaf x wrapping depth <= 2 x alias x 8 positions incl. enumerator fields, parameters and return members; every attribute x 25 targets (declarations and the types written in them, incl. enumerator fields, element types, an enum's underlying type and an interface's base; a module-less file holding only the attribute; operations with a streamed return value / parameter) x repetition). Oracle both ways: well-formed <=> no error; every reported error code belongs to a violated rule. Non-trivial = ill-formed, or >= 2 rule-relevant features; distinct by hash of the abstract program", CATALOGUE.len())
    }
    fn assumptions(&self) -> Vec<String> {
        vec![
            "which of several simultaneous violations is reported is not asserted (the compiler gates its phases)".into(),
            "an empty field list `A()` under an underlying type is a don't-care".into(),
            "programs in which a module and a definition collide in the name table are not judged (F-15, C15)".into(),
        ]
    }
    fn essential(&self, _tier: Tier) -> Vec<&'static str> {
        vec![
            "well-formed",
            "ill-formed",
            "several-injections",
            "sole:R-TAG-RANGE",
            "sole:R-TAG-OPTIONAL",
            "sole:R-TAG-UNIQUE",
            "sole:R-COMPACT-TAG",
            "sole:R-COMPACT-EMPTY",
            "sole:R-ENUMERATOR-UNIQUE",
            "sole:R-ENUMERATOR-RANGE",
            "sole:R-UNDERLYING-INTEGRAL",
            "sole:R-UNDERLYING-OPTIONAL",
            "sole:R-UNDERLYING-FIELDS",
            "sole:R-ENUM-EMPTY",
            "sole:R-COMPACT-ENUM",
            "sole:R-KEY-OPTIONAL",
            "sole:R-KEY-TYPE",
            "sole:R-KEY-STRUCT-COMPACT",
            "sole:R-KEY-STRUCT-FIELDS",
            "sole:R-STREAM-LAST",
            "sole:R-RETURN-TUPLE",
            "sole:R-INHERITED-OPERATION",
            "sole:R-ALIAS-OPTIONAL",
            "sole:R-MODULE-REQUIRED",
            "sole:R-ATTR-UNKNOWN",
            "sole:R-ATTR-TARGET",
            "sole:R-ATTR-ARG-VALUE",
            "sole:R-ATTR-ARG-COUNT",
            "sole:R-ATTR-REPEATED",
            "sole:R-NAME-FIELD",
            "sole:R-NAME-DEFINITION",
            "sole:R-NAME-ENUMERATOR",
            "sole:R-NAME-OPERATION",
            "sole:R-NAME-PARAMETER",
            "sole:R-NAME-RETURN",
            "sole:R-RESOLVE-MISSING",
            "sole:R-RESOLVE-KIND",
            "rule:R-ALIAS-LOOP",
            "rule:R-CYCLE",
            "rule:R-STREAM-SINGLE",
            "sole:R-DOC-PARAMETER",
        ]
    }
    fn fuzz_families(&self, _tier: Tier) -> Vec<(&'static str, u64)> {
        // libFuzzer runs per job (16 jobs), sized from the measured speed of the instrumented build
        vec![("injected", 12000)]
    }
    fn families(&self, tier: Tier) -> Vec<Family<'_>> {
        let cfg = GenCfg {
            max_files: 2,
            max_defs: 5,
            max_members: 3,
            type_depth: 2,
            docs: false,
            ..GenCfg::default()
        };
        vec![
            Family::enumerate("tags3", TAGS3_TOTAL, tier.pick(7, 1), |cx, i| enumerated(cx, i, tags3_program, "family-tags3")),
            Family::enumerate("streams", STREAMS_TOTAL, 1, |cx, i| enumerated(cx, i, streams_program, "family-streams")),
            Family::enumerate("enums", ENUMS_TOTAL, 1, |cx, i| enumerated(cx, i, enums_program, "family-enums")),
            Family::enumerate("keys", KEYS_TOTAL, 1, |cx, i| enumerated(cx, i, keys_program, "family-keys")),
            Family::enumerate("attributes", ATTRS_TOTAL, 1, |cx, i| enumerated(cx, i, attrs_program, "family-attributes")),
            Family::bytes("injected", 400, tier.pick(3_000, 60_000), move |cx, i| case(cx, i, &cfg)),
            Family::replay_only("direct", |cx, i| {
                // regression inputs: "<expected codes, comma separated or 'accept'>\n<source text>"
                let text = String::from_utf8_lossy(i.bytes()).into_owned();
                let (head, body) = text.split_once('\n').unwrap_or(("accept", &text));
                cx.nontrivial = true;
                let state = compile_strings(&[body.to_owned()], None);
                let diags = diagnostics_of(state, &Default::default());
                let errors = error_codes(&diags);
                if head.trim() == "accept" {
                    check!(errors.is_empty(), "direct/reject-mismatch", "expected acceptance:\n{}", summarize(&diags));
                } else {
                    let allowed: Vec<&str> = head.split(',').map(|s| s.trim()).collect();
                    check!(!errors.is_empty(), "direct/accept-mismatch", "expected one of {allowed:?}, but the program was accepted");
                    for c in &errors {
                        check!(allowed.contains(&c.as_str()), "direct/reject-mismatch", "unexpected code {c}:\n{}", summarize(&diags));
                    }
                }
                Ok(())
            }),
        ]
    }
}
