//! Thin helpers around the public compile entry points.

use slicec::compilation_state::CompilationState;
use slicec::diagnostics::{Diagnostic, DiagnosticLevel};
use slicec::slice_options::SliceOptions;

#[derive(Clone, Debug, PartialEq, Eq)]
pub struct DiagObs {
    pub code: String,
    pub level: String,
    pub message: String,
    pub span: Option<((usize, usize), (usize, usize), String)>,
    pub notes: Vec<(String, Option<((usize, usize), (usize, usize), String)>)>,
    pub scope: Option<String>,
}

pub fn level_name(l: DiagnosticLevel) -> &'static str {
    match l {
        DiagnosticLevel::Error => "error",
        DiagnosticLevel::Warning => "warning",
        DiagnosticLevel::Allowed => "allowed",
    }
}

pub fn obs_diag(d: &Diagnostic) -> DiagObs {
    let sp = |s: &slicec::slice_file::Span| ((s.start.row, s.start.col), (s.end.row, s.end.col), s.file.clone());
    DiagObs {
        code: d.code().to_owned(),
        level: level_name(d.level()).to_owned(),
        message: d.message(),
        span: d.span().map(sp),
        notes: d.notes().iter().map(|n| (n.message.clone(), n.span.as_ref().map(sp))).collect(),
        scope: d.scope().cloned(),
    }
}

pub fn compile_strings(texts: &[String], options: Option<&SliceOptions>) -> CompilationState {
    let refs: Vec<&str> = texts.iter().map(|s| s.as_str()).collect();
    slicec::compile_from_strings(&refs, options)
}

/// Consumes the state and returns its diagnostics after lint-level patching.
pub fn diagnostics_of(state: CompilationState, options: &SliceOptions) -> Vec<DiagObs> {
    state.into_diagnostics(options).iter().map(obs_diag).collect()
}

pub fn error_codes(diags: &[DiagObs]) -> Vec<String> {
    diags.iter().filter(|d| d.level == "error").map(|d| d.code.clone()).collect()
}

pub fn summarize(diags: &[DiagObs]) -> String {
    diags
        .iter()
        .map(|d| {
            format!(
                "{} [{}] {} @ {}",
                d.level,
                d.code,
                d.message,
                d.span
                    .as_ref()
                    .map(|s| format!("{}:{}:{}-{}:{}", s.2, s.0 .0, s.0 .1, s.1 .0, s.1 .1))
                    .unwrap_or_else(|| "-".into())
            )
        })
        .collect::<Vec<_>>()
        .join("\n")
}
