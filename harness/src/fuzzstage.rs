//! Coverage-guided stage of the thorough tier.
//!
//! The libFuzzer target `/verif/fuzz/fuzz_targets/family.rs` (built by `./check` with
//! `cargo +nightly fuzz build`: SanitizerCoverage + AddressSanitizer + debug assertions) calls
//! [`fuzz_case`] for every input.  VFUZZ_PROP / VFUZZ_FAMILY select a byte-vector family of a check;
//! the input bytes are the same choice sequence the proptest driver feeds to that family's case
//! function, and the oracle is that case function.  A failing oracle aborts the process, so libFuzzer
//! saves the input; the supervisor ([`run_stage`]) then confirms every saved input with the ordinary
//! single-case process (`vcheck one`) before it is reported.
//!
//! What coverage guidance adds over the proptest driver: the byte strings that reach new code in
//! slicec / slice-codec are kept and mutated further, so rarely taken branches (deep grammar
//! productions, error paths of the decoder) are revisited with many variations instead of once.

use crate::engine::*;
use serde_json::{json, Value};
use std::cell::UnsafeCell;
use std::collections::BTreeMap;
use std::path::{Path, PathBuf};
use std::time::{Duration, Instant};

/// Leak detection off (slicec's AST owns cyclic raw pointers by design and the process is short
/// lived); a malloc beyond 3 GiB returns null as it does in the ordinary build under its 3 GiB
/// address-space cap, instead of aborting the campaign; small quarantine to keep RSS readings meaningful.
pub const ASAN_OPTIONS: &str = "detect_leaks=0:abort_on_error=1:allocator_may_return_null=1:max_allocation_size_mb=3072:quarantine_size_mb=32:detect_stack_use_after_return=0";

struct Session {
    ctx: ShardCtx,
    case: &'static (dyn Fn(&mut CaseCtx, Input) -> CaseResult + 'static),
    family: String,
    max_len: usize,
    stats_path: Option<PathBuf>,
}

struct Cell(UnsafeCell<Option<Session>>);
// libFuzzer calls the target from one thread only.
unsafe impl Sync for Cell {}
static SESSION: Cell = Cell(UnsafeCell::new(None));

fn init() -> Session {
    let prop = std::env::var("VFUZZ_PROP").expect("VFUZZ_PROP");
    let family = std::env::var("VFUZZ_FAMILY").expect("VFUZZ_FAMILY");
    let check = crate::find(&prop);
    install_panic_hook();
    let families: &'static Vec<Family<'static>> = Box::leak(Box::new(check.families(Tier::Thorough)));
    let fam = families.iter().find(|f| f.name == family).unwrap_or_else(|| {
        eprintln!("vfuzz: {prop} has no family {family}");
        std::process::exit(2)
    });
    let max_len = match fam.gen {
        Gen::Bytes { max_len, .. } => max_len,
        _ => {
            eprintln!("vfuzz: family {family} is not a byte-vector family");
            std::process::exit(2)
        }
    };
    let workdir = PathBuf::from(format!("{}/work/fuzz.{}", verif_root(), std::process::id()));
    let _ = std::fs::create_dir_all(&workdir);
    let journal = Journal::create(&workdir.join("fuzz.journal"));
    let ctx = ShardCtx {
        prop: check.id(),
        tier: Tier::Thorough,
        seed: 0,
        shard: std::env::var("VFUZZ_JOB").ok().and_then(|s| s.parse().ok()).unwrap_or(0),
        nshards: 1,
        workdir,
        stats: Stats::default(),
        violation: None,
        journal,
        case_no: 0,
        strict: false,
    };
    extern "C" fn at_exit() {
        dump_stats();
    }
    unsafe {
        libc::atexit(at_exit);
    }
    Session {
        ctx,
        case: fam.case.as_ref().expect("case function").as_ref(),
        family,
        max_len,
        stats_path: std::env::var_os("VFUZZ_STATS").map(PathBuf::from),
    }
}

fn dump_stats() {
    let sess = unsafe { &mut *SESSION.0.get() };
    if let Some(s) = sess.as_mut() {
        if let Some(p) = &s.stats_path {
            let res = ShardResult {
                stats: std::mem::take(&mut s.ctx.stats),
                violation: None,
                finished: true,
            };
            let _ = std::fs::write(p, serde_json::to_vec(&res).unwrap_or_default());
        }
        let _ = std::fs::remove_dir_all(&s.ctx.workdir);
    }
}

/// Entry point of the libFuzzer target.
pub fn fuzz_case(data: &[u8]) {
    let slot = unsafe { &mut *SESSION.0.get() };
    if slot.is_none() {
        *slot = Some(init());
    }
    let s = slot.as_mut().unwrap();
    let data = &data[..data.len().min(s.max_len)];
    let input = Input::Bytes(data);
    let family = s.family.clone();
    let (cx, r) = s.ctx.exec(&family, s.case, input, false);
    let known = !cx.known_hits.is_empty();
    s.ctx.account_case(&family, cx, input);
    if let Err(f) = r {
        if known {
            return;
        }
        eprintln!("VFUZZ-FAIL class={}", f.class);
        eprintln!("{}", f.detail);
        dump_stats();
        std::process::abort();
    }
}

// ---------------------------------------------------------------------------------------------
// Supervisor side
// ---------------------------------------------------------------------------------------------

#[derive(Default)]
pub struct StageOutcome {
    pub stats: Stats,
    pub violations: Vec<Violation>,
    pub infra: Vec<String>,
    pub report: Vec<Value>,
}

fn parse_final_stats(log: &str) -> (u64, u64, u64, u64) {
    // (executed units, cov, ft, corpus units) from libFuzzer's output
    let mut execs = 0;
    let (mut cov, mut ft, mut corp) = (0, 0, 0);
    for l in log.lines() {
        if let Some(v) = l.strip_prefix("stat::number_of_executed_units:") {
            execs = v.trim().parse().unwrap_or(0);
        }
        if l.starts_with('#') && l.contains(" cov: ") {
            let grab = |key: &str| -> u64 {
                l.split(key).nth(1).and_then(|r| r.trim_start().split(|c: char| !c.is_ascii_digit()).next()).and_then(|d| d.parse().ok()).unwrap_or(0)
            };
            cov = grab(" cov: ");
            ft = grab(" ft: ");
            corp = grab(" corp: ");
        }
    }
    (execs, cov, ft, corp)
}

/// Runs the campaigns of one check; called by the supervisor in the thorough tier when
/// VCHECK_FUZZ_BIN names the built target.
pub fn run_stage(check: &'static dyn Check, tier: Tier, seed: u64, workdir: &Path, jobs: usize) -> StageOutcome {
    let mut out = StageOutcome::default();
    let Some(bin) = std::env::var_os("VCHECK_FUZZ_BIN").map(PathBuf::from) else { return out };
    if !bin.exists() {
        out.stats.notes.push(format!("fuzz stage skipped: {} not built", bin.display()));
        return out;
    }
    let plan = check.fuzz_families(tier);
    if plan.is_empty() {
        return out;
    }
    let prop = check.id();
    let families = check.families(tier);
    let case_timeout = check.case_timeout();
    // VCHECK_FUZZ_SCALE multiplies the number of runs per job (long campaigns outside the registered tiers)
    let scale: u64 = std::env::var("VCHECK_FUZZ_SCALE").ok().and_then(|s| s.parse().ok()).unwrap_or(1).max(1);
    for (fname, runs) in plan {
        let runs = runs * scale;
        let Some(fam) = families.iter().find(|f| f.name == fname) else { continue };
        let Gen::Bytes { max_len, .. } = fam.gen else { continue };
        let fdir = workdir.join(format!("fuzz-{fname}"));
        let _ = std::fs::create_dir_all(&fdir);
        let seeds = PathBuf::from(format!("{}/fuzz/seeds/{prop}/{fname}", verif_root()));
        let dict = PathBuf::from(format!("{}/fuzz/dict/{prop}-{fname}.dict", verif_root()));
        let t0 = Instant::now();
        let mut children = Vec::new();
        for job in 0..jobs {
            let jdir = fdir.join(format!("job{job}"));
            let corpus = jdir.join("corpus");
            let arts = jdir.join("artifacts");
            let _ = std::fs::create_dir_all(&corpus);
            let _ = std::fs::create_dir_all(&arts);
            let log = std::fs::File::create(jdir.join("log")).expect("fuzz log");
            let log2 = log.try_clone().expect("clone");
            let s = (derive_seed(seed, prop, job, fname) % 0xffff_fffe) + 1; // 0 would mean "random"
            let mut cmd = std::process::Command::new(&bin);
            cmd.arg(format!("-runs={runs}"))
                .arg(format!("-seed={s}"))
                .arg(format!("-max_len={}", max_len.max(1)))
                .arg("-len_control=0")
                .arg(format!("-timeout={}", (case_timeout.as_secs() * 3).max(30)))
                .arg("-rss_limit_mb=6144")
                .arg("-malloc_limit_mb=4096")
                .arg("-print_final_stats=1")
                .arg("-verbosity=1")
                .arg(format!("-artifact_prefix={}/", arts.display()))
                .arg(&corpus);
            if seeds.is_dir() {
                cmd.arg(&seeds);
            }
            if dict.is_file() {
                cmd.arg(format!("-dict={}", dict.display()));
            }
            cmd.env("VFUZZ_PROP", prop)
                .env("VFUZZ_FAMILY", fname)
                .env("VFUZZ_JOB", job.to_string())
                .env("VFUZZ_STATS", jdir.join("stats.json"))
                .env("ASAN_OPTIONS", ASAN_OPTIONS)
                .env("RUST_BACKTRACE", "0")
                .current_dir(&jdir)
                .stdin(std::process::Stdio::null())
                .stdout(log)
                .stderr(log2);
            match cmd.spawn() {
                Ok(c) => children.push((job, jdir, c)),
                Err(e) => out.infra.push(format!("fuzz stage: cannot start {}: {e}", bin.display())),
            }
        }
        // generous overall bound: the campaign is bounded by -runs, this only catches a wedged job
        let deadline = Instant::now() + Duration::from_secs(3600 * scale.min(6));
        let (mut execs, mut cov, mut ft, mut corp) = (0u64, 0u64, 0u64, 0u64);
        let mut artifacts: Vec<(PathBuf, String)> = Vec::new();
        for (job, jdir, mut c) in children {
            let status = loop {
                match c.try_wait() {
                    Ok(Some(s)) => break Some(s),
                    Ok(None) if Instant::now() > deadline => {
                        let _ = c.kill();
                        let _ = c.wait();
                        break None;
                    }
                    Ok(None) => std::thread::sleep(Duration::from_millis(50)),
                    Err(_) => break None,
                }
            };
            let log = std::fs::read_to_string(jdir.join("log")).unwrap_or_default();
            let (e, cv, f, cp) = parse_final_stats(&log);
            execs += e;
            cov = cov.max(cv);
            ft = ft.max(f);
            corp += cp;
            if let Some(r) = std::fs::read(jdir.join("stats.json")).ok().and_then(|b| serde_json::from_slice::<ShardResult>(&b).ok()) {
                out.stats.merge(r.stats);
            }
            let mut found = false;
            if let Ok(rd) = std::fs::read_dir(jdir.join("artifacts")) {
                for ent in rd.flatten() {
                    let name = ent.file_name().to_string_lossy().into_owned();
                    artifacts.push((ent.path(), name));
                    found = true;
                }
            }
            match status {
                None => out.infra.push(format!("fuzz stage: job {job} of {fname} did not finish within an hour")),
                Some(s) if !s.success() && !found => out.infra.push(format!(
                    "fuzz stage: job {job} of {fname} ended with {s:?} without saving an input: {}",
                    tail_text(&log, 600)
                )),
                _ => {}
            }
        }
        // every saved input is confirmed by the ordinary single-case process before it counts
        let mut seen: BTreeMap<String, ()> = BTreeMap::new();
        let mut confirmed = 0;
        for (path, name) in &artifacts {
            let Ok(bytes) = std::fs::read(path) else { continue };
            let bytes = &bytes[..bytes.len().min(max_len)];
            let hex = to_hex(bytes);
            if seen.insert(hex.clone(), ()).is_some() {
                continue;
            }
            let o = run_single(prop, fname, &hex, case_timeout * 3);
            if o.timed_out {
                if check.timeout_is_violation() {
                    out.violations.push(bytes_violation(prop, fname, &hex, "timeout", format!("libFuzzer input does not finish within {:?} in a single-case process", case_timeout * 3)));
                    confirmed += 1;
                } else {
                    out.infra.push(format!("fuzz stage: input {name} of {fname} hangs; inconclusive for {prop}, see C01"));
                }
            } else if !o.pass {
                let rendered = render_in_child(prop, fname, "bytes", &hex);
                let mut v = bytes_violation(prop, fname, &hex, &o.class, o.output);
                v.rendered = rendered.unwrap_or(Value::Null);
                out.violations.push(v);
                confirmed += 1;
            } else if name.starts_with("crash-") {
                // Passes in the ordinary build: re-run in the instrumented build to tell a sanitizer
                // finding (reproducible) from a fluke.
                let (repro, text) = rerun_in_fuzz_build(&bin, prop, fname, path);
                if repro {
                    let mut v = bytes_violation(
                        prop,
                        fname,
                        &hex,
                        "sanitizer-or-debug-assertion",
                        format!("the input fails only in the instrumented build (AddressSanitizer + debug assertions):\n{}", tail_text(&text, 1500)),
                    );
                    v.input.note = "engine=libfuzzer-asan".into();
                    v.rendered = render_in_child(prop, fname, "bytes", &hex).unwrap_or(Value::Null);
                    out.violations.push(v);
                    confirmed += 1;
                } else {
                    out.stats.notes.push(format!("fuzz stage: {name} of {fname} did not reproduce (ordinary and instrumented build pass)"));
                }
            } else {
                // timeout-/oom-/slow-unit under ASan that is fine in the ordinary build: not a finding
                out.stats.notes.push(format!("fuzz stage: {name} of {fname} is slow or large only under the sanitizer build"));
            }
        }
        out.report.push(json!({
            "family": fname,
            "engine": "libFuzzer (cargo-fuzz, ASan, debug assertions)",
            "jobs": jobs,
            "runs_per_job": runs,
            "executions": execs,
            "cov_edges_max": cov,
            "features_max": ft,
            "corpus_units": corp,
            "saved_inputs": artifacts.len(),
            "confirmed_failures": confirmed,
            "seed_corpus": if seeds.is_dir() { seeds.display().to_string() } else { "none (empty start)".into() },
            "wall_s": t0.elapsed().as_secs_f64(),
        }));
        if !out.violations.is_empty() {
            break;
        }
    }
    out
}

fn tail_text(s: &str, n: usize) -> String {
    let chars: Vec<char> = s.chars().collect();
    chars[chars.len().saturating_sub(n)..].iter().collect()
}

fn bytes_violation(prop: &str, family: &str, hex: &str, class: &str, detail: String) -> Violation {
    Violation {
        property: prop.to_owned(),
        family: family.to_owned(),
        class: class.to_owned(),
        detail,
        input: ReplayInput {
            property: prop.to_owned(),
            family: family.to_owned(),
            kind: "bytes".into(),
            bytes_hex: hex.to_owned(),
            index: 0,
            expect: String::new(),
            note: String::new(),
        },
        rendered: Value::Null,
        shrink_steps: 0,
    }
}

/// Re-runs one saved input in the instrumented build; (fails again, output).
pub fn rerun_in_fuzz_build(bin: &Path, prop: &str, family: &str, input: &Path) -> (bool, String) {
    let o = std::process::Command::new(bin)
        .arg(input)
        .env("VFUZZ_PROP", prop)
        .env("VFUZZ_FAMILY", family)
        .env("ASAN_OPTIONS", format!("{ASAN_OPTIONS}:symbolize=1"))
        .env("RUST_BACKTRACE", "0")
        .stdin(std::process::Stdio::null())
        .output();
    match o {
        Ok(o) => (!o.status.success(), String::from_utf8_lossy(&o.stderr).into_owned()),
        Err(e) => (false, format!("cannot run {}: {e}", bin.display())),
    }
}
