//! C05 — illegal cycles are always diagnosed; acyclic definitions never are.
//!
//! Reference = strongly connected components of the containment / alias / inheritance graph.
//! The E032 chains are reconstructed from the diagnostic's note *spans* (not from message text):
//! note i must be the span of a field f_i written by the printer, owner(f_0) is the type at the
//! diagnostic's span, the type of f_i mentions owner(f_{i+1}), the last mentions owner(f_0).

use crate::compile::*;
use crate::engine::*;
use crate::gen::pick;
use crate::model::*;
use crate::render::{render_program, Rendered};
use crate::rules::nodes_on_cycles;
use crate::{check, fail};
use arbitrary::Unstructured;
use serde_json::json;
use std::collections::{BTreeMap, BTreeSet};

pub struct C05;

pub const WRAPPERS: usize = 10;
const WRAPPER_NAMES: [&str; WRAPPERS] = [
    "plain",
    "optional",
    "sequence",
    "sequence-of-optional",
    "dictionary-value",
    "dictionary-key",
    "result-success",
    "result-failure",
    "nested-two-deep",
    "alias-of-anonymous",
];

#[derive(Clone, Debug)]
pub struct Graph {
    pub n: usize,
    /// enum (true) or struct (false)
    pub is_enum: Vec<bool>,
    /// (from, to, wrapper)
    pub edges: Vec<(usize, usize, usize)>,
    /// per enum node: 0 = no field-less enumerator, 1 = one before the enumerators with fields,
    /// 2 = one after them, 3 = one in between (after the first)
    pub leaf: Vec<u8>,
    /// the nodes are spread over two modules that repeat each other's simple names (M1::N0, M2::N0,
    /// M1::N1, ...) and refer to each other by globally qualified names
    pub two_modules: bool,
    /// the fields (enumerators) of every node are written in the reverse order of their targets
    pub reverse: bool,
    /// the nodes are defined in reverse index order (the first-defined member of a cycle is then
    /// not the one with the smallest name)
    pub rev_defs: bool,
}

fn wrap(target: &str, wrapper: usize, aliases: &mut Vec<DefM>, two_modules: bool) -> TypeM {
    let t = TypeM::named(target);
    match wrapper {
        0 => t,
        1 => t.opt(),
        2 => TypeM::seq(t),
        3 => TypeM::seq(t.opt()),
        4 => TypeM::dict(TypeM::prim("int32"), t),
        5 => TypeM::dict(t, TypeM::prim("int32")),
        6 => TypeM::result(t, TypeM::prim("int32")),
        7 => TypeM::result(TypeM::prim("int32"), t),
        8 => TypeM::seq(TypeM::dict(TypeM::prim("string"), t.opt())),
        _ => {
            let name = format!("Al{}", aliases.len());
            aliases.push(DefM::Alias(AliasM {
                pre: Prelude::default(),
                name: name.clone(),
                ty: TypeM::seq(t),
            }));
            // (aliases live in the first file's module)
            TypeM::named(&if two_modules { format!("::M1::{name}") } else { name })
        }
    }
}

/// Builds the program of a containment graph.  Returns it with, for every field path, its
/// (owner node, target node).
pub fn graph_program(g: &Graph) -> (Program, BTreeMap<String, (usize, usize)>) {
    let two = g.two_modules;
    let nfiles = if two { 2 } else { 1 };
    let file_of = |i: usize| if two { i % 2 } else { 0 };
    let simple = |i: usize| if two { format!("N{}", i / 2) } else { format!("N{i}") };
    let spelled = |i: usize| if two { format!("::M{}::N{}", 1 + i % 2, i / 2) } else { format!("N{i}") };
    let mut file_defs: Vec<Vec<DefM>> = vec![Vec::new(); nfiles];
    let mut aliases: Vec<DefM> = Vec::new();
    let mut fields_of: BTreeMap<String, (usize, usize)> = BTreeMap::new();
    for i in 0..g.n {
        let mut out: Vec<&(usize, usize, usize)> = g.edges.iter().filter(|e| e.0 == i).collect();
        if g.reverse {
            out.reverse();
        }
        let name = simple(i);
        let fi = file_of(i);
        let di = file_defs[fi].len();
        let defs = &mut file_defs[fi];
        if g.is_enum[i] {
            let mut enumerators = Vec::new();
            let leaf_mode = g.leaf.get(i).copied().unwrap_or(0);
            let leaf = |n: usize| EnumeratorM {
                pre: Prelude::default(),
                name: format!("Leaf{n}"),
                fields: None,
                value: None,
                effective: n as i128,
            };
            if leaf_mode == 1 && !out.is_empty() {
                enumerators.push(leaf(0));
            }
            for (k, e) in out.iter().enumerate() {
                let ty = wrap(&spelled(e.1), e.2, &mut aliases, two);
                let at = enumerators.len();
                fields_of.insert(format!("f{fi}/d{di}/m{at}/m0"), (i, e.1));
                enumerators.push(EnumeratorM {
                    pre: Prelude::default(),
                    name: format!("V{k}"),
                    fields: Some(vec![FieldM {
                        pre: Prelude::default(),
                        tag: None,
                        name: format!("e{k}"),
                        ty,
                    }]),
                    value: None,
                    effective: at as i128,
                });
                if leaf_mode == 3 && k == 0 {
                    let n = enumerators.len();
                    enumerators.push(leaf(n));
                }
            }
            if leaf_mode == 2 && !out.is_empty() {
                let n = enumerators.len();
                enumerators.push(leaf(n));
            }
            if enumerators.is_empty() {
                enumerators.push(EnumeratorM {
                    pre: Prelude::default(),
                    name: "Leaf".into(),
                    fields: None,
                    value: None,
                    effective: 0,
                });
            }
            defs.push(DefM::Enum(EnumM {
                pre: Prelude::default(),
                compact: false,
                unchecked: false,
                name,
                underlying: None,
                enumerators,
            }));
        } else {
            let mut fields = Vec::new();
            for (k, e) in out.iter().enumerate() {
                let ty = wrap(&spelled(e.1), e.2, &mut aliases, two);
                fields_of.insert(format!("f{fi}/d{di}/m{k}"), (i, e.1));
                fields.push(FieldM {
                    pre: Prelude::default(),
                    tag: None,
                    name: format!("e{k}"),
                    ty,
                });
            }
            defs.push(DefM::Struct(StructM {
                pre: Prelude::default(),
                compact: false,
                name,
                fields,
            }));
        }
    }
    if g.rev_defs {
        // reverse the definitions of every file and re-key the recorded field paths
        let counts: Vec<usize> = file_defs.iter().map(|d| d.len()).collect();
        for d in file_defs.iter_mut() {
            d.reverse();
        }
        let rekey = |path: &str| -> String {
            let segs: Vec<&str> = path.split('/').collect();
            let fi: usize = segs[0][1..].parse().unwrap();
            let di: usize = segs[1][1..].parse().unwrap();
            let mut out = vec![segs[0].to_owned(), format!("d{}", counts[fi] - 1 - di)];
            out.extend(segs[2..].iter().map(|s| s.to_string()));
            out.join("/")
        };
        fields_of = fields_of.into_iter().map(|(k, v)| (rekey(&k), v)).collect();
    }
    file_defs[0].extend(aliases);
    let p = Program {
        files: file_defs
            .into_iter()
            .enumerate()
            .map(|(k, defs)| FileM {
                path: format!("string-{k}"),
                file_attrs: vec![],
                module: Some(ModuleM {
                    attrs: vec![],
                    path: vec![if two { format!("M{}", k + 1) } else { "M".into() }],
                }),
                defs,
            })
            .collect(),
    };
    (p, fields_of)
}

/// Path of node `i` in the program of `g` (`f<file>/d<index in the file>`).
pub fn node_path(g: &Graph, i: usize) -> String {
    let (fi, di, count) = if g.two_modules {
        // nodes i with i % 2 == fi live in file fi
        (i % 2, i / 2, (g.n + 1 - i % 2) / 2)
    } else {
        (0, i, g.n)
    };
    if g.rev_defs {
        format!("f{fi}/d{}", count - 1 - di)
    } else {
        format!("f{fi}/d{di}")
    }
}

fn file_no(name: &str) -> usize {
    name.rsplit('-').next().and_then(|k| k.parse().ok()).unwrap_or(0)
}

fn span_start(d: &DiagObs) -> Option<(usize, (usize, usize))> {
    d.span.as_ref().map(|s| (file_no(&s.2), s.0))
}

pub fn containment_oracle(cx: &mut CaseCtx, g: &Graph) -> CaseResult {
    let (p, fields_of) = graph_program(g);
    let rendered: Vec<Rendered> = render_program(&p, &[], false);
    let texts: Vec<String> = rendered.iter().map(|r| r.text.clone()).collect();
    cx.sample_with(|| json!({"files": texts, "edges": g.edges.iter().map(|e| format!("N{}->N{} via {}", e.0, e.1, WRAPPER_NAMES[e.2])).collect::<Vec<_>>()}));
    // reference: SCC
    let mut edges: BTreeMap<String, BTreeSet<String>> = BTreeMap::new();
    for i in 0..g.n {
        edges.entry(format!("N{i}")).or_default();
    }
    for (a, b, _) in &g.edges {
        edges.get_mut(&format!("N{a}")).unwrap().insert(format!("N{b}"));
    }
    let on_cycle: BTreeSet<usize> = nodes_on_cycles(&edges).iter().map(|s| s[1..].parse().unwrap()).collect();
    cx.label(if on_cycle.is_empty() { "acyclic" } else { "cyclic" });
    cx.label_if(g.two_modules && !on_cycle.is_empty(), "cycle-across-two-modules-with-equal-names");
    for (_, _, w) in &g.edges {
        cx.label(format!("wrapper-{}", WRAPPER_NAMES[*w]));
    }
    cx.label_if(!on_cycle.is_empty() && on_cycle.iter().all(|i| g.is_enum[*i]), "enum-only-cycle");
    cx.label_if(!on_cycle.is_empty() && on_cycle.len() < g.n && g.edges.iter().any(|e| on_cycle.contains(&e.0) && !on_cycle.contains(&e.1)), "cycle-with-acyclic-offshoot");
    cx.label_if(
        g.edges.iter().any(|e| on_cycle.contains(&e.0) && on_cycle.contains(&e.1) && e.2 != 0) ,
        "cycle-through-wrapper",
    );
    let state = compile_strings(&texts, None);
    let diags = diagnostics_of(state, &Default::default());
    let e032: Vec<&DiagObs> = diags.iter().filter(|d| d.code == "E032").collect();
    let src = || texts.join("\n");
    if on_cycle.is_empty() {
        check!(
            e032.is_empty(),
            "false-cycle",
            "the graph is acyclic but E032 is reported:\n{}\n--- source ---\n{}",
            summarize(&diags),
            src()
        );
        return Ok(());
    }
    if e032.is_empty() {
        let wrappers: BTreeSet<&str> = g
            .edges
            .iter()
            .filter(|e| on_cycle.contains(&e.0) && on_cycle.contains(&e.1))
            .map(|e| WRAPPER_NAMES[e.2])
            .collect();
        fail!(
            format!("missed-cycle/{}", wrappers.into_iter().collect::<Vec<_>>().join("+")),
            "nodes {:?} lie on a cycle but no E032 is reported (diagnostics: {})\n--- source ---\n{}",
            on_cycle,
            summarize(&diags),
            src()
        );
    }
    // map positions back to nodes and fields
    let file_of_path = |path: &str| -> usize { path[1..].split('/').next().and_then(|k| k.parse().ok()).unwrap_or(0) };
    let start_of = |path: &str| -> (usize, (usize, usize)) {
        let f = file_of_path(path);
        let r = &rendered[f];
        (f, r.tok_start(r.elems[path].first))
    };
    let node_at: BTreeMap<(usize, (usize, usize)), usize> = (0..g.n).map(|i| (start_of(&node_path(g, i)), i)).collect();
    let field_at: BTreeMap<(usize, (usize, usize)), &String> = fields_of.keys().map(|path| (start_of(path), path)).collect();
    let mut named: BTreeSet<usize> = BTreeSet::new();
    for d in &e032 {
        let Some(start) = span_start(d) else {
            fail!("cycle-report-without-span", "E032 without span");
        };
        let Some(&root) = node_at.get(&start) else {
            fail!("cycle-report-misplaced", "E032 at {:?} is not the span of a struct or enum\n--- source ---\n{}", start, src());
        };
        check!(!d.notes.is_empty(), "cycle-report-without-chain", "E032 for N{root} carries no notes");
        let mut owner = root;
        named.insert(root);
        for (ni, (msg, span)) in d.notes.iter().enumerate() {
            let Some(span) = span else {
                fail!("cycle-chain-note-without-span", "note {ni} of the E032 for N{root} has no span: {msg}");
            };
            let Some(path) = field_at.get(&(file_no(&span.2), span.0)) else {
                fail!("cycle-chain-not-a-field", "note {ni} of the E032 for N{root} points at {:?}, which is not a field\n--- source ---\n{}", span.0, src());
            };
            let (f_owner, f_target) = fields_of[*path];
            check!(
                f_owner == owner,
                "cycle-chain-broken",
                "E032 for N{root}: note {ni} is field {path} of N{f_owner}, but the chain is at N{owner}\n{}\n--- source ---\n{}",
                summarize(&diags),
                src()
            );
            owner = f_target;
            named.insert(f_owner);
        }
        check!(
            owner == root,
            "cycle-chain-does-not-close",
            "E032 for N{root}: the chain of fields ends at N{owner}\n{}\n--- source ---\n{}",
            summarize(&diags),
            src()
        );
    }
    let unnamed: Vec<&usize> = on_cycle.iter().filter(|i| !named.contains(i)).collect();
    check!(
        unnamed.is_empty(),
        "cycle-member-not-named",
        "nodes {:?} lie on a cycle but no reported chain names them (named: {:?})\n{}\n--- source ---\n{}",
        unnamed,
        named,
        summarize(&diags),
        src()
    );
    let extra: Vec<&usize> = named.iter().filter(|i| !on_cycle.contains(i)).collect();
    check!(extra.is_empty(), "acyclic-node-named", "nodes {:?} are named by a chain but lie on no cycle", extra);
    Ok(())
}

// ---- enumerations ----------------------------------------------------------------------------

/// n <= 3: index -> (n, edge bitmask, kinds, wrapper)
pub fn small_graph(mut idx: u64) -> Graph {
    let idx0 = idx;
    // blocks: n=1: 2*2*10, n=2: 16*4*10, n=3: 512*8*10
    let sizes = [2u64 * 2 * 10, 16 * 4 * 10, 512 * 8 * 10];
    let mut n = 1;
    for s in sizes {
        if idx < s {
            break;
        }
        idx -= s;
        n += 1;
    }
    let wrapper = (idx % 10) as usize;
    idx /= 10;
    let kinds = idx % (1 << n);
    idx /= 1 << n;
    let mask = idx;
    let mut edges = Vec::new();
    for a in 0..n {
        for b in 0..n {
            if mask >> (a * n + b) & 1 == 1 {
                edges.push((a, b, wrapper));
            }
        }
    }
    Graph {
        n,
        is_enum: (0..n).map(|i| kinds >> i & 1 == 1).collect(),
        edges,
        // an extra, sampled dimension (the enumeration itself is unchanged)
        leaf: (0..n).map(|i| (hash64(&("leaf", idx0, i)) % 4) as u8).collect(),
        two_modules: n >= 2 && hash64(&("two-modules", idx0)) % 2 == 1,
        reverse: hash64(&("reverse", idx0)) % 2 == 1,
        rev_defs: hash64(&("rev-defs", idx0)) % 2 == 1,
    }
}

pub const SMALL_TOTAL: u64 = 2 * 2 * 10 + 16 * 4 * 10 + 512 * 8 * 10;

/// n = 4: every edge set; kinds and wrappers derived from the index (mixed wrappers).
fn graph4(idx: u64) -> Graph {
    let mask = idx & 0xffff;
    let h = hash64(&("graph4", idx));
    let mut edges = Vec::new();
    let mut k = 0;
    for a in 0..4 {
        for b in 0..4 {
            if mask >> (a * 4 + b) & 1 == 1 {
                edges.push((a, b, ((h >> (k * 4)) as usize) % WRAPPERS));
                k = (k + 1) % 15;
            }
        }
    }
    Graph {
        n: 4,
        is_enum: (0..4).map(|i| h >> (60 + i) & 1 == 1).collect(),
        edges,
        leaf: (0..4).map(|i| (hash64(&("leaf4", idx, i)) % 4) as u8).collect(),
        two_modules: hash64(&("two-modules4", idx)) % 2 == 1,
        reverse: hash64(&("reverse4", idx)) % 2 == 1,
        rev_defs: hash64(&("rev-defs4", idx)) % 2 == 1,
    }
}

fn random_graph(u: &mut Unstructured) -> Graph {
    let n = 2 + pick(u, 9);
    let mut edges = Vec::new();
    for a in 0..n {
        // out-degree <= 2 keeps the number of simple paths small (F-01f is probed by C01)
        let deg = pick(u, 3);
        for _ in 0..deg {
            let b = pick(u, n);
            edges.push((a, b, pick(u, WRAPPERS)));
        }
    }
    Graph {
        n,
        is_enum: (0..n).map(|_| pick(u, 3) == 0).collect(),
        edges,
        leaf: (0..n).map(|_| pick(u, 4) as u8).collect(),
        two_modules: pick(u, 2) == 1,
        reverse: pick(u, 2) == 1,
        rev_defs: pick(u, 2) == 1,
    }
}

// ---- alias graphs ---------------------------------------------------------------------------

/// <= 4 aliases, each target one of 8 forms over int32 / alias j (see `ALIAS_FORMS`)
pub const ALIAS_FORMS: [&str; 10] = [
    "int32",
    "alias j",
    "Sequence<alias j>",
    "Dictionary<string, alias j?>",
    "Result<alias j, bool>",
    "Result<bool, alias j>",
    "Result<bool, Sequence<alias j>>",
    "Sequence<Result<alias j?, string>>",
    // the same alias twice: a converging (acyclic) shape unless j leads back
    "Result<alias j, alias j>",
    "Dictionary<string, Result<alias j, Sequence<alias j>>>",
];

pub fn alias_program(mut idx: u64) -> (Program, bool) {
    let n = 1 + (idx % 4) as usize;
    idx /= 4;
    let mut defs = Vec::new();
    let mut edges: BTreeMap<String, BTreeSet<String>> = BTreeMap::new();
    for i in 0..n {
        let form = (idx % 10) as usize;
        idx /= 10;
        let j = (idx % n as u64) as usize;
        idx /= 4;
        let target = format!("A{j}");
        let e = edges.entry(format!("A{i}")).or_default();
        if form != 0 {
            e.insert(target.clone());
        }
        let t = TypeM::named(&target);
        let ty = match form {
            0 => TypeM::prim("int32"),
            1 => t,
            2 => TypeM::seq(t),
            3 => TypeM::dict(TypeM::prim("string"), t.opt()),
            4 => TypeM::result(t, TypeM::prim("bool")),
            5 => TypeM::result(TypeM::prim("bool"), t),
            6 => TypeM::result(TypeM::prim("bool"), TypeM::seq(t)),
            7 => TypeM::seq(TypeM::result(t.opt(), TypeM::prim("string"))),
            8 => TypeM::result(t.clone(), t),
            _ => TypeM::dict(TypeM::prim("string"), TypeM::result(t.clone(), TypeM::seq(t))),
        };
        defs.push(DefM::Alias(AliasM {
            pre: Prelude::default(),
            name: format!("A{i}"),
            ty,
        }));
    }
    // a user of the first alias: later phases must not recurse forever
    defs.push(DefM::Struct(StructM {
        pre: Prelude::default(),
        compact: false,
        name: "User".into(),
        fields: vec![FieldM {
            pre: Prelude::default(),
            tag: None,
            name: "a".into(),
            ty: TypeM::named("A0"),
        }],
    }));
    // a loop makes everything that reaches it unresolvable, not only the members of the loop
    let cyclic = !nodes_on_cycles(&edges).is_empty();
    (
        Program {
            files: vec![FileM {
                path: "string-0".into(),
                file_attrs: vec![],
                module: Some(ModuleM {
                    attrs: vec![],
                    path: vec!["M".into()],
                }),
                defs,
            }],
        },
        cyclic,
    )
}

pub const ALIAS_TOTAL: u64 = 4 * 40 * 40 * 40 * 40;

fn alias_case(cx: &mut CaseCtx, input: Input) -> CaseResult {
    let (p, cyclic) = alias_program(input.index());
    let texts = p.plain();
    cx.nontrivial = true;
    cx.label(if cyclic { "alias-loop" } else { "alias-acyclic" });
    let through_anon = p.files[0].defs.iter().any(|d| matches!(d, DefM::Alias(a) if !matches!(a.ty.kind, TypeK::Named(_) | TypeK::Prim(_))));
    cx.label_if(cyclic && through_anon, "alias-loop-with-anonymous-type");
    cx.sample_with(|| json!({"files": texts}));
    let state = compile_strings(&texts, None);
    let diags = diagnostics_of(state, &Default::default());
    let errors = error_codes(&diags);
    if cyclic {
        check!(!errors.is_empty(), "alias-loop-accepted", "the aliases loop but the program is accepted\n--- source ---\n{}", texts.join("\n"));
        for c in &errors {
            check!(
                c == "E019" || c == "E033",
                format!("alias-loop/unexpected-code={c}"),
                "unexpected {c} for an alias loop:\n{}\n--- source ---\n{}",
                summarize(&diags),
                texts.join("\n")
            );
        }
    } else {
        check!(
            errors.is_empty(),
            format!("alias-acyclic-rejected/{}", errors.first().cloned().unwrap_or_default()),
            "acyclic aliases rejected:\n{}\n--- source ---\n{}",
            summarize(&diags),
            texts.join("\n")
        );
    }
    Ok(())
}

// ---- inheritance graphs ------------------------------------------------------------------------

pub fn inherit_program(idx: u64) -> (Program, bool, bool) {
    // naming scheme 1: the interfaces live in two modules and repeat each other's simple names
    // (M1::X, M2::X, M1::Y, M2::Y), bases written globally qualified
    let two_modules = idx >= 4 * 65536;
    let idx = idx % (4 * 65536);
    let n = 1 + (idx % 4) as usize;
    let mask = idx / 4;
    let simple = |i: usize| if two_modules { ["X", "Y"][i / 2].to_owned() } else { format!("I{i}") };
    let module_of = |i: usize| if two_modules { format!("M{}", 1 + i % 2) } else { "M".to_owned() };
    let spelled = |i: usize| if two_modules { format!("::{}::{}", module_of(i), simple(i)) } else { simple(i) };
    let mut defs: Vec<(String, DefM)> = Vec::new();
    let mut edges: BTreeMap<String, BTreeSet<String>> = BTreeMap::new();
    for i in 0..n {
        let mut bases = Vec::new();
        let e = edges.entry(format!("I{i}")).or_default();
        for j in 0..n {
            if mask >> (i * n + j) & 1 == 1 {
                bases.push(TypeM::named(&spelled(j)));
                e.insert(format!("I{j}"));
            }
        }
        defs.push((
            module_of(i),
            DefM::Interface(InterfaceM {
                pre: Prelude::default(),
                name: simple(i),
                bases,
                ops: vec![OpM {
                    pre: Prelude::default(),
                    idempotent: false,
                    name: format!("op{i}"),
                    params: vec![],
                    ret: RetM::None,
                }],
            }),
        ));
    }
    let cyclic = !nodes_on_cycles(&edges).is_empty();
    // diamond: some node reachable along two different paths
    let diamond = !cyclic && n == 4 && edges.values().filter(|v| v.len() >= 2).count() >= 1;
    let modules: Vec<String> = if two_modules { vec!["M1".into(), "M2".into()] } else { vec!["M".into()] };
    let files = modules
        .iter()
        .enumerate()
        .map(|(k, m)| FileM {
            path: format!("string-{k}"),
            file_attrs: vec![],
            module: Some(ModuleM { attrs: vec![], path: vec![m.clone()] }),
            defs: defs.iter().filter(|d| &d.0 == m).map(|d| d.1.clone()).collect(),
        })
        .collect();
    (Program { files }, cyclic, diamond)
}

/// n=1: 2 masks, n=2: 16, n=3: 512, n=4: 65536 — indexed as idx%4 = n-1, idx/4 = mask (masks
/// beyond 2^(n*n) repeat smaller ones for n<4; cheap and harmless)
pub const INHERIT_TOTAL: u64 = 2 * 4 * 65536;

fn inherit_case(cx: &mut CaseCtx, input: Input) -> CaseResult {
    let (p, cyclic, diamond) = inherit_program(input.index());
    let texts = p.plain();
    cx.nontrivial = true;
    cx.label(if cyclic { "inheritance-loop" } else { "inheritance-acyclic" });
    cx.label_if(diamond, "inheritance-multiple-bases");
    cx.label_if(p.files.len() == 2, "inheritance-across-two-modules-with-equal-names");
    cx.sample_with(|| json!({"files": texts}));
    let state = compile_strings(&texts, None);
    let diags = diagnostics_of(state, &Default::default());
    let errors = error_codes(&diags);
    if cyclic {
        check!(!errors.is_empty(), "inheritance-loop-accepted", "an interface inherits from itself but the program is accepted\n--- source ---\n{}", texts.join("\n"));
    } else {
        check!(
            errors.is_empty(),
            format!("inheritance-acyclic-rejected/{}", errors.first().cloned().unwrap_or_default()),
            "acyclic inheritance rejected:\n{}\n--- source ---\n{}",
            summarize(&diags),
            texts.join("\n")
        );
    }
    Ok(())
}

impl Check for C05 {
    fn id(&self) -> &'static str {
        "C05"
    }
    fn rule(&self) -> String {
        format!("families: small = every directed graph (self-loops allowed) over n <= 3 struct/enum nodes x every kind assignment x each of the 10 wrapper forms ({SMALL_TOTAL} programs, exhaustive); graph4 = every edge set over 4 nodes with kinds and mixed wrappers derived from the index (65536, exhaustive in the thorough tier, strided in quick); random = proptest choice sequences -> graphs of 2..10 nodes with multi-edges and mixed wrappers (out-degree <= 2); aliases = every assignment of 10 target forms {{int32, alias j, Sequence<alias j>, Dictionary<string, alias j?>, Result<alias j, bool>, Result<bool, alias j>, Result<bool, Sequence<alias j>>, Sequence<Result<alias j?, string>>, Result<alias j, alias j>, Dictionary<string, Result<alias j, Sequence<alias j>>>}} to <= 4 aliases ({ALIAS_TOTAL}; strided in quick); enum nodes carry a field-less enumerator before, between or after the ones with fields (sampled per node); inheritance = every base relation over <= 4 interfaces incl. self-loops, in one module and spread over two modules that repeat each other's simple names ({INHERIT_TOTAL}). Oracle: SCC analysis; E032 <=> a node lies on a cycle, every on-cycle node named by a chain reconstructed from note spans, every chain a real closed path of written fields; alias / inheritance loops rejected, acyclic ones accepted. Non-trivial = >= 1 edge through a non-trivial wrapper or >= 2 nodes on a cycle (all alias / inheritance cases count)")
    }
    fn assumptions(&self) -> Vec<String> {
        vec![
            "acyclic containment graphs may still be rejected for other reasons (e.g. an illegal dictionary key): only E032 is judged there".into(),
            "dense acyclic graphs whose number of paths explodes are excluded here (open finding F-01f, probed by C01)".into(),
        ]
    }
    fn essential(&self, _tier: Tier) -> Vec<&'static str> {
        vec![
            "cyclic",
            "acyclic",
            "enum-only-cycle",
            "cycle-with-acyclic-offshoot",
            "cycle-through-wrapper",
            "wrapper-optional",
            "wrapper-sequence",
            "wrapper-dictionary-key",
            "wrapper-dictionary-value",
            "wrapper-result-success",
            "wrapper-result-failure",
            "wrapper-nested-two-deep",
            "wrapper-alias-of-anonymous",
            "alias-loop",
            "alias-acyclic",
            "alias-loop-with-anonymous-type",
            "inheritance-loop",
            "inheritance-acyclic",
            "inheritance-multiple-bases",
        ]
    }
    fn timeout_is_violation(&self) -> bool {
        // "None of these inputs makes a later phase recurse forever"
        true
    }
    fn fuzz_families(&self, _tier: Tier) -> Vec<(&'static str, u64)> {
        // libFuzzer runs per job (16 jobs), sized from the measured speed of the instrumented build
        vec![("random", 15000)]
    }
    fn families(&self, tier: Tier) -> Vec<Family<'_>> {
        let graph_case = |cx: &mut CaseCtx, g: Graph| -> CaseResult {
            let on_wrapper = g.edges.iter().any(|e| e.2 != 0);
            cx.nontrivial = on_wrapper || g.edges.len() >= 2;
            containment_oracle(cx, &g)
        };
        vec![
            Family::enumerate("small", SMALL_TOTAL, 1, move |cx, i| graph_case(cx, small_graph(i.index()))),
            Family::enumerate("graph4", 65536, tier.pick(4, 1), move |cx, i| graph_case(cx, graph4(i.index()))),
            Family::bytes("random", 96, tier.pick(1_500, 40_000), move |cx, i| {
                let mut u = Unstructured::new(i.bytes());
                let g = random_graph(&mut u);
                cx.set_key(&(g.n, &g.is_enum, &g.edges, &g.leaf, g.two_modules, g.reverse, g.rev_defs));
                graph_case(cx, g)
            }),
            Family::enumerate("aliases", ALIAS_TOTAL, tier.pick(17, 1), alias_case),
            Family::enumerate("inheritance", INHERIT_TOTAL, tier.pick(5, 1), inherit_case),
            Family::replay_only("direct", |cx, i| {
                // regression inputs: "<cyclic|acyclic>\n<source>": cyclic must be rejected, acyclic accepted
                let text = String::from_utf8_lossy(i.bytes()).into_owned();
                let (head, body) = text.split_once('\n').unwrap_or(("acyclic", &text));
                cx.nontrivial = true;
                let state = compile_strings(&[body.to_owned()], None);
                let diags = diagnostics_of(state, &Default::default());
                let errors = error_codes(&diags);
                if head.trim() == "cyclic" {
                    check!(!errors.is_empty(), "direct/loop-accepted", "expected rejection");
                } else {
                    check!(errors.is_empty(), "direct/acyclic-rejected", "{}", summarize(&diags));
                }
                Ok(())
            }),
        ]
    }
}
