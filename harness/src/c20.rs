//! C20 — visitor traversal presents every element exactly once, in source order.
//!
//! A recording `Visitor` is passed to `SliceFile::visit_with` for every file; the expected
//! sequence is derived from the abstract program (canonical form, so that a type reached through
//! an alias shows its resolved structure).

use crate::c02::{render_layout, split_input};
use crate::compile::*;
use crate::engine::*;
use crate::gen::{gen_program, GenCfg};
use crate::model::*;
use crate::observe::{observe_attr, observe_dyn_type};
use crate::refcheck::{join, Resolver};
use crate::{check, fail};
use arbitrary::Unstructured;
use serde_json::json;
use slicec::grammar::*;
use slicec::slice_file::SliceFile;
use slicec::visitor::Visitor;

pub struct C20;

#[derive(Default)]
pub struct Recorder {
    pub events: Vec<String>,
}

fn type_text(t: &TypeM) -> String {
    let mut s = String::new();
    for a in &t.attrs {
        s.push_str(&format!("[{}]", attr_text(a)));
    }
    match &t.kind {
        TypeK::Prim(p) => s.push_str(p),
        TypeK::Named(n) => s.push_str(n),
        TypeK::Seq(e) => s.push_str(&format!("Sequence<{}>", type_text(e))),
        TypeK::Dict(k, v) => s.push_str(&format!("Dictionary<{}, {}>", type_text(k), type_text(v))),
        TypeK::Result(a, b) => s.push_str(&format!("Result<{}, {}>", type_text(a), type_text(b))),
    }
    if t.optional {
        s.push('?');
    }
    s
}

impl Visitor for Recorder {
    fn visit_file(&mut self, f: &SliceFile) {
        self.events.push(format!("file {}", f.relative_path));
    }
    fn visit_module(&mut self, m: &Module) {
        let attrs: Vec<String> = m.attributes().into_iter().map(|a| attr_text(&observe_attr(a))).collect();
        self.events.push(format!("module {} [{}]", m.nested_module_identifier(), attrs.join(";")));
    }
    fn visit_struct(&mut self, x: &Struct) {
        self.events.push(format!("struct {}", x.parser_scoped_identifier()));
    }
    fn visit_field(&mut self, x: &Field) {
        self.events.push(format!("field {}", x.parser_scoped_identifier()));
    }
    fn visit_interface(&mut self, x: &Interface) {
        self.events.push(format!("interface {}", x.parser_scoped_identifier()));
    }
    fn visit_operation(&mut self, x: &Operation) {
        self.events.push(format!("operation {}", x.parser_scoped_identifier()));
    }
    fn visit_parameter(&mut self, x: &Parameter) {
        // return members and parameters share a scope; tell them apart through the parent
        let is_return = x.parent().return_members().iter().any(|p| std::ptr::eq(*p, x));
        let name = if is_return && x.parent().return_members().len() == 1 { "" } else { x.identifier() };
        self.events.push(format!(
            "{} {}::{}",
            if is_return { "return" } else { "parameter" },
            x.parent().parser_scoped_identifier(),
            name
        ));
    }
    fn visit_enum(&mut self, x: &Enum) {
        self.events.push(format!("enum {}", x.parser_scoped_identifier()));
    }
    fn visit_enumerator(&mut self, x: &Enumerator) {
        self.events.push(format!("enumerator {}", x.parser_scoped_identifier()));
    }
    fn visit_custom_type(&mut self, x: &CustomType) {
        self.events.push(format!("custom {}", x.parser_scoped_identifier()));
    }
    fn visit_type_alias(&mut self, x: &TypeAlias) {
        self.events.push(format!("alias {}", x.parser_scoped_identifier()));
    }
    fn visit_type_ref(&mut self, x: &TypeRef) {
        self.events.push(format!("type {}", type_text(&observe_dyn_type(x))));
    }
}

fn expect_type(out: &mut Vec<String>, t: &TypeM) {
    out.push(format!("type {}", type_text(t)));
    match &t.kind {
        TypeK::Seq(e) => expect_type(out, e),
        TypeK::Dict(k, v) => {
            expect_type(out, k);
            expect_type(out, v);
        }
        TypeK::Result(a, b) => {
            expect_type(out, a);
            expect_type(out, b);
        }
        _ => {}
    }
}

/// Expected visit sequence of one file of a program in canonical form.
pub fn expected_events(f: &FileM) -> Vec<String> {
    let mut out = vec![format!("file {}", f.path)];
    let scope = f.module.as_ref().map(|m| m.scope()).unwrap_or_default();
    if let Some(m) = &f.module {
        let attrs: Vec<String> = m.attrs.iter().map(attr_text).collect();
        out.push(format!("module {} [{}]", m.scope(), attrs.join(";")));
    }
    for d in &f.defs {
        let ds = join(&scope, d.name());
        match d {
            DefM::Struct(s) => {
                out.push(format!("struct {ds}"));
                for fld in &s.fields {
                    out.push(format!("field {}", join(&ds, &fld.name)));
                    expect_type(&mut out, &fld.ty);
                }
            }
            DefM::Interface(i) => {
                out.push(format!("interface {ds}"));
                for op in &i.ops {
                    let os = join(&ds, &op.name);
                    out.push(format!("operation {os}"));
                    for p in &op.params {
                        out.push(format!("parameter {os}::{}", p.name));
                        expect_type(&mut out, &p.ty);
                    }
                    for p in op.ret.members() {
                        out.push(format!("return {os}::{}", p.name));
                        expect_type(&mut out, &p.ty);
                    }
                }
            }
            DefM::Enum(e) => {
                out.push(format!("enum {ds}"));
                for en in &e.enumerators {
                    let es = join(&ds, &en.name);
                    out.push(format!("enumerator {es}"));
                    if let Some(fs) = &en.fields {
                        for fld in fs {
                            out.push(format!("field {}", join(&es, &fld.name)));
                            expect_type(&mut out, &fld.ty);
                        }
                    }
                }
            }
            DefM::Custom(_) => out.push(format!("custom {ds}")),
            DefM::Alias(a) => {
                out.push(format!("alias {ds}"));
                expect_type(&mut out, &a.ty);
            }
        }
    }
    out
}

pub fn traversal(cx: &mut CaseCtx, p: &Program, texts: &[String]) -> CaseResult {
    let mut resolver = Resolver::new(p);
    let Some(canon) = resolver.resolve_program() else {
        cx.label("generator-produced-unresolvable-program");
        return Ok(());
    };
    if resolver.ambiguous_hit {
        cx.label("generator-produced-ambiguous-names");
        return Ok(());
    }
    let state = compile_strings(texts, None);
    if state.diagnostics.has_errors() {
        cx.label("skipped-compile-error");
        return Ok(());
    }
    check!(state.files.len() == canon.files.len(), "file-count", "files: {} vs {}", state.files.len(), canon.files.len());
    for (f, fm) in state.files.iter().zip(&canon.files) {
        let mut rec = Recorder::default();
        f.visit_with(&mut rec);
        let exp = expected_events(fm);
        if rec.events != exp {
            // classify by the first differing event kinds
            let i = rec.events.iter().zip(&exp).position(|(a, b)| a != b).unwrap_or(rec.events.len().min(exp.len()));
            let kind = |v: &Vec<String>| v.get(i).map(|e| e.split(' ').next().unwrap_or("").to_owned()).unwrap_or("end".into());
            fail!(
                format!("visit-order/expected-{}/observed-{}", kind(&exp), kind(&rec.events)),
                "file {}: event {i}: expected {:?}, observed {:?}\n expected sequence: {:#?}\n observed sequence: {:#?}\n--- source ---\n{}",
                fm.path,
                exp.get(i),
                rec.events.get(i),
                exp,
                rec.events,
                texts.join("\n=====\n")
            );
        }
    }
    cx.label("traversal-compared");
    Ok(())
}

fn case(cx: &mut CaseCtx, input: Input, cfg: &GenCfg) -> CaseResult {
    let (lay_bytes, prog_bytes) = split_input(input.bytes());
    let mut u = Unstructured::new(prog_bytes);
    let (p, labels) = gen_program(&mut u, cfg);
    for l in labels {
        cx.label(l);
    }
    cx.set_key(&p);
    let nested = p.files.iter().any(|f| f.defs.iter().any(|d| def_max_depth(d) >= 2));
    cx.nontrivial = nested || p.files.len() >= 2;
    cx.label_if(nested, "nested-type-2");
    cx.label_if(p.files.len() >= 2, "multi-file");
    let (texts, rendered) = render_layout(&p, lay_bytes, 0);
    for r in &rendered {
        for lab in &r.labels {
            if matches!(*lab, "op-tuple-return" | "enumerator-fields" | "def-alias" | "def-struct" | "def-enum" | "def-interface" | "def-custom" | "cross-module-ref") {
                cx.label(*lab);
            }
        }
    }
    cx.sample_with(|| json!({"files": texts}));
    traversal(cx, &p, &texts)
}

fn def_max_depth(d: &DefM) -> usize {
    match d {
        DefM::Struct(s) => s.fields.iter().map(|f| f.ty.depth()).max().unwrap_or(0),
        DefM::Interface(i) => i
            .ops
            .iter()
            .flat_map(|o| o.params.iter().chain(o.ret.members()).map(|p| p.ty.depth()))
            .max()
            .unwrap_or(0),
        DefM::Enum(e) => e
            .enumerators
            .iter()
            .flat_map(|en| en.fields.iter().flatten().map(|f| f.ty.depth()))
            .max()
            .unwrap_or(0),
        DefM::Alias(a) => a.ty.depth(),
        DefM::Custom(_) => 0,
    }
}

impl Check for C20 {
    fn id(&self) -> &'static str {
        "C20"
    }
    fn rule(&self) -> String {
        "proptest choice sequences -> well-formed multi-file programs (every definition kind, anonymous types nested to depth 3 in fields / parameters / returns / enumerator fields / alias targets, aliases of anonymous types used from other files and modules); every file is walked with a recording Visitor and the callback sequence must equal the sequence derived from the abstract program (file, module, definitions in source order, members, each member's type tree depth-first right after its owner). Non-trivial = a type nested >= 2 deep or >= 2 files; distinct by hash of the abstract program".into()
    }
    fn assumptions(&self) -> Vec<String> {
        vec![
            "type nodes reached through a resolved alias are expected even when written in another file (the statement's 'to any depth' clause)".into(),
            "enum underlying types and interface bases are not presented as type references (the statement lists fields, parameters, return members and aliases)".into(),
        ]
    }
    fn essential(&self, _tier: Tier) -> Vec<&'static str> {
        vec!["traversal-compared", "nested-type-2", "multi-file", "op-tuple-return", "enumerator-fields", "def-alias", "cross-module-ref"]
    }
    fn fuzz_families(&self, _tier: Tier) -> Vec<(&'static str, u64)> {
        // libFuzzer runs per job (16 jobs), sized from the measured speed of the instrumented build
        vec![("programs", 15000)]
    }
    fn families(&self, tier: Tier) -> Vec<Family<'_>> {
        let cfg = GenCfg {
            docs: false,
            ..GenCfg::default()
        };
        let big = GenCfg {
            max_files: 4,
            max_defs: 14,
            max_members: 6,
            docs: false,
            ..GenCfg::default()
        };
        vec![
            Family::bytes("programs", 500, tier.pick(4_000, 80_000), move |cx, i| case(cx, i, &cfg)),
            Family::bytes("large-programs", 1400, tier.pick(600, 12_000), move |cx, i| case(cx, i, &big)),
            Family::replay_only("direct", |cx, i| {
                // regression inputs: a source text; model-free invariants: every visited entity
                // exactly once, containers before contents (checked through scoped names)
                let text = String::from_utf8_lossy(i.bytes()).into_owned();
                cx.nontrivial = true;
                let state = compile_strings(&[text.clone()], None);
                let mut rec = Recorder::default();
                for f in &state.files {
                    f.visit_with(&mut rec);
                }
                let mut seen = std::collections::BTreeSet::new();
                for e in rec.events.iter().filter(|e| !e.starts_with("type ") && !e.starts_with("return ") && !e.starts_with("parameter ")) {
                    check!(seen.insert(e.clone()), "direct/visited-twice", "{e} was presented twice");
                }
                Ok(())
            }),
        ]
    }
}
