//! Abstract Slice programs: what a source text *says*, independent of layout.
//!
//! The same shape is produced by the generators (`gen`), printed by `render`, and re-built
//! from a `CompilationState` through the public API by `observe`, so that fidelity (C02) is a
//! plain `==` between two `Program`s.

use serde::Serialize;

pub const PRIMITIVES: [&str; 16] = [
    "bool", "int8", "uint8", "int16", "uint16", "int32", "uint32", "varint32", "varuint32", "int64", "uint64",
    "varint62", "varuint62", "float32", "float64", "string",
];

pub const KEYWORDS: [&str; 30] = [
    "module", "struct", "interface", "enum", "custom", "typealias", "Result", "Sequence", "Dictionary", "bool", "int8",
    "uint8", "int16", "uint16", "int32", "uint32", "varint32", "varuint32", "int64", "uint64", "varint62",
    "varuint62", "float32", "float64", "string", "compact", "idempotent", "stream", "tag", "unchecked",
];

pub fn is_keyword(s: &str) -> bool {
    KEYWORDS.contains(&s)
}

pub fn is_integral(p: &str) -> bool {
    !matches!(p, "bool" | "float32" | "float64" | "string")
}

/// Inclusive numeric range of an integral primitive (from the language reference).
pub fn prim_bounds(p: &str) -> Option<(i128, i128)> {
    Some(match p {
        "int8" => (-128, 127),
        "uint8" => (0, 255),
        "int16" => (-32768, 32767),
        "uint16" => (0, 65535),
        "int32" | "varint32" => (-(1i128 << 31), (1i128 << 31) - 1),
        "uint32" | "varuint32" => (0, (1i128 << 32) - 1),
        "int64" => (-(1i128 << 63), (1i128 << 63) - 1),
        "uint64" => (0, (1i128 << 64) - 1),
        "varint62" => (-(1i128 << 61), (1i128 << 61) - 1),
        "varuint62" => (0, (1i128 << 62) - 1),
        _ => return None,
    })
}

#[derive(Clone, Debug, PartialEq, Eq, Hash, Serialize, Default)]
pub struct Program {
    pub files: Vec<FileM>,
}

#[derive(Clone, Debug, PartialEq, Eq, Hash, Serialize, Default)]
pub struct FileM {
    pub path: String,
    pub file_attrs: Vec<AttrM>,
    pub module: Option<ModuleM>,
    pub defs: Vec<DefM>,
}

#[derive(Clone, Debug, PartialEq, Eq, Hash, Serialize, Default)]
pub struct ModuleM {
    pub attrs: Vec<AttrM>,
    /// `module A::B::C` = ["A","B","C"]
    pub path: Vec<String>,
}

impl ModuleM {
    pub fn scope(&self) -> String {
        self.path.join("::")
    }
}

#[derive(Clone, Debug, PartialEq, Eq, Hash, Serialize, Default)]
pub struct AttrM {
    /// `a`, `a::b`, ...
    pub directive: String,
    /// unescaped argument values
    pub args: Vec<String>,
}

impl AttrM {
    pub fn new(directive: &str, args: &[&str]) -> AttrM {
        AttrM {
            directive: directive.to_owned(),
            args: args.iter().map(|s| s.to_string()).collect(),
        }
    }
}

/// What may precede a declaration: doc comment lines (the text after `///`, without the line
/// break) and local attributes.  How the two interleave is a layout choice.
#[derive(Clone, Debug, PartialEq, Eq, Hash, Serialize, Default)]
pub struct Prelude {
    pub doc: Vec<String>,
    pub attrs: Vec<AttrM>,
    /// the structured form `doc` was printed from, when the generator made one (never compared:
    /// `observe` and the canonical form leave it empty)
    pub docm: Option<Box<crate::doc::DocModel>>,
}

#[derive(Clone, Debug, PartialEq, Eq, Hash, Serialize)]
pub enum DefM {
    Struct(StructM),
    Interface(InterfaceM),
    Enum(EnumM),
    Custom(CustomM),
    Alias(AliasM),
}

impl DefM {
    pub fn name(&self) -> &str {
        match self {
            DefM::Struct(x) => &x.name,
            DefM::Interface(x) => &x.name,
            DefM::Enum(x) => &x.name,
            DefM::Custom(x) => &x.name,
            DefM::Alias(x) => &x.name,
        }
    }
    pub fn kind(&self) -> &'static str {
        match self {
            DefM::Struct(_) => "struct",
            DefM::Interface(_) => "interface",
            DefM::Enum(_) => "enum",
            DefM::Custom(_) => "custom",
            DefM::Alias(_) => "alias",
        }
    }
    pub fn pre(&self) -> &Prelude {
        match self {
            DefM::Struct(x) => &x.pre,
            DefM::Interface(x) => &x.pre,
            DefM::Enum(x) => &x.pre,
            DefM::Custom(x) => &x.pre,
            DefM::Alias(x) => &x.pre,
        }
    }
    pub fn pre_mut(&mut self) -> &mut Prelude {
        match self {
            DefM::Struct(x) => &mut x.pre,
            DefM::Interface(x) => &mut x.pre,
            DefM::Enum(x) => &mut x.pre,
            DefM::Custom(x) => &mut x.pre,
            DefM::Alias(x) => &mut x.pre,
        }
    }
}

#[derive(Clone, Debug, PartialEq, Eq, Hash, Serialize, Default)]
pub struct StructM {
    pub pre: Prelude,
    pub compact: bool,
    pub name: String,
    pub fields: Vec<FieldM>,
}

#[derive(Clone, Debug, PartialEq, Eq, Hash, Serialize)]
pub struct FieldM {
    pub pre: Prelude,
    /// the written tag value (may be out of range in ill-formed programs)
    pub tag: Option<i128>,
    pub name: String,
    pub ty: TypeM,
}

#[derive(Clone, Debug, PartialEq, Eq, Hash, Serialize, Default)]
pub struct InterfaceM {
    pub pre: Prelude,
    pub name: String,
    pub bases: Vec<TypeM>,
    pub ops: Vec<OpM>,
}

#[derive(Clone, Debug, PartialEq, Eq, Hash, Serialize)]
pub struct OpM {
    pub pre: Prelude,
    pub idempotent: bool,
    pub name: String,
    pub params: Vec<ParamM>,
    pub ret: RetM,
}

#[derive(Clone, Debug, PartialEq, Eq, Hash, Serialize)]
pub enum RetM {
    None,
    /// `-> [tag(n)] [stream] T` — name and prelude are unused
    Single(Box<ParamM>),
    /// `-> (a: T, b: U)`
    Tuple(Vec<ParamM>),
}

impl RetM {
    pub fn members(&self) -> Vec<&ParamM> {
        match self {
            RetM::None => vec![],
            RetM::Single(p) => vec![p],
            RetM::Tuple(v) => v.iter().collect(),
        }
    }
}

#[derive(Clone, Debug, PartialEq, Eq, Hash, Serialize)]
pub struct ParamM {
    pub pre: Prelude,
    pub tag: Option<i128>,
    pub name: String,
    pub stream: bool,
    pub ty: TypeM,
}

#[derive(Clone, Debug, PartialEq, Eq, Hash, Serialize, Default)]
pub struct EnumM {
    pub pre: Prelude,
    pub compact: bool,
    pub unchecked: bool,
    pub name: String,
    pub underlying: Option<TypeM>,
    pub enumerators: Vec<EnumeratorM>,
}

#[derive(Clone, Debug, PartialEq, Eq, Hash, Serialize, Default)]
pub struct EnumeratorM {
    pub pre: Prelude,
    pub name: String,
    /// None = `A`, Some(vec![]) = `A()`
    pub fields: Option<Vec<FieldM>>,
    /// explicit value as written
    pub value: Option<i128>,
    /// the value the enumerator has: the explicit one, or previous + 1 starting from 0
    /// (filled in by `fill_effective_values`)
    pub effective: i128,
}

#[derive(Clone, Debug, PartialEq, Eq, Hash, Serialize, Default)]
pub struct CustomM {
    pub pre: Prelude,
    pub name: String,
}

#[derive(Clone, Debug, PartialEq, Eq, Hash, Serialize)]
pub struct AliasM {
    pub pre: Prelude,
    pub name: String,
    pub ty: TypeM,
}

#[derive(Clone, Debug, PartialEq, Eq, Hash, Serialize)]
pub struct TypeM {
    pub attrs: Vec<AttrM>,
    pub kind: TypeK,
    pub optional: bool,
}

#[derive(Clone, Debug, PartialEq, Eq, Hash, Serialize)]
pub enum TypeK {
    Prim(String),
    /// a (possibly scoped, possibly `::`-global) name as written, segments joined by "::"
    Named(String),
    Seq(Box<TypeM>),
    Dict(Box<TypeM>, Box<TypeM>),
    Result(Box<TypeM>, Box<TypeM>),
}

impl TypeM {
    pub fn prim(p: &str) -> TypeM {
        TypeM {
            attrs: vec![],
            kind: TypeK::Prim(p.to_owned()),
            optional: false,
        }
    }
    pub fn named(n: &str) -> TypeM {
        TypeM {
            attrs: vec![],
            kind: TypeK::Named(n.to_owned()),
            optional: false,
        }
    }
    pub fn seq(e: TypeM) -> TypeM {
        TypeM {
            attrs: vec![],
            kind: TypeK::Seq(Box::new(e)),
            optional: false,
        }
    }
    pub fn dict(k: TypeM, v: TypeM) -> TypeM {
        TypeM {
            attrs: vec![],
            kind: TypeK::Dict(Box::new(k), Box::new(v)),
            optional: false,
        }
    }
    pub fn result(s: TypeM, f: TypeM) -> TypeM {
        TypeM {
            attrs: vec![],
            kind: TypeK::Result(Box::new(s), Box::new(f)),
            optional: false,
        }
    }
    pub fn opt(mut self) -> TypeM {
        self.optional = true;
        self
    }
    pub fn depth(&self) -> usize {
        match &self.kind {
            TypeK::Prim(_) | TypeK::Named(_) => 0,
            TypeK::Seq(e) => 1 + e.depth(),
            TypeK::Dict(k, v) => 1 + k.depth().max(v.depth()),
            TypeK::Result(s, f) => 1 + s.depth().max(f.depth()),
        }
    }
    /// All named references in the expression (pre-order).
    pub fn named_refs<'a>(&'a self, out: &mut Vec<&'a str>) {
        match &self.kind {
            TypeK::Prim(_) => {}
            TypeK::Named(n) => out.push(n),
            TypeK::Seq(e) => e.named_refs(out),
            TypeK::Dict(k, v) => {
                k.named_refs(out);
                v.named_refs(out);
            }
            TypeK::Result(s, f) => {
                s.named_refs(out);
                f.named_refs(out);
            }
        }
    }
    pub fn to_text(&self) -> String {
        let mut s = String::new();
        for a in &self.attrs {
            s.push_str(&format!("[{}] ", attr_text(a)));
        }
        match &self.kind {
            TypeK::Prim(p) => s.push_str(p),
            TypeK::Named(n) => s.push_str(&escape_scoped(n)),
            TypeK::Seq(e) => s.push_str(&format!("Sequence<{}>", e.to_text())),
            TypeK::Dict(k, v) => s.push_str(&format!("Dictionary<{}, {}>", k.to_text(), v.to_text())),
            TypeK::Result(a, b) => s.push_str(&format!("Result<{}, {}>", a.to_text(), b.to_text())),
        }
        if self.optional {
            s.push('?');
        }
        s
    }
}

/// Escapes every keyword segment of a scoped name: `A::struct` -> `A::\struct`.
pub fn escape_scoped(n: &str) -> String {
    let (global, rest) = match n.strip_prefix("::") {
        Some(r) => (true, r),
        None => (false, n),
    };
    let body = rest.split("::").map(escape_ident).collect::<Vec<_>>().join("::");
    if global {
        format!("::{body}")
    } else {
        body
    }
}

pub fn escape_ident(s: &str) -> String {
    if is_keyword(s) {
        format!("\\{s}")
    } else {
        s.to_owned()
    }
}

pub fn is_plain_identifier(s: &str) -> bool {
    let mut it = s.chars();
    match it.next() {
        Some(c) if c.is_ascii_alphabetic() => {}
        _ => return false,
    }
    it.all(|c| c.is_ascii_alphanumeric() || c == '_')
}

pub fn quote_arg(s: &str) -> String {
    let mut out = String::from("\"");
    for c in s.chars() {
        if c == '"' || c == '\\' {
            out.push('\\');
        }
        out.push(c);
    }
    out.push('"');
    out
}

pub fn attr_text(a: &AttrM) -> String {
    if a.args.is_empty() {
        a.directive.clone()
    } else {
        let args: Vec<String> = a
            .args
            .iter()
            .map(|x| if is_plain_identifier(x) { x.clone() } else { quote_arg(x) })
            .collect();
        format!("{}({})", a.directive, args.join(", "))
    }
}

// ------------------------------------------------------------------------------------------
// Canonical plain rendering (one fixed layout) — used for samples, violation reports and by checks
// that do not care about layout.
// ------------------------------------------------------------------------------------------

pub fn plain_prelude(pre: &Prelude, indent: &str, out: &mut String) {
    for l in &pre.doc {
        out.push_str(&format!("{indent}///{l}\n"));
    }
    for a in &pre.attrs {
        out.push_str(&format!("{indent}[{}]\n", attr_text(a)));
    }
}

fn plain_member(pre: &Prelude, tag: Option<i128>, name: &str, stream: bool, ty: &TypeM, indent: &str, out: &mut String) {
    plain_prelude(pre, indent, out);
    out.push_str(indent);
    if let Some(t) = tag {
        out.push_str(&format!("tag({t}) "));
    }
    out.push_str(&escape_ident(name));
    out.push_str(": ");
    if stream {
        out.push_str("stream ");
    }
    out.push_str(&ty.to_text());
    out.push('\n');
}

pub fn plain_field(f: &FieldM, indent: &str, out: &mut String) {
    plain_member(&f.pre, f.tag, &f.name, false, &f.ty, indent, out);
}

pub fn plain_param(p: &ParamM, indent: &str, out: &mut String) {
    plain_member(&p.pre, p.tag, &p.name, p.stream, &p.ty, indent, out);
}

pub fn plain_def(d: &DefM, out: &mut String) {
    plain_prelude(d.pre(), "", out);
    match d {
        DefM::Struct(s) => {
            if s.compact {
                out.push_str("compact ");
            }
            out.push_str(&format!("struct {} {{\n", escape_ident(&s.name)));
            for f in &s.fields {
                plain_field(f, "    ", out);
            }
            out.push_str("}\n");
        }
        DefM::Interface(i) => {
            out.push_str(&format!("interface {}", escape_ident(&i.name)));
            if !i.bases.is_empty() {
                out.push_str(" : ");
                out.push_str(&i.bases.iter().map(|b| b.to_text()).collect::<Vec<_>>().join(", "));
            }
            out.push_str(" {\n");
            for op in &i.ops {
                plain_prelude(&op.pre, "    ", out);
                out.push_str("    ");
                if op.idempotent {
                    out.push_str("idempotent ");
                }
                out.push_str(&escape_ident(&op.name));
                out.push_str("(\n");
                for p in &op.params {
                    plain_param(p, "        ", out);
                }
                out.push_str("    )");
                match &op.ret {
                    RetM::None => {}
                    RetM::Single(p) => {
                        out.push_str(" -> ");
                        if let Some(t) = p.tag {
                            out.push_str(&format!("tag({t}) "));
                        }
                        if p.stream {
                            out.push_str("stream ");
                        }
                        out.push_str(&p.ty.to_text());
                    }
                    RetM::Tuple(v) => {
                        out.push_str(" -> (\n");
                        for p in v {
                            plain_param(p, "        ", out);
                        }
                        out.push_str("    )");
                    }
                }
                out.push('\n');
            }
            out.push_str("}\n");
        }
        DefM::Enum(e) => {
            if e.compact {
                out.push_str("compact ");
            }
            if e.unchecked {
                out.push_str("unchecked ");
            }
            out.push_str(&format!("enum {}", escape_ident(&e.name)));
            if let Some(u) = &e.underlying {
                out.push_str(&format!(" : {}", u.to_text()));
            }
            out.push_str(" {\n");
            for en in &e.enumerators {
                plain_prelude(&en.pre, "    ", out);
                out.push_str(&format!("    {}", escape_ident(&en.name)));
                if let Some(fs) = &en.fields {
                    out.push_str("(\n");
                    for f in fs {
                        plain_field(f, "        ", out);
                    }
                    out.push_str("    )");
                }
                if let Some(v) = en.value {
                    out.push_str(&format!(" = {v}"));
                }
                out.push('\n');
            }
            out.push_str("}\n");
        }
        DefM::Custom(c) => out.push_str(&format!("custom {}\n", escape_ident(&c.name))),
        DefM::Alias(a) => out.push_str(&format!("typealias {} = {}\n", escape_ident(&a.name), a.ty.to_text())),
    }
}

pub fn plain_file(f: &FileM) -> String {
    let mut out = String::new();
    for a in &f.file_attrs {
        out.push_str(&format!("[[{}]]\n", attr_text(a)));
    }
    if let Some(m) = &f.module {
        for a in &m.attrs {
            out.push_str(&format!("[{}]\n", attr_text(a)));
        }
        out.push_str(&format!(
            "module {}\n",
            m.path.iter().map(|s| escape_ident(s)).collect::<Vec<_>>().join("::")
        ));
    }
    for d in &f.defs {
        plain_def(d, &mut out);
    }
    out
}

impl Program {
    /// Computes `effective` for every enumerator by the rule of the language reference.
    pub fn fill_effective_values(&mut self) {
        for f in &mut self.files {
            for d in &mut f.defs {
                if let DefM::Enum(e) = d {
                    let mut prev: Option<i128> = None;
                    for en in &mut e.enumerators {
                        let v = match en.value {
                            Some(v) => v,
                            None => prev.map_or(0, |p| p.wrapping_add(1)),
                        };
                        en.effective = v;
                        prev = Some(v);
                    }
                }
            }
        }
    }
    pub fn plain(&self) -> Vec<String> {
        self.files.iter().map(plain_file).collect()
    }
    pub fn def_count(&self) -> usize {
        self.files.iter().map(|f| f.defs.len()).sum()
    }
}
