//! C13 — lint suppression silences only the named lints in scope, never errors.
//!
//! Bounded-exhaustive template matrix: lint kind x site x placement of the suppression x
//! argument; the reference predicate of the statement decides the expected level.  Metamorphic
//! pairs (with / without the suppression) check that nothing else changes.  A subset runs through
//! the binary (command line spelling, exit status, DuplicateFile, generator request).

use crate::compile::*;
use crate::engine::*;
use crate::observe::observe_program;
use crate::proc::{self, os, CaseDir};
use crate::{check, fail};
use serde_json::json;
use slicec::slice_options::SliceOptions;
use std::time::Duration;

pub struct C13;

const LINTS: [&str; 4] = ["Deprecated", "BrokenDocLink", "IncorrectDocComment", "MalformedDocComment"];

/// (site name, template). Slots: {FILE} file attribute line, {SIB} sibling attribute, {ENC} outer
/// enclosing definition, {ENC2} inner enclosing definition, {ELEM} the element the lint concerns,
/// {DOC} the doc comment line that triggers a doc lint (empty for Deprecated).
const DEPRECATED_SITES: [(&str, &str); 10] = [
    ("field", "{FILE}module M\n[deprecated] struct D {}\n{SIB}struct Sib { x: int32 }\n{ENC}struct Host {\n    {ELEM}f: D\n}\n"),
    ("field-nested-type", "{FILE}module M\n[deprecated] struct D {}\n{SIB}struct Sib { x: int32 }\n{ENC}struct Host {\n    {ELEM}f: Sequence<D?>\n}\n"),
    ("enumerator-field", "{FILE}module M\n[deprecated] struct D {}\n{SIB}struct Sib { x: int32 }\n{ENC}enum Host {\n    {ENC2}A(\n        {ELEM}f: D\n    )\n}\n"),
    ("parameter", "{FILE}module M\n[deprecated] struct D {}\n{SIB}struct Sib { x: int32 }\n{ENC}interface Host {\n    {ENC2}op(\n        {ELEM}p: D\n    )\n}\n"),
    ("return-single", "{FILE}module M\n[deprecated] struct D {}\n{SIB}struct Sib { x: int32 }\n{ENC}interface Host {\n    {ELEM}op() -> D\n}\n"),
    ("return-member", "{FILE}module M\n[deprecated] struct D {}\n{SIB}struct Sib { x: int32 }\n{ENC}interface Host {\n    {ENC2}op() -> (\n        {ELEM}r: D\n        s: bool\n    )\n}\n"),
    ("alias-target", "{FILE}module M\n[deprecated] struct D {}\n{SIB}struct Sib { x: int32 }\n{ELEM}typealias Host = D\n"),
    ("interface-base", "{FILE}module M\n[deprecated] interface D {}\n{SIB}struct Sib { x: int32 }\n{ELEM}interface Host : D {}\n"),
    ("enum-underlying", "{FILE}module M\n[deprecated] typealias D = uint8\n{SIB}struct Sib { x: int32 }\n{ELEM}enum Host : D { A }\n"),
    ("dictionary-value-in-parameter", "{FILE}module M\n[deprecated] custom D\n{SIB}struct Sib { x: int32 }\n{ENC}interface Host {\n    {ENC2}op(\n        {ELEM}p: Dictionary<string, D>\n    )\n}\n"),
];

const DOC_SITES: [(&str, &str); 12] = [
    ("operation-returns-nothing", "{FILE}module M\n{SIB}struct Sib { x: int32 }\n{ENC}interface Host {\n    {DOC}{ELEM}op(a: int32)\n}\n"),
    ("operation-single-return", "{FILE}module M\n{SIB}struct Sib { x: int32 }\n{ENC}interface Host {\n    {DOC}{ELEM}op() -> int32\n}\n"),
    ("operation-tuple-return", "{FILE}module M\n{SIB}struct Sib { x: int32 }\n{ENC}interface Host {\n    {DOC}{ELEM}op() -> (a: int32, b: bool)\n}\n"),
    ("struct", "{FILE}module M\n{SIB}struct Sib { x: int32 }\n{DOC}{ELEM}struct Host {}\n"),
    ("field", "{FILE}module M\n{SIB}struct Sib { x: int32 }\n{ENC}struct Host {\n    {DOC}{ELEM}f: int32\n}\n"),
    ("interface", "{FILE}module M\n{SIB}struct Sib { x: int32 }\n{DOC}{ELEM}interface Host {}\n"),
    ("operation", "{FILE}module M\n{SIB}struct Sib { x: int32 }\n{ENC}interface Host {\n    {DOC}{ELEM}op()\n}\n"),
    ("enum", "{FILE}module M\n{SIB}struct Sib { x: int32 }\n{DOC}{ELEM}enum Host { A }\n"),
    ("enumerator", "{FILE}module M\n{SIB}struct Sib { x: int32 }\n{ENC}enum Host {\n    {DOC}{ELEM}A\n}\n"),
    ("enumerator-field", "{FILE}module M\n{SIB}struct Sib { x: int32 }\n{ENC}enum Host {\n    {ENC2}A(\n        {DOC}{ELEM}f: int32\n    )\n}\n"),
    ("custom", "{FILE}module M\n{SIB}struct Sib { x: int32 }\n{DOC}{ELEM}custom Host\n"),
    ("alias", "{FILE}module M\n{SIB}struct Sib { x: int32 }\n{DOC}{ELEM}typealias Host = int32\n"),
];

const PLACEMENTS: [&str; 9] = ["none", "cli", "cli-wrong-case", "file", "enclosing", "enclosing-inner", "element", "sibling", "other-file"];
const ARGUMENTS: [&str; 7] = ["that", "All", "other", "that+other", "other+All", "two-attributes-other-then-that", "two-attributes-that-then-other"];

fn doc_line(lint: &str, site: &str, variant: bool) -> &'static str {
    match lint {
        "BrokenDocLink" => "/// See {@link Nowhere}.\n",
        // (stopped by the comment lexer / rejected by the comment grammar)
        "MalformedDocComment" if variant => "/// @see\n",
        "MalformedDocComment" => "/// @foo is no tag\n",
        // a tag that does not fit: @returns on something that returns nothing / is no operation
        "IncorrectDocComment" => match site {
            "operation" => "/// @param nosuch: text\n",
            "operation-returns-nothing" => "/// @returns: text\n",
            "operation-single-return" => "/// @returns named: text\n",
            "operation-tuple-return" => "/// @returns nosuch: text\n",
            "struct" | "enum" => "/// @param x: text\n",
            _ => "/// @returns: text\n",
        },
        _ => "",
    }
}

fn arg_list(arg: &str, lint: &str) -> Vec<String> {
    let other = if lint == "Deprecated" { "BrokenDocLink" } else { "Deprecated" };
    match arg {
        "that" => vec![lint.to_owned()],
        "All" => vec!["All".to_owned()],
        "other" => vec![other.to_owned()],
        "that+other" | "two-attributes-other-then-that" | "two-attributes-that-then-other" => vec![other.to_owned(), lint.to_owned()],
        _ => vec![other.to_owned(), "All".to_owned()],
    }
}

struct Cell {
    lint: &'static str,
    site: &'static str,
    placement: &'static str,
    argument: &'static str,
    text: String,
    baseline: String,
    other_file: String,
    other_baseline: String,
    cli: Vec<String>,
    expect_silenced: bool,
    applicable: bool,
    decoy: bool,
}

fn cell(mut idx: u64) -> Cell {
    let lint = LINTS[(idx % 4) as usize];
    idx /= 4;
    let sites: &[(&str, &str)] = if lint == "Deprecated" { &DEPRECATED_SITES } else { &DOC_SITES };
    let (site, template) = sites[(idx % 12) as usize % sites.len()];
    idx /= 12;
    let placement = PLACEMENTS[(idx % 9) as usize];
    idx /= 9;
    let argument = ARGUMENTS[(idx % 7) as usize];
    idx /= 7;
    let decoy = idx % 2 == 1;
    let args = arg_list(argument, lint);
    let other_lint = if lint == "Deprecated" { "BrokenDocLink" } else { "Deprecated" };
    let (attr, file_attr) = match argument {
        "two-attributes-other-then-that" => (
            format!("[allow({other_lint})] [allow({lint})] "),
            format!("[[allow({other_lint})]]\n[[allow({lint})]]\n"),
        ),
        "two-attributes-that-then-other" => (
            format!("[allow({lint})] [allow({other_lint})] "),
            format!("[[allow({lint})]]\n[[allow({other_lint})]]\n"),
        ),
        _ => (format!("[allow({})] ", args.join(", ")), format!("[[allow({})]]\n", args.join(", "))),
    };
    let names = args.iter().any(|a| a == lint || a == "All");
    let has = |slot: &str| template.contains(slot);
    let mut applicable = true;
    let (mut f, mut sib, mut enc, mut enc2, mut elem) = (String::new(), String::new(), String::new(), String::new(), String::new());
    let mut cli: Vec<String> = Vec::new();
    let mut other_file = "module Other\nstruct Unrelated {}\n".to_owned();
    let other_baseline = other_file.clone();
    let mut in_scope = false;
    match placement {
        "none" => {}
        "cli" => {
            cli = args.clone();
            in_scope = true;
        }
        "cli-wrong-case" => {
            cli = args.iter().map(|a| if a.len() % 2 == 0 { a.to_lowercase() } else { a.to_uppercase() }).collect();
            in_scope = true;
        }
        "file" => {
            f = file_attr.clone();
            in_scope = true;
        }
        "enclosing" => {
            applicable = has("{ENC}");
            enc = attr.clone();
            in_scope = true;
        }
        "enclosing-inner" => {
            applicable = has("{ENC2}");
            enc2 = attr.clone();
            in_scope = true;
        }
        "element" => {
            elem = attr.clone();
            in_scope = true;
        }
        "sibling" => sib = attr.clone(),
        _ => other_file = format!("{file_attr}{other_file}"),
    }
    if decoy {
        // an `allow` that names another lint sits closer to the site than the real suppression
        if matches!(placement, "file" | "enclosing" | "enclosing-inner" | "cli") && elem.is_empty() {
            elem = format!("[allow({other_lint})] ");
        } else {
            applicable = false;
        }
    }
    let doc = doc_line(lint, site, decoy);
    let fill = |f: &str, sib: &str, enc: &str, enc2: &str, elem: &str| -> String {
        template
            .replace("{FILE}", f)
            .replace("{SIB}", sib)
            .replace("{ENC2}", enc2)
            .replace("{ENC}", enc)
            .replace("{ELEM}", elem)
            .replace("{DOC}", doc)
    };
    Cell {
        lint,
        site,
        placement,
        argument,
        text: fill(&f, &sib, &enc, &enc2, &elem),
        baseline: fill("", "", "", "", if decoy { &elem } else { "" }),
        other_file,
        other_baseline,
        cli,
        expect_silenced: in_scope && names,
        applicable,
        decoy,
    }
}

const MATRIX_TOTAL: u64 = 4 * 12 * 9 * 7 * 2;

fn options_with(cli: &[String]) -> SliceOptions {
    SliceOptions {
        allowed_lints: cli.to_vec(),
        ..Default::default()
    }
}

fn strip_levels(d: &[DiagObs]) -> Vec<(String, String, Option<((usize, usize), (usize, usize), String)>)> {
    d.iter().map(|x| (x.code.clone(), x.message.clone(), x.span.clone())).collect()
}

fn matrix_case(cx: &mut CaseCtx, input: Input) -> CaseResult {
    let c = cell(input.index());
    if !c.applicable {
        cx.label("placement-not-applicable");
        return Ok(());
    }
    cx.nontrivial = c.placement != "none";
    cx.label(format!("lint:{}", c.lint));
    cx.label(format!("placement:{}", c.placement));
    cx.label(format!("site:{}:{}", if c.lint == "Deprecated" { "deprecated" } else { "doc" }, c.site));
    cx.label(format!("argument:{}", c.argument));
    cx.label_if(c.decoy, "decoy-allow-closer-to-the-site");
    cx.sample_with(|| json!({"file": c.text, "other_file": c.other_file, "allow_on_command_line": c.cli, "expect_silenced": c.expect_silenced}));
    let src = format!("{}\n=====\n{}", c.text, c.other_file);
    // with the suppression
    let opts = options_with(&c.cli);
    let state = compile_strings(&[c.text.clone(), c.other_file.clone()], Some(&opts));
    check!(!state.diagnostics.has_errors(), "template-does-not-compile", "{}\n{src}", summarize(&diagnostics_of(state, &opts)));
    let observed_with = observe_program(&state);
    let with = diagnostics_of(state, &opts);
    // without it
    let base_opts = SliceOptions::default();
    let state0 = compile_strings(&[c.baseline.clone(), c.other_baseline.clone()], Some(&base_opts));
    let observed_without = observe_program(&state0);
    let without = diagnostics_of(state0, &base_opts);
    // the expected lint is there, at the expected level
    let hits: Vec<&DiagObs> = with.iter().filter(|d| d.code == c.lint).collect();
    check!(
        !hits.is_empty(),
        format!("lint-not-produced/{}/{}", c.lint, c.site),
        "the template should produce a {} lint:\n{}\n{src}",
        c.lint,
        summarize(&with)
    );
    for h in &hits {
        let want = if c.expect_silenced { "allowed" } else { "warning" };
        check!(
            h.level == want,
            format!(
                "{}/{}/{}/{}",
                if c.expect_silenced { "not-silenced" } else { "wrongly-silenced" },
                c.lint,
                c.site,
                c.placement
            ),
            "{} at site {} with placement {} argument {}: level {} (expected {want})\n{}\n--- source ---\n{src}",
            c.lint,
            c.site,
            c.placement,
            c.argument,
            h.level,
            summarize(&with)
        );
    }
    // nothing else changes: same diagnostics apart from levels (spans shift by the added text, so
    // codes and messages are compared), every other diagnostic keeps its level
    let a: Vec<(String, String)> = with.iter().map(|d| (d.code.clone(), d.message.clone())).collect();
    let b: Vec<(String, String)> = without.iter().map(|d| (d.code.clone(), d.message.clone())).collect();
    check!(
        a == b,
        "suppression-changed-other-diagnostics",
        "with the suppression: {:?}\nwithout: {:?}\n--- source ---\n{src}",
        strip_levels(&with),
        strip_levels(&without)
    );
    for (x, y) in with.iter().zip(&without) {
        if x.code != c.lint {
            check!(x.level == y.level, "suppression-changed-other-level", "{} changed level from {} to {}", x.code, y.level, x.level);
        }
    }
    // the AST differs only by the added attribute
    let mut stripped = observed_with.clone();
    strip_allow(&mut stripped);
    let mut base = observed_without.clone();
    strip_allow(&mut base);
    check!(
        stripped == base,
        "suppression-changed-ast",
        "the AST differs by more than the added attribute\n--- source ---\n{src}"
    );
    Ok(())
}

fn strip_allow(p: &mut crate::model::Program) {
    use crate::model::*;
    let keep = |a: &AttrM| a.directive != "allow";
    for f in &mut p.files {
        f.file_attrs.retain(keep);
        if let Some(m) = &mut f.module {
            m.attrs.retain(keep);
        }
        for d in &mut f.defs {
            d.pre_mut().attrs.retain(keep);
            match d {
                DefM::Struct(s) => s.fields.iter_mut().for_each(|x| x.pre.attrs.retain(keep)),
                DefM::Interface(i) => i.ops.iter_mut().for_each(|o| {
                    o.pre.attrs.retain(keep);
                    o.params.iter_mut().for_each(|x| x.pre.attrs.retain(keep));
                    if let RetM::Tuple(v) = &mut o.ret {
                        v.iter_mut().for_each(|x| x.pre.attrs.retain(keep));
                    }
                }),
                DefM::Enum(e) => e.enumerators.iter_mut().for_each(|en| {
                    en.pre.attrs.retain(keep);
                    en.fields.iter_mut().flatten().for_each(|x| x.pre.attrs.retain(keep));
                }),
                _ => {}
            }
        }
    }
}

// ---- random programs with many lints ----------------------------------------------------------------

/// Doc lines that produce one lint of a given kind on any commentable element that is not an operation.
const PLANTS: [(&str, &str); 9] = [
    ("BrokenDocLink", " see {@link NoSuchThing9} here"),
    ("MalformedDocComment", " @foo bar"),
    ("MalformedDocComment", " uses {@param x} inline"),
    // forms that the comment *grammar* rejects (the ones above are stopped by its lexer)
    ("MalformedDocComment", " @see"),
    ("MalformedDocComment", " @param foo bar: text"),
    ("MalformedDocComment", " a {@link Foo more words} b"),
    ("MalformedDocComment", " @returns a b: text"),
    ("IncorrectDocComment", " @returns: text"),
    ("IncorrectDocComment", " @param x: text"),
];

const NAMES: [&str; 5] = ["Deprecated", "BrokenDocLink", "IncorrectDocComment", "MalformedDocComment", "All"];

/// Random programs (deprecated definitions with uses, doc comments, planted comment defects) with
/// 1..4 random suppressions (command line, file attribute, any definition or member).  The statement's
/// predicate is evaluated independently of the implementation's notion of scope: the element a lint
/// concerns is the innermost element whose text (doc comment and attributes included) contains the
/// lint's location, as recorded by the printer; it is silenced iff the command line, its file's
/// attributes, that element or an element enclosing it names the lint or All.
fn random_case(cx: &mut CaseCtx, input: Input, cfg: &crate::gen::GenCfg) -> CaseResult {
    use crate::gen::{gen_program, pick};
    use crate::model::*;
    let (lay_bytes, prog_bytes) = crate::c02::split_input(input.bytes());
    let mut u = arbitrary::Unstructured::new(prog_bytes);
    let (mut p0, _labels) = gen_program(&mut u, cfg);
    strip_allow(&mut p0);
    // planted comment defects
    let victims: Vec<(String, &'static str)> = crate::c16::commentables(&p0).iter().map(|c| (c.0.clone(), c.3)).collect();
    if victims.is_empty() {
        cx.label("no-commentable-element");
        return Ok(());
    }
    for _ in 0..pick(&mut u, 4) {
        let (path, kind) = victims[pick(&mut u, victims.len())].clone();
        let (_lint, line) = PLANTS[pick(&mut u, PLANTS.len())];
        if kind == "operation" || (kind == "enumerator" && line.contains("@param")) {
            continue;
        }
        if let Some(pre) = crate::c16::victim_prelude(&mut p0, &path) {
            pre.doc = vec![line.to_owned()];
            pre.docm = None;
        }
    }
    if !crate::rules::check_program(&p0).well_formed() {
        cx.label("skipped-ill-formed");
        return Ok(());
    }
    // suppressions
    let mut p1 = p0.clone();
    let mut cli: Vec<String> = Vec::new();
    let nsup = 1 + pick(&mut u, 4);
    let mut placed: Vec<String> = Vec::new();
    for _ in 0..nsup {
        let mut args: Vec<&str> = vec![NAMES[pick(&mut u, NAMES.len())]];
        if pick(&mut u, 3) == 0 {
            args.push(NAMES[pick(&mut u, NAMES.len())]);
        }
        match pick(&mut u, 6) {
            0 => {
                cli.extend(args.iter().map(|s| s.to_string()));
                placed.push(format!("cli:{}", args.join("+")));
            }
            1 => {
                let fi = pick(&mut u, p1.files.len());
                p1.files[fi].file_attrs.push(AttrM::new("allow", &args));
                placed.push(format!("file{fi}:{}", args.join("+")));
            }
            _ => {
                let (path, _kind) = victims[pick(&mut u, victims.len())].clone();
                if let Some(pre) = crate::c16::victim_prelude(&mut p1, &path) {
                    // before or after the attributes the element has already (`[deprecated]` among them)
                    let at = if pick(&mut u, 2) == 0 { 0 } else { pre.attrs.len() };
                    pre.attrs.insert(at, AttrM::new("allow", &args));
                    placed.push(format!("{path}:{}", args.join("+")));
                }
            }
        }
    }
    if !crate::rules::check_program(&p1).well_formed() {
        cx.label("skipped-suppression-makes-ill-formed");
        return Ok(());
    }
    // now and then an attribute with a malformed argument list (an error) on some element, before
    // or after the suppressions in parse order: the lints that are still produced are silenced as before
    let with_error = pick(&mut u, 4) == 3; // (an exhausted input reads as 0: no error then)
    if with_error {
        let (path, _kind) = victims[pick(&mut u, victims.len())].clone();
        let bad = if pick(&mut u, 2) == 0 { AttrM::new("deprecated", &["a", "b"]) } else { AttrM::new("allow", &[]) };
        let at_front = pick(&mut u, 2) == 0;
        for p in [&mut p0, &mut p1] {
            if let Some(pre) = crate::c16::victim_prelude(p, &path) {
                if at_front {
                    pre.attrs.insert(0, bad.clone());
                } else {
                    pre.attrs.push(bad.clone());
                }
            }
        }
        cx.label("random/with-an-erroneous-attribute");
    }
    cx.set_key(&(&p1, &cli));
    let (mut texts0, _r0) = crate::c02::render_layout(&p0, lay_bytes, 1);
    let (mut texts1, rendered1) = crate::c02::render_layout(&p1, lay_bytes, 1);
    // now and then one more file, last, that declares no module: nothing is suppressed differently for it
    if pick(&mut u, 4) == 3 {
        let blank = ["", "// no module in this file\n", "\n\n"][pick(&mut u, 3)];
        texts0.push(blank.to_owned());
        texts1.push(blank.to_owned());
        cx.label("random/with-a-module-less-file");
    }
    cx.sample_with(|| json!({"files": texts1, "allow_on_command_line": cli, "suppressions": placed}));
    if std::env::var_os("VCHECK_NO_COMPILE").is_some() {
        return Ok(());
    }
    let src = || format!("--- with suppressions {placed:?}, -A {cli:?} ---\n{}", texts1.join("\n=====\n"));
    let base_opts = SliceOptions::default();
    let state0 = compile_strings(&texts0, Some(&base_opts));
    let observed0 = observe_program(&state0);
    let d0 = diagnostics_of(state0, &base_opts);
    let opts = options_with(&cli);
    let state1 = compile_strings(&texts1, Some(&opts));
    let paths: Vec<String> = state1.files.iter().map(|f| f.relative_path.clone()).collect();
    let observed1 = observe_program(&state1);
    let d1 = diagnostics_of(state1, &opts);
    if d0.iter().any(|d| d.level == "error") {
        // the generator's own business (C04); an error must at least survive the suppressions
        cx.label("base-has-errors");
        for e in d0.iter().filter(|d| d.level == "error") {
            check!(
                d1.iter().any(|x| x.code == e.code && x.message == e.message && x.level == "error"),
                format!("error-silenced/{}", e.code),
                "{} ({}) is not an error any more with the suppressions\n{}",
                e.code,
                e.message,
                src()
            );
        }
    }
    let base_has_errors = d0.iter().any(|d| d.level == "error");
    // nothing else changes: same diagnostics (code, message) in the same order
    let a: Vec<(&str, &str)> = d1.iter().map(|d| (d.code.as_str(), d.message.as_str())).collect();
    let b: Vec<(&str, &str)> = d0.iter().map(|d| (d.code.as_str(), d.message.as_str())).collect();
    check!(a == b, "random/suppression-changed-other-diagnostics", "with: {a:?}\nwithout: {b:?}\n{}", src());
    for d in d0.iter().filter(|d| d.level != "error") {
        check!(d.level == "warning", format!("random/base-level/{}", d.code), "without any suppression {} has level {}\n{}", d.code, d.level, src());
    }
    // levels by the statement's predicate
    let names = |args: &[String], code: &str| args.iter().any(|a| a == code || a == "All");
    let mut lints = 0;
    let mut silenced = 0;
    for d in &d1 {
        if !LINTS.contains(&d.code.as_str()) {
            continue;
        }
        let Some((start, end, file)) = &d.span else { continue };
        let Some(fi) = paths.iter().position(|p| p == file) else { continue };
        lints += 1;
        // innermost element whose text contains the location, and everything enclosing it
        let r = &rendered1[fi];
        let mut chain: Vec<&String> = r
            .elems
            .iter()
            .filter(|(k, e)| {
                let first = e.prelude_first.unwrap_or(e.first).min(e.first);
                let mut from = r.tok_start(first);
                if let Some(doc) = r.docs.get(*k).and_then(|d| d.first()) {
                    from = from.min(doc.slashes);
                }
                from <= *start && *end <= r.tok_end(e.last)
            })
            .map(|(k, _)| k)
            .collect();
        chain.sort_by_key(|k| k.len());
        let mut by: Vec<String> = Vec::new();
        if names(&cli, &d.code) {
            by.push("command line".into());
        }
        if p1.files[fi].file_attrs.iter().any(|a| a.directive == "allow" && names(&a.args, &d.code)) {
            by.push(format!("file {fi}"));
        }
        let mut p1m = p1.clone();
        for path in &chain {
            if let Some(pre) = crate::c16::victim_prelude(&mut p1m, path) {
                if pre.attrs.iter().any(|a| a.directive == "allow" && names(&a.args, &d.code)) {
                    by.push((*path).clone());
                }
            }
        }
        let want = if by.is_empty() { "warning" } else { "allowed" };
        if !by.is_empty() {
            silenced += 1;
        }
        cx.label(format!("random/{}/{}", d.code, want));
        check!(
            d.level == want,
            format!("random/{}/{}", if by.is_empty() { "wrongly-silenced" } else { "not-silenced" }, d.code),
            "{} ({:?}) at {start:?} of file {fi} has level {}, expected {want}: named by {by:?}; enclosing elements {chain:?}\n{}",
            d.code,
            d.message,
            d.level,
            src()
        );
    }
    cx.nontrivial = lints >= 1;
    cx.label_if(lints >= 3, "random/three-or-more-lints");
    cx.label_if(silenced >= 1 && silenced < lints, "random/some-silenced-some-not");
    cx.label_if(base_has_errors && lints >= 1, "random/lints-judged-next-to-an-error");
    if base_has_errors {
        return Ok(());
    }
    // the AST differs only by the added attributes
    let mut s1 = observed1;
    strip_allow(&mut s1);
    let mut s0 = observed0;
    strip_allow(&mut s0);
    check!(s1 == s0, "random/suppression-changed-ast", "the AST differs by more than the added attributes\n{}", src());
    Ok(())
}

// ---- members of one operation that share a name --------------------------------------------------------

pub const MEMBER_NAMES_TOTAL: u64 = 5 * 6 * 2;

/// A parameter and a return member of one operation may have the same name, and a parameter may be named
/// like the compiler's placeholder for an unnamed return type (`returnValue`).  A suppression on one of
/// them is in scope for that one only.
fn member_names_case(cx: &mut CaseCtx, input: Input) -> CaseResult {
    let i = input.index() as usize;
    let shape = i % 5;
    let placement = (i / 5) % 6; // none, parameter, return member, both, operation, the other parameter
    let arg = ["Deprecated", "All"][(i / 30) % 2];
    let al = format!("[allow({arg})] ");
    let on = |want: &[usize]| if want.contains(&placement) { al.as_str() } else { "" };
    let (p, r, o, x) = (on(&[1, 3]), on(&[2, 3]), on(&[4]), on(&[5]));
    // D1 is used by the parameter, D2 by the return member (or the unnamed return type)
    let (op, has_named_return) = match shape {
        0 => (format!("{o}op({p}a: D1, {x}z: bool) -> ({r}a: D2, b: bool)"), true),
        1 => (format!("{o}op({x}z: bool, {p}a: D1) -> (b: bool, {r}a: D2)"), true),
        2 => (format!("{o}op({p}a: Sequence<D1>, {x}z: bool) -> ({r}a: Dictionary<string, D2>, b: bool)"), true),
        3 => (format!("{o}op({p}returnValue: D1, {x}z: bool) -> D2"), false),
        _ => (format!("{o}op({p}returnValue: D1?, {x}z: bool) -> Sequence<D2>"), false),
    };
    let text = format!("module M\n[deprecated] struct D1 {{}}\n[deprecated] struct D2 {{}}\ninterface I {{\n    {op}\n}}\n");
    cx.nontrivial = placement != 0;
    cx.label(format!("member-names/shape-{shape}"));
    cx.label(format!("member-names/placement-{placement}"));
    cx.sample_with(|| json!({"file": text}));
    let opts = SliceOptions::default();
    let state = compile_strings(&[text.clone()], Some(&opts));
    let ds = diagnostics_of(state, &opts);
    check!(!ds.iter().any(|d| d.level == "error"), "template-does-not-compile", "{}\n{text}", summarize(&ds));
    for (who, message, silenced) in [
        ("parameter", "'D1' is deprecated", matches!(placement, 1 | 3 | 4)),
        ("return", "'D2' is deprecated", placement == 4 || (has_named_return && matches!(placement, 2 | 3))),
    ] {
        let hits: Vec<&DiagObs> = ds.iter().filter(|d| d.code == "Deprecated" && d.message.starts_with(message)).collect();
        check!(hits.len() == 1, format!("member-names/lint-count/{who}"), "{} lints for {message}:\n{}\n{text}", hits.len(), summarize(&ds));
        let want = if silenced { "allowed" } else { "warning" };
        check!(
            hits[0].level == want,
            format!("member-names/{}/{who}", if silenced { "not-silenced" } else { "wrongly-silenced" }),
            "the lint of the {who} has level {} (expected {want})\n{}\n{text}",
            hits[0].level,
            summarize(&ds)
        );
    }
    Ok(())
}

/// Errors are never silenced: one injected error, `allow(All)` everywhere and `-A All`.
fn errors_case(cx: &mut CaseCtx, input: Input) -> CaseResult {
    const ERRORS: [(&str, &str); 10] = [
        ("E016", "[[allow(All)]]\nmodule M\n[allow(All)] struct S { [allow(All)] tag(1) a: int32 }\n"),
        ("E033", "[[allow(All)]]\nmodule M\n[allow(All)] struct S { [allow(All)] a: Missing }\n"),
        ("E032", "[[allow(All)]]\nmodule M\n[allow(All)] struct S { [allow(All)] a: S }\n"),
        ("E010", "[[allow(All)]]\nmodule M\n[allow(All)] struct S {}\n[allow(All)] custom S\n"),
        ("E024", "[[allow(All)]]\nmodule M\n[allow(All)] [bogus] struct S {}\n"),
        ("E002", "[[allow(All)]]\nmodule M\n[allow(All)] struct {\n"),
        ("E027", "[[allow(All)]]\nmodule M\n[allow(Errors)] struct S {}\n"),
        ("E008", "[[allow(All)]]\nmodule M\n[allow(All)] enum E {}\n"),
        // a suppression written between the two uses of a repeated attribute
        ("E026", "module M\n[deprecated] [allow(All)] [deprecated(\"x\")] struct S {}\n"),
        ("E026", "module M\ninterface I {\n    [oneway] [allow(Deprecated)] [cs::x] [oneway] op()\n}\n"),
    ];
    let (code, text) = ERRORS[(input.index() % ERRORS.len() as u64) as usize];
    let cli: Vec<String> = match input.index() / ERRORS.len() as u64 {
        0 => vec![],
        1 => vec!["All".into()],
        _ => vec!["all".into(), "Deprecated".into(), code.to_owned().to_lowercase()],
    };
    // (an error code is no lint name: the third variant is only meaningful in-process, where the
    // option list is not validated)
    cx.nontrivial = true;
    cx.label("error-with-allow-all");
    cx.sample_with(|| json!({"file": text, "allow": cli}));
    let opts = options_with(&cli);
    let state = compile_strings(&[text.to_owned()], Some(&opts));
    let diags = diagnostics_of(state, &opts);
    let hit = diags.iter().find(|d| d.code == code);
    let Some(hit) = hit else {
        fail!(format!("error-vanished/{code}"), "{code} is not reported with allow = {cli:?}:\n{}\n{text}", summarize(&diags));
    };
    check!(hit.level == "error", format!("error-silenced/{code}"), "{code} has level {} with allow = {cli:?}", hit.level);
    Ok(())
}

/// Through the binary: command line spellings, DuplicateFile, exit status and the request.
fn binary_case(cx: &mut CaseCtx, input: Input) -> CaseResult {
    let idx = input.index();
    let dir = CaseDir::new(&cx.workdir, cx.shard, cx.case_no);
    let scenario = idx % 6;
    let variant = idx / 6;
    let gen = dir.install_generator("gen", "");
    let mut argv: Vec<std::ffi::OsString> = Vec::new();
    let warn_text = "module M\n[deprecated] struct D {}\nstruct U { d: D }\n/// {@link Nope}\ncustom C\n";
    dir.write("a.slice", warn_text.as_bytes());
    argv.push(os("a.slice"));
    argv.push(os("--generator=./gen"));
    // expected visible warnings: Deprecated, BrokenDocLink (+ DuplicateFile in scenario 4/5)
    let mut expected: Vec<&str> = vec!["Deprecated", "BrokenDocLink"];
    cx.nontrivial = true;
    match scenario {
        0 => {}
        1 => {
            let spell = ["Deprecated", "deprecated", "DEPRECATED"][(variant % 3) as usize];
            argv.push(os("-A"));
            argv.push(os(spell));
            expected.retain(|x| *x != "Deprecated");
            cx.label_if(spell != "Deprecated", "cli-wrong-case-binary");
        }
        2 => {
            let spell = ["All", "all", "ALL"][(variant % 3) as usize];
            argv.push(os(&format!("--allow={spell}")));
            expected.clear();
        }
        3 => {
            argv.push(os("-A"));
            argv.push(os("MalformedDocComment"));
        }
        4 => {
            argv.push(os("./a.slice"));
            expected.push("DuplicateFile");
            cx.label("duplicate-file-warned");
        }
        _ => {
            argv.push(os("./a.slice"));
            argv.push(os("-A"));
            argv.push(os(["DuplicateFile", "duplicatefile"][(variant % 2) as usize]));
            cx.label("duplicate-file-silenced");
        }
    }
    cx.label(format!("binary-scenario-{scenario}"));
    cx.sample_with(|| json!({"argv": argv.iter().map(|a| a.to_string_lossy().into_owned()).collect::<Vec<_>>()}));
    let r = proc::run_slicec(&dir.path, &argv, &[], Duration::from_secs(20));
    if let Some(c) = r.crashed() {
        fail!(format!("slicec-crash/{c}"), "{}", r.stderr_text());
    }
    let stderr = r.stderr_text();
    let mut seen: Vec<String> = stderr
        .lines()
        .filter_map(|l| l.strip_prefix("warning [").and_then(|x| x.split(']').next()).map(|s| s.to_owned()))
        .collect();
    seen.sort();
    let mut want: Vec<String> = expected.iter().map(|s| s.to_string()).collect();
    want.sort();
    check!(
        seen == want,
        format!("binary/warnings-shown/scenario-{scenario}"),
        "argv {argv:?}: warnings shown {seen:?}, expected {want:?}\n{stderr}"
    );
    check!(r.code == Some(0), "binary/exit-status", "argv {argv:?}: warnings only, exit status {:?}", r.code);
    // the request is identical whatever is allowed on the command line
    let Some(stdin) = dir.generator_stdin(&gen) else {
        fail!("binary/generator-not-run", "argv {argv:?}: the generator did not run\n{stderr}");
    };
    let reference = {
        let d2 = CaseDir::new(&cx.workdir, cx.shard, cx.case_no + 1_000_000);
        d2.write("a.slice", warn_text.as_bytes());
        let g2 = d2.install_generator("gen", "");
        let _ = proc::run_slicec(&d2.path, &[os("a.slice"), os("--generator=./gen")], &[], Duration::from_secs(20));
        d2.generator_stdin(&g2)
    };
    check!(Some(&stdin) == reference.as_ref(), "binary/request-changed-by-suppression", "argv {argv:?}: the generator request differs from the run without --allow");
    Ok(())
}

/// Number of `allow` attributes anywhere in a program (declarations and types).
fn count_allow(p: &crate::model::Program) -> usize {
    use crate::model::*;
    fn ty(t: &TypeM) -> usize {
        t.attrs.iter().filter(|a| a.directive == "allow").count()
            + match &t.kind {
                TypeK::Seq(e) => ty(e),
                TypeK::Dict(k, v) => ty(k) + ty(v),
                TypeK::Result(a, b) => ty(a) + ty(b),
                _ => 0,
            }
    }
    let pre = |p: &Prelude| p.attrs.iter().filter(|a| a.directive == "allow").count();
    let mut n = 0;
    for f in &p.files {
        n += f.file_attrs.iter().filter(|a| a.directive == "allow").count();
        if let Some(m) = &f.module {
            n += m.attrs.iter().filter(|a| a.directive == "allow").count();
        }
        for d in &f.defs {
            n += pre(d.pre());
            match d {
                DefM::Struct(s) => s.fields.iter().for_each(|x| n += pre(&x.pre) + ty(&x.ty)),
                DefM::Interface(i) => {
                    i.bases.iter().for_each(|b| n += ty(b));
                    for o in &i.ops {
                        n += pre(&o.pre);
                        o.params.iter().chain(o.ret.members()).for_each(|x| n += pre(&x.pre) + ty(&x.ty));
                    }
                }
                DefM::Enum(e) => {
                    if let Some(u) = &e.underlying {
                        n += ty(u);
                    }
                    for en in &e.enumerators {
                        n += pre(&en.pre);
                        en.fields.iter().flatten().for_each(|x| n += pre(&x.pre) + ty(&x.ty));
                    }
                }
                DefM::Alias(a) => n += ty(&a.ty),
                DefM::Custom(_) => {}
            }
        }
    }
    n
}

/// Through the binary: one `allow` attribute written on the file, an interface, an operation, a
/// parameter, a return member, a struct or a field.  The generator request of the run with the
/// attribute says what the run without it says, plus that one attribute, once.
fn request_delta_case(cx: &mut CaseCtx, input: Input) -> CaseResult {
    const PLACES: [&str; 7] = ["file", "interface", "operation", "parameter", "return-member", "struct", "field"];
    let place = PLACES[input.index() as usize % PLACES.len()];
    let arg = ["Deprecated", "All", "BrokenDocLink, Deprecated"][(input.index() as usize / PLACES.len()) % 3];
    let at = |p: &str| if p == place { format!("[allow({arg})] ") } else { String::new() };
    let text = |with: bool| -> String {
        let a = |p: &str| if with { at(p) } else { String::new() };
        format!(
            "{}module M\n[deprecated] struct D {{}}\n{}struct U {{\n    {}d: D\n    e: bool\n}}\n{}interface I {{\n    {}op({}a: D, b: bool) -> ({}x: D, y: int32)\n    other(c: string)\n}}\n",
            if with && place == "file" { format!("[[allow({arg})]]\n") } else { String::new() },
            a("struct"),
            a("field"),
            a("interface"),
            a("operation"),
            a("parameter"),
            a("return-member")
        )
    };
    cx.nontrivial = true;
    cx.label(format!("request-delta:{place}"));
    let (with, without) = (text(true), text(false));
    cx.sample_with(|| json!({"file": with, "baseline": without}));
    let run = |salt: u64, t: &str| -> Result<(proc::RunResult, Option<Vec<u8>>), Fail> {
        let d = CaseDir::new(&cx.workdir, cx.shard, cx.case_no + salt * 1_000_000);
        d.write("a.slice", t.as_bytes());
        let g = d.install_generator("gen", "");
        let r = proc::run_slicec(&d.path, &[os("a.slice"), os("--generator=./gen")], &[], Duration::from_secs(20));
        if let Some(c) = r.crashed() {
            return Err(Fail::new(format!("slicec-crash/{c}"), r.stderr_text()));
        }
        let stdin = d.generator_stdin(&g);
        Ok((r, stdin))
    };
    let (ra, qa) = run(1, &with)?;
    let (rb, qb) = run(2, &without)?;
    check!(ra.code == Some(0) && rb.code == Some(0), "request-delta/exit-status", "exit {:?} with, {:?} without\n{}", ra.code, rb.code, ra.stderr_text());
    let (Some(qa), Some(qb)) = (qa, qb) else {
        fail!("request-delta/generator-not-run", "{}", ra.stderr_text());
    };
    let dec = |q: &[u8]| -> Result<crate::model::Program, Fail> {
        let (d, _) = crate::request::decode_and_interpret(q).map_err(|e| Fail::new("request-delta/undecodable-request", format!("{e:?}")))?;
        Ok(crate::model::Program { files: d.sources.into_iter().chain(d.references).map(|f| f.file).collect() })
    };
    let (pa, pb) = (dec(&qa)?, dec(&qb)?);
    let n = count_allow(&pa);
    check!(
        n == 1 && count_allow(&pb) == 0,
        format!("request-delta/allow-attributes/{place}"),
        "one allow attribute was written on the {place}; the request carries {n} of them\n--- source ---\n{with}"
    );
    let mut stripped = pa.clone();
    strip_allow(&mut stripped);
    // (strip_allow leaves attributes on types alone; count_allow == 1 already excludes copies there)
    check!(
        stripped == pb,
        format!("request-delta/content/{place}"),
        "apart from the attribute itself the request differs from the one of the run without it\n--- source ---\n{with}"
    );
    Ok(())
}

impl Check for C13 {
    fn id(&self) -> &'static str {
        "C13"
    }
    fn rule(&self) -> String {
        format!("families: matrix = all {MATRIX_TOTAL} cells lint kind (Deprecated, BrokenDocLink, IncorrectDocComment, MalformedDocComment) x site (10 uses of a deprecated type: field, nested type, enumerator field, parameter, single return, return member, alias target, interface base, enum underlying, dictionary value; 9 commented entities) x placement (none, command line, command line in another case, file attribute, outer enclosing definition, inner enclosing definition, the element itself, unrelated sibling, another file's attribute) x argument (that lint, All, another lint, that + another, another + All), in-process; errors = 10 error templates (8 kinds with allow(All) everywhere, a repeated attribute with an allow written between its two uses) x -A lists; binary = command-line spellings, DuplicateFile, exit status, request identity; request-delta = one allow attribute on each of 7 places x 3 argument lists through the binary: the decoded generator request carries that attribute exactly once and otherwise equals the request of the run without it; random = proptest choice sequences -> programs with deprecated definitions and their uses, doc comments and up to 3 planted comment defects, plus 1..4 suppressions (command line, file attribute, any definition or member; one or two names each) in free layouts. Oracle: the statement's predicate gives the expected level (in the random family the element a lint concerns is found independently of the implementation's scope strings: the innermost element whose text, doc comment and attributes included, contains the lint's location as recorded by the printer); with/without pairs differ in nothing but that level and the added attribute. Non-trivial = a suppression is present (matrix) / at least one located lint judged (random)")
    }
    fn assumptions(&self) -> Vec<String> {
        vec![
            "for the type of a single (unnamed) return value the element the lint concerns is the operation".into(),
            "an inner enclosing definition (enumerator of an enumerator field, operation of a parameter) counts as 'a definition enclosing that element'".into(),
        ]
    }
    fn essential(&self, _tier: Tier) -> Vec<&'static str> {
        vec![
            "lint:Deprecated",
            "lint:BrokenDocLink",
            "lint:IncorrectDocComment",
            "lint:MalformedDocComment",
            "placement:cli",
            "placement:cli-wrong-case",
            "placement:file",
            "placement:enclosing",
            "placement:enclosing-inner",
            "placement:element",
            "placement:sibling",
            "random/Deprecated/allowed",
            "random/Deprecated/warning",
            "random/BrokenDocLink/allowed",
            "random/IncorrectDocComment/allowed",
            "random/MalformedDocComment/warning",
            "random/some-silenced-some-not",
            "random/lints-judged-next-to-an-error",
            "placement:other-file",
            "argument:two-attributes-other-then-that",
            "decoy-allow-closer-to-the-site",
            "site:doc:operation-tuple-return",
            "site:doc:operation-single-return",
            "error-with-allow-all",
            "duplicate-file-warned",
            "duplicate-file-silenced",
            "cli-wrong-case-binary",
        ]
    }
    fn needs_binary(&self) -> bool {
        true
    }
    fn fuzz_families(&self, _tier: Tier) -> Vec<(&'static str, u64)> {
        vec![("random", 6000)]
    }
    fn families(&self, tier: Tier) -> Vec<Family<'_>> {
        let cfg = crate::gen::GenCfg { deprecated: true, doc_chance: 90, max_files: 2, max_defs: 6, ..Default::default() };
        vec![
            Family::bytes("random", 600, tier.pick(1_500, 40_000), move |cx, i| random_case(cx, i, &cfg)),
            Family::enumerate("matrix", MATRIX_TOTAL, 1, matrix_case),
            Family::enumerate("errors", 30, 1, errors_case),
            Family::enumerate("binary", 36, 1, binary_case),
            Family::enumerate("request-delta", 21, 1, request_delta_case),
            Family::enumerate("member-names", MEMBER_NAMES_TOTAL, 1, member_names_case),
        ]
    }
}
