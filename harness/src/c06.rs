//! C06 — conditional compilation selects exactly the right lines, in place.
//!
//! Oracle: a line-oriented reference interpreter written from the property statement and the
//! documented (quirky) expression grammar.  It never calls the code under test and has a
//! different shape (split into lines, hand-written scanner, flat operator chains, explicit stack
//! of open conditionals) from the implementation (character lexer + LALRPOP grammar + recursive
//! evaluation of a node tree).  One oracle (`judge`) works from the *text* of the files alone:
//!
//!  * classification: a line is a directive iff its first non-blank character is `#`;
//!    directive = `#` blanks* keyword, then tokens up to an optional `//` comment;
//!    `expr := ['!'] term (('&&'|'||') term)*`, `term := ident | '(' expr ')'`, operators of equal
//!    precedence, left associative, `!` only in front of the first term of an expression;
//!  * `#define x` / `#undef x` act only in selected regions, from that line on, on a per-file
//!    copy of the `-D` set; `#elif` / `#else` / `#endif` must be well nested;
//!  * every selected source line of the shapes the generators write is a self-contained probe
//!    definition (`custom P7`, `struct P7 { f: T }`, `typealias P7 = T`, `[deprecated] custom P7`)
//!    whose row is its line number and whose column is the number of characters before it + 1.
//!
//! Expected (well-formed file): `files[i].contents` = the probes on selected lines, in order;
//! each probe's span starts on its row at its written column; no E002; every other diagnostic
//! (unresolved type of a probe's field, use of a deprecated probe) sits on the written row/col.
//! Expected (malformed or unbalanced file): >= 1 E002 in that file and, if some directive line
//! is malformed in itself, an E002 on the row of (at least one) such line.  Never a crash.
//!
//! Deliberate leniency (statement is silent / ambiguous there):
//!  * with several malformed lines in one file only one of them has to carry an E002 (the
//!    parser legitimately gives up after the first lexical error, and an error that is still
//!    being recovered from when the lexer fails is dropped);
//!  * purely structural imbalance (stray `#elif/#else/#endif`, unclosed `#if`): only the presence
//!    of an E002 is asserted, not its row (an unclosed `#if` is reported at end of input);
//!  * nothing is asserted about the contents of a file that has a syntax error;
//!  * diagnostics are compared by level + position, never by message; a lint is only required
//!    when no error is expected in the same compilation;
//!  * the span of a definition that carries an attribute is not asserted (C09), its identifier is.

use crate::engine::*;
use crate::{check, fail};
use arbitrary::Unstructured;
use serde_json::{json, Value};
use slicec::diagnostics::DiagnosticLevel;
use slicec::slice_options::SliceOptions;
use std::collections::{BTreeMap, BTreeSet};

pub struct C06;

type Syms = BTreeSet<String>;

// ==========================================================================================
// Reference interpreter, part 1: classification of one line
// ==========================================================================================

#[derive(Clone, Debug, PartialEq)]
enum Tok {
    Id(String),
    Not,
    And,
    Or,
    LPar,
    RPar,
}

#[derive(Clone, Copy, Debug, PartialEq, Eq)]
enum Op {
    And,
    Or,
}

/// `['!'] first (op term)*` — a flat chain, as the documentation writes the grammar.
#[derive(Clone, Debug)]
struct Expr {
    neg: bool,
    first: Term,
    rest: Vec<(Op, Term)>,
}

#[derive(Clone, Debug)]
enum Term {
    Sym(String),
    Group(Box<Expr>),
}

#[derive(Clone, Copy, PartialEq, Eq)]
enum Mode {
    /// equal precedence, left associative (the documented semantics)
    Documented,
    /// what the value would be if `&&` bound tighter than `||` (label only)
    AndBindsTighter,
    /// what the value would be if operators were right associative (label only)
    RightAssoc,
}

impl Term {
    fn eval(&self, syms: &Syms, mode: Mode) -> bool {
        match self {
            Term::Sym(s) => syms.contains(s),
            Term::Group(e) => e.eval(syms, mode),
        }
    }
    fn symbols(&self, out: &mut BTreeSet<String>) {
        match self {
            Term::Sym(s) => {
                out.insert(s.clone());
            }
            Term::Group(e) => e.symbols(out),
        }
    }
}

impl Expr {
    fn eval(&self, syms: &Syms, mode: Mode) -> bool {
        let v0 = self.first.eval(syms, mode) != self.neg;
        match mode {
            Mode::Documented => {
                let mut acc = v0;
                for (op, t) in &self.rest {
                    let v = t.eval(syms, mode);
                    acc = match op {
                        Op::And => acc && v,
                        Op::Or => acc || v,
                    };
                }
                acc
            }
            Mode::AndBindsTighter => {
                // disjunction of conjunctions
                let mut any = false;
                let mut group = v0;
                for (op, t) in &self.rest {
                    let v = t.eval(syms, mode);
                    match op {
                        Op::And => group = group && v,
                        Op::Or => {
                            any = any || group;
                            group = v;
                        }
                    }
                }
                any || group
            }
            Mode::RightAssoc => {
                let mut vals = vec![v0];
                for (_, t) in &self.rest {
                    vals.push(t.eval(syms, mode));
                }
                let mut acc = *vals.last().unwrap();
                for i in (0..self.rest.len()).rev() {
                    acc = match self.rest[i].0 {
                        Op::And => vals[i] && acc,
                        Op::Or => vals[i] || acc,
                    };
                }
                acc
            }
        }
    }
    fn symbols(&self, out: &mut BTreeSet<String>) {
        self.first.symbols(out);
        for (_, t) in &self.rest {
            t.symbols(out);
        }
    }
    fn depth(&self) -> usize {
        let td = |t: &Term| match t {
            Term::Sym(_) => 0,
            Term::Group(e) => 1 + e.depth(),
        };
        self.rest.iter().map(|(_, t)| td(t)).chain(std::iter::once(td(&self.first))).max().unwrap_or(0)
    }
}

/// Recursive descent over the token list; `None` = not a sentence of the documented grammar.
struct ExprParser<'a> {
    toks: &'a [Tok],
    pos: usize,
}

impl ExprParser<'_> {
    fn eat(&mut self, t: &Tok) -> bool {
        if self.toks.get(self.pos) == Some(t) {
            self.pos += 1;
            true
        } else {
            false
        }
    }
    fn expr(&mut self) -> Option<Expr> {
        let neg = self.eat(&Tok::Not);
        let first = self.term()?;
        let mut rest = Vec::new();
        loop {
            let op = if self.eat(&Tok::And) {
                Op::And
            } else if self.eat(&Tok::Or) {
                Op::Or
            } else {
                break;
            };
            rest.push((op, self.term()?));
        }
        Some(Expr { neg, first, rest })
    }
    fn term(&mut self) -> Option<Term> {
        match self.toks.get(self.pos) {
            Some(Tok::Id(s)) => {
                self.pos += 1;
                Some(Term::Sym(s.clone()))
            }
            Some(Tok::LPar) => {
                self.pos += 1;
                let e = self.expr()?;
                if self.eat(&Tok::RPar) {
                    Some(Term::Group(Box::new(e)))
                } else {
                    None
                }
            }
            _ => None,
        }
    }
}

fn parse_expression(toks: &[Tok]) -> Option<Expr> {
    let mut p = ExprParser { toks, pos: 0 };
    let e = p.expr()?;
    if p.pos == toks.len() {
        Some(e)
    } else {
        None
    }
}

#[derive(Clone, Copy, Debug, PartialEq, Eq)]
enum BadKind {
    /// `#` followed by nothing
    MissingDirective,
    /// `#bogus`
    UnknownDirective,
    /// a character (sequence) that is no token: `&`, `|`, `/`, digits, punctuation ...
    BadCharacter,
    /// `#if` / `#elif` whose token list is not an expression of the documented grammar
    BadExpression,
    /// `#define` / `#undef` not followed by exactly one identifier
    BadSymbolOperand,
    /// `#else x`, `#endif x`
    ExtraTokens,
}

impl BadKind {
    fn lexical(self) -> bool {
        matches!(self, BadKind::MissingDirective | BadKind::UnknownDirective | BadKind::BadCharacter)
    }
    fn name(self) -> &'static str {
        match self {
            BadKind::MissingDirective => "missing-directive",
            BadKind::UnknownDirective => "unknown-directive",
            BadKind::BadCharacter => "bad-character",
            BadKind::BadExpression => "bad-expression",
            BadKind::BadSymbolOperand => "bad-symbol-operand",
            BadKind::ExtraTokens => "extra-tokens",
        }
    }
}

#[derive(Clone, Debug)]
enum Dir {
    If(Expr),
    Elif(Expr),
    Else,
    Endif,
    Define(String),
    Undef(String),
}

#[derive(Clone, Debug)]
enum LineClass {
    Blank,
    Source,
    Dir(Dir),
    Bad(BadKind),
}

impl LineClass {
    fn tag(&self) -> &'static str {
        match self {
            LineClass::Blank => "blank",
            LineClass::Source => "source",
            LineClass::Dir(Dir::If(_)) => "if",
            LineClass::Dir(Dir::Elif(_)) => "elif",
            LineClass::Dir(Dir::Else) => "else",
            LineClass::Dir(Dir::Endif) => "endif",
            LineClass::Dir(Dir::Define(_)) => "define",
            LineClass::Dir(Dir::Undef(_)) => "undef",
            LineClass::Bad(_) => "malformed",
        }
    }
}

#[derive(Clone, Copy, Default, Debug)]
struct LineFeat {
    indent_hash: bool,
    blank_after_hash: bool,
    comment: bool,
    not: bool,
    parens: bool,
    cr: bool,
}

fn is_word(c: char) -> bool {
    c.is_ascii_alphanumeric() || c == '_'
}

/// Classifies one line (without its '\n').
fn classify(line: &str) -> (LineClass, LineFeat) {
    let mut feat = LineFeat { cr: line.ends_with('\r'), ..LineFeat::default() };
    let cs: Vec<char> = line.chars().collect();
    let n = cs.len();
    let mut i = 0;
    while i < n && cs[i].is_whitespace() {
        i += 1;
    }
    if i == n {
        return (LineClass::Blank, feat);
    }
    if cs[i] != '#' {
        return (LineClass::Source, feat);
    }
    feat.indent_hash = i > 0;
    i += 1;
    let after_hash = i;
    while i < n && cs[i].is_whitespace() {
        i += 1;
    }
    feat.blank_after_hash = i > after_hash;
    let kw_start = i;
    while i < n && is_word(cs[i]) {
        i += 1;
    }
    let keyword: String = cs[kw_start..i].iter().collect();
    if keyword.is_empty() {
        return (LineClass::Bad(BadKind::MissingDirective), feat);
    }
    if !matches!(keyword.as_str(), "if" | "elif" | "else" | "endif" | "define" | "undef") {
        return (LineClass::Bad(BadKind::UnknownDirective), feat);
    }
    // tokens up to an optional `//` comment
    let mut toks: Vec<Tok> = Vec::new();
    loop {
        while i < n && cs[i].is_whitespace() {
            i += 1;
        }
        if i >= n {
            break;
        }
        let c = cs[i];
        let next = cs.get(i + 1).copied();
        match c {
            '/' if next == Some('/') => {
                feat.comment = true;
                break;
            }
            '(' => {
                feat.parens = true;
                toks.push(Tok::LPar);
                i += 1;
            }
            ')' => {
                toks.push(Tok::RPar);
                i += 1;
            }
            '!' => {
                feat.not = true;
                toks.push(Tok::Not);
                i += 1;
            }
            '&' if next == Some('&') => {
                toks.push(Tok::And);
                i += 2;
            }
            '|' if next == Some('|') => {
                toks.push(Tok::Or);
                i += 2;
            }
            c if c.is_ascii_alphabetic() => {
                let s = i;
                while i < n && is_word(cs[i]) {
                    i += 1;
                }
                toks.push(Tok::Id(cs[s..i].iter().collect()));
            }
            _ => return (LineClass::Bad(BadKind::BadCharacter), feat),
        }
    }
    let class = match keyword.as_str() {
        "if" | "elif" => match parse_expression(&toks) {
            Some(e) if keyword == "if" => LineClass::Dir(Dir::If(e)),
            Some(e) => LineClass::Dir(Dir::Elif(e)),
            None => LineClass::Bad(BadKind::BadExpression),
        },
        "else" | "endif" => {
            if !toks.is_empty() {
                LineClass::Bad(BadKind::ExtraTokens)
            } else if keyword == "else" {
                LineClass::Dir(Dir::Else)
            } else {
                LineClass::Dir(Dir::Endif)
            }
        }
        _ => match toks.as_slice() {
            [Tok::Id(s)] if keyword == "define" => LineClass::Dir(Dir::Define(s.clone())),
            [Tok::Id(s)] => LineClass::Dir(Dir::Undef(s.clone())),
            _ => LineClass::Bad(BadKind::BadSymbolOperand),
        },
    };
    (class, feat)
}

// ==========================================================================================
// Reference interpreter, part 2: nesting, selection, symbol table
// ==========================================================================================

#[derive(Clone, Copy, Debug, PartialEq, Eq)]
enum Region {
    Top,
    If,
    Elif,
    Else,
}

impl Region {
    fn name(self) -> &'static str {
        match self {
            Region::Top => "top",
            Region::If => "if",
            Region::Elif => "elif",
            Region::Else => "else",
        }
    }
}

#[derive(Clone, Copy, Debug)]
struct LineRec {
    /// the line is in a selected region (meaningful for every kind of line)
    selected: bool,
    depth: usize,
    region: Region,
}

#[derive(Default, Clone, Debug)]
struct Flags {
    conditionals: usize,
    max_depth: usize,
    elif_after_taken: bool,
    elif_true_after_taken: bool,
    define_in_skipped: bool,
    undef_in_skipped: bool,
    /// a condition evaluated later mentions a symbol whose #define / #undef was skipped
    skipped_change_then_tested: bool,
    define_in_selected_block: bool,
    undef_then_retest: bool,
    define_then_test: bool,
    precedence_sensitive: bool,
    assoc_sensitive: bool,
    source_selected_inside: bool,
    source_skipped_inside: bool,
    source_outside: bool,
    selected_after_removed: bool,
    max_expr_depth: usize,
}

#[derive(Clone, Debug)]
struct Interp {
    recs: Vec<LineRec>,
    /// first structural problem: (row, kind); row 0 = end of input
    structural: Option<(usize, &'static str)>,
    final_syms: Syms,
    flags: Flags,
}

struct Frame {
    parent_active: bool,
    taken: bool,
    active: bool,
    seen_else: bool,
    region: Region,
}

/// Runs the conditional-compilation semantics over classified lines.  Lines classified `Bad` are
/// skipped here (the file is malformed anyway and selection is then not used).
fn interpret(classes: &[LineClass], start: &Syms) -> Interp {
    let mut syms = start.clone();
    let mut stack: Vec<Frame> = Vec::new();
    let mut recs = Vec::with_capacity(classes.len());
    let mut structural: Option<(usize, &'static str)> = None;
    let mut fl = Flags::default();
    let mut undefd: Syms = Syms::new();
    let mut defd: Syms = Syms::new();
    let mut removed_something = false;
    // symbols whose (effective) #define or #undef stood in a skipped region
    let skipped_changes: std::cell::RefCell<Syms> = std::cell::RefCell::new(Syms::new());
    let note_eval = |e: &Expr, syms: &Syms, fl: &mut Flags, undefd: &Syms, defd: &Syms| -> bool {
        let v = e.eval(syms, Mode::Documented);
        if e.eval(syms, Mode::AndBindsTighter) != v {
            fl.precedence_sensitive = true;
        }
        if e.eval(syms, Mode::RightAssoc) != v {
            fl.assoc_sensitive = true;
        }
        fl.max_expr_depth = fl.max_expr_depth.max(e.depth());
        let mut used = BTreeSet::new();
        e.symbols(&mut used);
        if used.iter().any(|s| undefd.contains(s)) {
            fl.undef_then_retest = true;
        }
        if used.iter().any(|s| defd.contains(s)) {
            fl.define_then_test = true;
        }
        if used.iter().any(|s| skipped_changes.borrow().contains(s)) {
            fl.skipped_change_then_tested = true;
        }
        v
    };
    for (idx, class) in classes.iter().enumerate() {
        let row = idx + 1;
        let active = stack.last().map(|f| f.active).unwrap_or(true);
        let region = stack.last().map(|f| f.region).unwrap_or(Region::Top);
        let mut rec = LineRec { selected: active, depth: stack.len(), region };
        match class {
            LineClass::Blank => {}
            LineClass::Bad(_) => {}
            LineClass::Source => {
                if stack.is_empty() {
                    fl.source_outside = true;
                } else if active {
                    fl.source_selected_inside = true;
                } else {
                    fl.source_skipped_inside = true;
                }
                if active && removed_something {
                    fl.selected_after_removed = true;
                }
            }
            LineClass::Dir(d) => match d {
                Dir::If(e) => {
                    let cond = if active { note_eval(e, &syms, &mut fl, &undefd, &defd) } else { false };
                    stack.push(Frame {
                        parent_active: active,
                        taken: cond,
                        active: cond,
                        seen_else: false,
                        region: Region::If,
                    });
                    fl.conditionals += 1;
                    fl.max_depth = fl.max_depth.max(stack.len());
                }
                Dir::Elif(e) => match stack.last_mut() {
                    Some(f) if !f.seen_else => {
                        rec.depth -= 1;
                        rec.selected = f.parent_active;
                        f.region = Region::Elif;
                        if f.parent_active && f.taken {
                            fl.elif_after_taken = true;
                            if e.eval(&syms, Mode::Documented) {
                                fl.elif_true_after_taken = true;
                            }
                            f.active = false;
                        } else if f.parent_active {
                            let cond = note_eval(e, &syms, &mut fl, &undefd, &defd);
                            f.active = cond;
                            f.taken = cond;
                        } else {
                            f.active = false;
                        }
                    }
                    Some(_) => {
                        structural.get_or_insert((row, "elif-after-else"));
                    }
                    None => {
                        structural.get_or_insert((row, "stray-elif"));
                    }
                },
                Dir::Else => match stack.last_mut() {
                    Some(f) if !f.seen_else => {
                        rec.depth -= 1;
                        rec.selected = f.parent_active;
                        f.region = Region::Else;
                        f.active = f.parent_active && !f.taken;
                        f.taken = true;
                        f.seen_else = true;
                    }
                    Some(_) => {
                        structural.get_or_insert((row, "second-else"));
                    }
                    None => {
                        structural.get_or_insert((row, "stray-else"));
                    }
                },
                Dir::Endif => match stack.pop() {
                    Some(f) => {
                        rec.depth -= 1;
                        rec.selected = f.parent_active;
                    }
                    None => {
                        structural.get_or_insert((row, "stray-endif"));
                    }
                },
                Dir::Define(s) => {
                    if active {
                        if !stack.is_empty() {
                            fl.define_in_selected_block = true;
                        }
                        if syms.insert(s.clone()) {
                            defd.insert(s.clone());
                            undefd.remove(s);
                        }
                    } else if !syms.contains(s) {
                        fl.define_in_skipped = true;
                        skipped_changes.borrow_mut().insert(s.clone());
                    }
                }
                Dir::Undef(s) => {
                    if active {
                        if syms.remove(s) {
                            undefd.insert(s.clone());
                            defd.remove(s);
                        }
                    } else if syms.contains(s) {
                        fl.undef_in_skipped = true;
                        skipped_changes.borrow_mut().insert(s.clone());
                    }
                }
            },
        }
        if !matches!(class, LineClass::Source) || !rec.selected {
            if !matches!(class, LineClass::Blank) {
                removed_something = true;
            }
        }
        recs.push(rec);
    }
    if !stack.is_empty() {
        structural.get_or_insert((0, "unclosed-if"));
    }
    Interp { recs, structural, final_syms: syms, flags: fl }
}

// ==========================================================================================
// Recogniser of the probe shapes (source lines the generators write)
// ==========================================================================================

#[derive(Clone, Debug, PartialEq)]
enum Shape {
    Comment,
    Module,
    /// a probe definition
    Probe(Probe),
    Unknown,
}

#[derive(Clone, Debug, PartialEq)]
struct Probe {
    row: usize,
    name: String,
    /// column (1-based, in characters) of the definition keyword
    kw_col: usize,
    /// column of the identifier
    id_col: usize,
    has_attr: bool,
    deprecated: bool,
    is_custom: bool,
    /// a character of more than one byte stands before the definition on its line
    non_ascii_before: bool,
    /// referenced type name and its column (struct field / alias target)
    ty: Option<(String, usize)>,
}

struct Scan<'a> {
    cs: &'a [char],
    i: usize,
}

impl Scan<'_> {
    fn ws(&mut self) -> usize {
        let s = self.i;
        while self.i < self.cs.len() && self.cs[self.i].is_whitespace() {
            self.i += 1;
        }
        self.i - s
    }
    fn lit(&mut self, s: &str) -> bool {
        let l: Vec<char> = s.chars().collect();
        if self.cs.len() >= self.i + l.len() && self.cs[self.i..self.i + l.len()] == l[..] {
            self.i += l.len();
            true
        } else {
            false
        }
    }
    fn ident(&mut self) -> Option<String> {
        let s = self.i;
        if self.i < self.cs.len() && (self.cs[self.i].is_ascii_alphabetic() || self.cs[self.i] == '_') {
            while self.i < self.cs.len() && is_word(self.cs[self.i]) {
                self.i += 1;
            }
            Some(self.cs[s..self.i].iter().collect())
        } else {
            None
        }
    }
    /// end of line, possibly after blanks and a `//` comment (but not a `///` doc comment)
    fn trailing(&mut self) -> bool {
        self.ws();
        if self.i >= self.cs.len() {
            return true;
        }
        self.lit("//") && self.cs.get(self.i) != Some(&'/')
    }
}

fn recognise(line: &str, row: usize) -> Shape {
    let cs: Vec<char> = line.chars().collect();
    let mut s = Scan { cs: &cs, i: 0 };
    s.ws();
    // one optional leading block comment (single line, no nested "/*")
    if s.lit("/*") {
        loop {
            if s.i >= cs.len() {
                return Shape::Unknown;
            }
            if s.lit("*/") {
                break;
            }
            if s.lit("/*") {
                return Shape::Unknown;
            }
            s.i += 1;
        }
        s.ws();
        if s.i >= cs.len() {
            return Shape::Comment;
        }
    }
    if s.lit("//") {
        // `///` would be a doc comment attached to the next definition: outside the domain
        return if cs.get(s.i) == Some(&'/') { Shape::Unknown } else { Shape::Comment };
    }
    let mut deprecated = false;
    if s.lit("[deprecated]") {
        deprecated = true;
        s.ws();
    }
    let kw_col = s.i + 1;
    let Some(kw) = s.ident() else { return Shape::Unknown };
    if s.ws() == 0 {
        return Shape::Unknown;
    }
    let id_col = s.i + 1;
    let Some(name) = s.ident() else { return Shape::Unknown };
    let mut probe = Probe {
        row,
        name,
        kw_col,
        id_col,
        has_attr: deprecated,
        deprecated,
        is_custom: false,
        non_ascii_before: cs[..kw_col - 1].iter().any(|c| !c.is_ascii()),
        ty: None,
    };
    match kw.as_str() {
        "module" if !deprecated => {
            if s.trailing() {
                Shape::Module
            } else {
                Shape::Unknown
            }
        }
        "custom" => {
            probe.is_custom = true;
            if s.trailing() {
                Shape::Probe(probe)
            } else {
                Shape::Unknown
            }
        }
        "struct" if !deprecated => {
            s.ws();
            if !s.lit("{") {
                return Shape::Unknown;
            }
            s.ws();
            if s.ident().is_none() {
                return Shape::Unknown;
            }
            s.ws();
            if !s.lit(":") {
                return Shape::Unknown;
            }
            s.ws();
            let col = s.i + 1;
            let Some(t) = s.ident() else { return Shape::Unknown };
            s.ws();
            if !s.lit("}") {
                return Shape::Unknown;
            }
            probe.ty = Some((t, col));
            if s.trailing() {
                Shape::Probe(probe)
            } else {
                Shape::Unknown
            }
        }
        "typealias" if !deprecated => {
            s.ws();
            if !s.lit("=") {
                return Shape::Unknown;
            }
            s.ws();
            let col = s.i + 1;
            let Some(t) = s.ident() else { return Shape::Unknown };
            probe.ty = Some((t, col));
            if s.trailing() {
                Shape::Probe(probe)
            } else {
                Shape::Unknown
            }
        }
        _ => Shape::Unknown,
    }
}

const PRIMITIVES: [&str; 17] = [
    "bool", "int8", "uint8", "int16", "uint16", "int32", "uint32", "varint32", "varuint32", "int64", "uint64",
    "varint62", "varuint62", "float32", "float64", "string", "AnyClass",
];

// ==========================================================================================
// Reference result for one file
// ==========================================================================================

struct RefFile {
    classes: Vec<LineClass>,
    feats: Vec<LineFeat>,
    interp: Interp,
    bad: Vec<(usize, BadKind)>,
    /// selected probes in order (only meaningful when well-formed and in the domain)
    probes: Vec<Probe>,
    /// why the text is outside the domain the probe recogniser understands (selection not judged)
    out_of_domain: Option<String>,
}

impl RefFile {
    fn malformed(&self) -> bool {
        !self.bad.is_empty() || self.interp.structural.is_some()
    }
    /// Short name of the first reason the file is malformed.
    fn malformed_kind(&self) -> String {
        if let Some((_, k)) = self.bad.first() {
            k.name().to_owned()
        } else if let Some((_, k)) = self.interp.structural {
            k.to_owned()
        } else {
            "none".to_owned()
        }
    }
}

fn reference(text: &str, start: &Syms) -> RefFile {
    let lines: Vec<&str> = text.split('\n').collect();
    let mut classes = Vec::with_capacity(lines.len());
    let mut feats = Vec::with_capacity(lines.len());
    let mut bad = Vec::new();
    for (i, l) in lines.iter().enumerate() {
        let (c, f) = classify(l);
        if let LineClass::Bad(k) = &c {
            bad.push((i + 1, *k));
        }
        classes.push(c);
        feats.push(f);
    }
    let interp = interpret(&classes, start);
    let mut probes = Vec::new();
    let mut out_of_domain = None;
    if bad.is_empty() && interp.structural.is_none() {
        let mut seen_module = false;
        for (i, l) in lines.iter().enumerate() {
            if !matches!(classes[i], LineClass::Source) || !interp.recs[i].selected {
                continue;
            }
            match recognise(l, i + 1) {
                Shape::Comment => {}
                Shape::Module => {
                    if seen_module || !probes.is_empty() {
                        out_of_domain.get_or_insert(format!("row {}: module line is not the first selected definition", i + 1));
                    }
                    seen_module = true;
                }
                Shape::Probe(p) => {
                    if !seen_module {
                        out_of_domain.get_or_insert(format!("row {}: probe before the module line", i + 1));
                    }
                    probes.push(p);
                }
                Shape::Unknown => {
                    out_of_domain.get_or_insert(format!("row {}: source line of unknown shape {:?}", i + 1, l));
                }
            }
        }
    }
    RefFile { classes, feats, interp, bad, probes, out_of_domain }
}

// ==========================================================================================
// Observation of the implementation (public API only)
// ==========================================================================================

#[derive(Debug, Clone)]
struct ObsDef {
    name: String,
    row: usize,
    col: usize,
    id_row: usize,
    id_col: usize,
}

#[derive(Debug, Clone)]
struct ObsDiag {
    code: String,
    is_error: bool,
    file: Option<usize>,
    row: usize,
    col: usize,
    end_row: usize,
    end_col: usize,
}

fn observe(files: &[String], symbols: &[String]) -> (Vec<Vec<ObsDef>>, Vec<ObsDiag>) {
    let options = SliceOptions { defined_symbols: symbols.to_vec(), ..Default::default() };
    let refs: Vec<&str> = files.iter().map(|s| s.as_str()).collect();
    let state = slicec::compile_from_strings(&refs, Some(&options));
    let mut defs = Vec::new();
    for f in &state.files {
        let mut v = Vec::new();
        for d in &f.contents {
            let e = d.borrow();
            let sp = e.span();
            let isp = &e.raw_identifier().span;
            v.push(ObsDef {
                name: e.identifier().to_owned(),
                row: sp.start.row,
                col: sp.start.col,
                id_row: isp.start.row,
                id_col: isp.start.col,
            });
        }
        defs.push(v);
    }
    let mut diags = Vec::new();
    for d in state.into_diagnostics(&options) {
        let (file, row, col, end_row, end_col) = match d.span() {
            Some(s) => (
                s.file.strip_prefix("string-").and_then(|n| n.parse::<usize>().ok()),
                s.start.row,
                s.start.col,
                s.end.row,
                s.end.col,
            ),
            None => (None, 0, 0, 0, 0),
        };
        diags.push(ObsDiag {
            code: d.code().to_owned(),
            is_error: d.level() == DiagnosticLevel::Error,
            file,
            row,
            col,
            end_row,
            end_col,
        });
    }
    (defs, diags)
}

// ==========================================================================================
// The oracle
// ==========================================================================================

#[derive(Clone, Debug)]
pub struct Case {
    pub symbols: Vec<String>,
    pub files: Vec<String>,
}

impl Case {
    /// The "direct" family's input format (see `direct_case`).
    fn to_direct(&self) -> String {
        let mut s = self.symbols.join(" ");
        s.push('\n');
        s.push_str(&self.files.join("\u{1e}"));
        s
    }
}

/// A diagnostic the reference expects: (file, is_error, row, col).
type ExpDiag = (usize, bool, usize, usize);

thread_local! {
    /// Families that already produced a sample in this worker (one sample per family and shard,
    /// so that the evidence file shows a mix of families).
    static SAMPLED: std::cell::RefCell<BTreeSet<&'static str>> = const { std::cell::RefCell::new(BTreeSet::new()) };
}

fn judge(cx: &mut CaseCtx, family: &'static str, case: &Case, generated: bool) -> CaseResult {
    let start: Syms = case.symbols.iter().cloned().collect();
    let refs: Vec<RefFile> = case.files.iter().map(|t| reference(t, &start)).collect();
    let result = judge_refs(cx, case, &refs, generated);
    // Written-out sample: always for a failing case (it becomes the violation's rendering),
    // otherwise the first non-trivial case of each family in this worker.
    // (families alternate between even and odd shards: each shard keeps at most three samples)
    let ordinal = ["lines", "expr", "files", "multifile", "leak"].iter().position(|f| *f == family).unwrap_or(0);
    let first_of_family = cx.nontrivial
        && cx.want_sample
        && (cx.shard + ordinal) % 2 == 0
        && SAMPLED.with(|s| !s.borrow().contains(family));
    if result.is_err() || first_of_family {
        if result.is_ok() {
            SAMPLED.with(|s| s.borrow_mut().insert(family));
        }
        cx.sample_with(|| {
            json!({
                "symbols": case.symbols,
                "files": case.files,
                "reference": refs.iter().map(|r| if r.malformed() {
                    json!({"malformed": r.malformed_kind(), "malformed_rows": r.bad.iter().map(|b| b.0).collect::<Vec<_>>()})
                } else {
                    json!({"selected_probes": r.probes.iter().map(|p| format!("{}@{}:{}", p.name, p.row, p.kw_col)).collect::<Vec<_>>()})
                }).collect::<Vec<_>>(),
                "direct_hex": to_hex(case.to_direct().as_bytes()),
            })
        });
    }
    result
}

fn judge_refs(cx: &mut CaseCtx, case: &Case, refs: &[RefFile], generated: bool) -> CaseResult {
    let start: Syms = case.symbols.iter().cloned().collect();

    // ---- labels, non-triviality ---------------------------------------------------------
    let mut nontrivial = false;
    let any_malformed = refs.iter().any(|r| r.malformed());
    for (fi, r) in refs.iter().enumerate() {
        let fl = &r.interp.flags;
        if r.malformed() {
            cx.label("malformed");
            cx.label_if(r.bad.iter().any(|b| b.1.lexical()), "malformed-lexical");
            cx.label_if(r.bad.iter().any(|b| !b.1.lexical()), "malformed-grammatical");
            cx.label_if(r.bad.is_empty(), "malformed-structural-only");
            cx.label_if(r.bad.len() > 1, "malformed-several-lines");
        } else {
            cx.label("wellformed");
            let nt = fl.conditionals >= 1 && fl.source_outside && (fl.source_selected_inside || fl.source_skipped_inside);
            cx.label_if(nt, "wellformed-nontrivial");
            nontrivial |= nt;
            cx.label_if(fl.source_selected_inside, "source-selected-inside");
            cx.label_if(fl.source_skipped_inside, "source-skipped-inside");
            cx.label_if(fl.selected_after_removed, "selected-after-removed-line");
            cx.label_if(fl.elif_after_taken, "elif-after-taken");
            cx.label_if(fl.elif_true_after_taken, "elif-true-after-taken");
            cx.label_if(fl.define_in_skipped, "define-in-skipped");
            cx.label_if(fl.undef_in_skipped, "undef-in-skipped");
            cx.label_if(fl.skipped_change_then_tested, "skipped-define-or-undef-then-tested");
            cx.label_if(fl.define_in_selected_block, "define-in-selected-block");
            cx.label_if(fl.undef_then_retest, "undef-then-retest");
            cx.label_if(fl.define_then_test, "define-then-test");
            cx.label_if(fl.max_depth >= 2, "nested>=2");
            cx.label_if(fl.max_depth >= 4, "nested>=4");
            cx.label_if(fl.precedence_sensitive, "expr-precedence-sensitive");
            cx.label_if(fl.assoc_sensitive, "expr-assoc-sensitive");
            cx.label_if(fl.max_expr_depth >= 2, "expr-depth>=2");
            cx.label_if(fl.max_expr_depth >= 3, "expr-depth>=3");
            let dirs = || r.classes.iter().zip(&r.feats).filter(|(c, _)| matches!(c, LineClass::Dir(_)));
            cx.label_if(dirs().any(|(_, f)| f.not), "expr-not");
            cx.label_if(dirs().any(|(_, f)| f.parens), "expr-parens");
            cx.label_if(dirs().any(|(_, f)| f.indent_hash), "indent-before-hash");
            cx.label_if(dirs().any(|(_, f)| f.blank_after_hash), "blank-after-hash");
            cx.label_if(dirs().any(|(_, f)| f.comment), "directive-trailing-comment");
            cx.label_if(dirs().any(|(_, f)| f.cr), "crlf");
            // a directive above the module line
            let first_source = r.classes.iter().position(|c| matches!(c, LineClass::Source));
            let first_dir = r.classes.iter().position(|c| matches!(c, LineClass::Dir(_)));
            cx.label_if(
                matches!((first_source, first_dir), (Some(s), Some(d)) if d < s),
                "directive-before-module",
            );
            cx.label_if(!case.files[fi].ends_with('\n'), "eof-without-newline");
            cx.label_if(r.probes.iter().any(|p| p.kw_col > 1), "probe-indented");
            cx.label_if(r.probes.iter().any(|p| p.non_ascii_before), "probe-after-multibyte-characters");
        }
    }
    // Would a symbol table shared between the files (in the order given) change a selection?
    if refs.len() > 1 && !any_malformed {
        cx.label("multi-file");
        let mut shared = start.clone();
        let mut observable = false;
        let mut tested_elsewhere = false;
        for (fi, r) in refs.iter().enumerate() {
            if fi > 0 && shared != start {
                let alt = interpret(&r.classes, &shared);
                if alt.recs.iter().zip(&r.interp.recs).any(|(a, b)| a.selected != b.selected) {
                    observable = true;
                }
            }
            shared = interpret(&r.classes, &shared).final_syms;
            // some file changes a symbol that another file tests (either direction)
            let changed: Vec<&String> = r.interp.final_syms.symmetric_difference(&start).collect();
            for (fj, other) in refs.iter().enumerate() {
                if fj == fi {
                    continue;
                }
                let mut used = BTreeSet::new();
                for c in &other.classes {
                    if let LineClass::Dir(Dir::If(e)) | LineClass::Dir(Dir::Elif(e)) = c {
                        e.symbols(&mut used);
                    }
                }
                if changed.iter().any(|s| used.contains(*s)) {
                    tested_elsewhere = true;
                }
            }
        }
        cx.label_if(observable, "cross-file-leak-observable");
        cx.label_if(tested_elsewhere, "cross-file-symbol-tested-in-other-file");
    }
    cx.nontrivial = nontrivial;
    cx.set_key(&(&case.symbols, &case.files));

    // ---- expected diagnostics (unresolved types, deprecated uses) -------------------------
    let mut out_of_domain: Option<String> = refs.iter().find_map(|r| r.out_of_domain.clone());
    let mut by_name: BTreeMap<&str, &Probe> = BTreeMap::new();
    for r in refs.iter().filter(|r| !r.malformed()) {
        for p in &r.probes {
            if by_name.insert(p.name.as_str(), p).is_some() {
                out_of_domain.get_or_insert(format!("probe name {} is defined twice", p.name));
            }
        }
    }
    let mut expected: Vec<ExpDiag> = Vec::new();
    for (fi, r) in refs.iter().enumerate().filter(|(_, r)| !r.malformed()) {
        for p in &r.probes {
            let Some((t, col)) = &p.ty else { continue };
            if PRIMITIVES.contains(&t.as_str()) {
                continue;
            }
            match by_name.get(t.as_str()) {
                None => expected.push((fi, true, p.row, *col)),
                Some(target) if !target.is_custom => {
                    out_of_domain.get_or_insert(format!("row {}: reference to a non-custom probe {}", p.row, t));
                }
                Some(target) if target.deprecated => expected.push((fi, false, p.row, *col)),
                Some(_) => {}
            }
        }
    }
    cx.label_if(expected.iter().any(|e| e.1), "diag-unresolved-on-selected-line");
    cx.label_if(expected.iter().any(|e| !e.1), "diag-deprecated-use-on-selected-line");
    if let Some(why) = &out_of_domain {
        if generated {
            fail!("harness/out-of-domain", "a generated case is outside the recogniser's domain: {why}\n{}", show(case));
        }
        cx.label("out-of-domain");
    }

    // ---- run the implementation ----------------------------------------------------------
    let (defs, diags) = observe(&case.files, &case.symbols);
    check!(
        defs.len() == case.files.len(),
        "harness/file-count",
        "{} files in, {} out",
        case.files.len(),
        defs.len()
    );

    for (fi, r) in refs.iter().enumerate() {
        let e002: Vec<&ObsDiag> = diags.iter().filter(|d| d.code == "E002" && d.file == Some(fi)).collect();
        if r.malformed() {
            let kind = r.malformed_kind();
            check!(
                !e002.is_empty(),
                format!("malformed/no-E002/{kind}"),
                "file {fi} is malformed ({kind}; malformed rows {:?}, structural {:?}) but no E002 was reported for it\nall diagnostics: {diags:?}\n{}",
                r.bad,
                r.interp.structural,
                show(case)
            );
            if !r.bad.is_empty() {
                check!(
                    e002.iter().any(|d| r.bad.iter().any(|b| b.0 == d.row)),
                    format!("malformed/E002-off-row/{kind}"),
                    "file {fi}: malformed directive line(s) on rows {:?}, but the E002s sit on rows {:?}\n{}",
                    r.bad,
                    e002.iter().map(|d| d.row).collect::<Vec<_>>(),
                    show(case)
                );
            }
            continue;
        }
        // well-formed
        if let Some(d) = e002.first() {
            let on = r.classes.get(d.row.wrapping_sub(1)).map(|c| c.tag()).unwrap_or("beyond-end");
            fail!(
                format!("wellformed/E002/on-{on}"),
                "file {fi} is well-formed for the reference interpreter but E002 was reported at {}:{}\n{}",
                d.row,
                d.col,
                show(case)
            );
        }
        if out_of_domain.is_some() {
            continue;
        }
        // selection: exactly the probes on selected lines, in order
        let got: Vec<&str> = defs[fi].iter().map(|d| d.name.as_str()).collect();
        let want: Vec<&str> = r.probes.iter().map(|p| p.name.as_str()).collect();
        if got != want {
            // Syntax errors without a position (e.g. a missing module) are not the preprocessor's.
            let other_errors: Vec<&ObsDiag> = diags.iter().filter(|d| d.code == "E002" && d.file.is_none()).collect();
            let all_rows: BTreeMap<String, usize> = {
                // every probe-shaped source line of the file, selected or not -> its row
                let mut m = BTreeMap::new();
                for (i, l) in case.files[fi].split('\n').enumerate() {
                    if matches!(r.classes[i], LineClass::Source) {
                        if let Shape::Probe(p) = recognise(l, i + 1) {
                            m.insert(p.name, i + 1);
                        }
                    }
                }
                m
            };
            let region_of = |name: &str| -> String {
                match all_rows.get(name) {
                    Some(row) => {
                        let rec = r.interp.recs[*row - 1];
                        format!("{}{}", if rec.depth >= 2 { "nested-" } else { "" }, rec.region.name())
                    }
                    None => "unknown-name".to_owned(),
                }
            };
            let class = if let Some(x) = got.iter().find(|g| !want.contains(g)) {
                format!("selection/extra/{}", region_of(x))
            } else if let Some(x) = want.iter().find(|w| !got.contains(w)) {
                format!("selection/missing/{}", region_of(x))
            } else {
                "selection/order".to_owned()
            };
            fail!(
                class,
                "file {fi}: definitions that reached the parser differ from the probes on selected lines\n expected {want:?}\n observed {got:?}\n position-less syntax errors: {}\n{}",
                other_errors.len(),
                show(case)
            );
        }
        // location: nothing shifts
        for (d, p) in defs[fi].iter().zip(&r.probes) {
            check!(
                d.id_row == p.row,
                "location/identifier-row",
                "file {fi}: identifier of {} written on row {} is reported on row {}\n{}",
                p.name,
                p.row,
                d.id_row,
                show(case)
            );
            check!(
                d.id_col == p.id_col,
                "location/identifier-col",
                "file {fi}: identifier of {} written at column {} (row {}) is reported at column {}\n{}",
                p.name,
                p.id_col,
                p.row,
                d.id_col,
                show(case)
            );
            if !p.has_attr {
                check!(
                    d.row == p.row,
                    "location/definition-row",
                    "file {fi}: {} written on row {} is reported on row {}\n{}",
                    p.name,
                    p.row,
                    d.row,
                    show(case)
                );
                check!(
                    d.col == p.kw_col,
                    "location/definition-col",
                    "file {fi}: {} written at column {} (row {}) is reported at column {}\n{}",
                    p.name,
                    p.kw_col,
                    p.row,
                    d.col,
                    show(case)
                );
            }
        }
    }

    // ---- other diagnostics keep their row and column --------------------------------------
    for d in diags.iter().filter(|d| d.code != "E002") {
        let Some(fi) = d.file else {
            if generated && out_of_domain.is_none() {
                fail!("diag/unexpected-without-span", "unexpected diagnostic {d:?}\n{}", show(case));
            }
            continue;
        };
        let Some(r) = refs.get(fi) else {
            fail!("diag/unknown-file", "diagnostic {d:?} names a file that was not given\n{}", show(case));
        };
        if r.malformed() {
            fail!(
                "diag/in-malformed-file",
                "diagnostic {d:?} comes from a file whose preprocessing failed\n{}",
                show(case)
            );
        }
        // generic: the position is on a selected source line and covers a whole word
        let rec_ok = d.row >= 1
            && d.row <= r.classes.len()
            && matches!(r.classes[d.row - 1], LineClass::Source)
            && r.interp.recs[d.row - 1].selected;
        check!(
            rec_ok,
            "diag/row-not-a-selected-source-line",
            "diagnostic {d:?} points at row {} which is not a selected source line\n{}",
            d.row,
            show(case)
        );
        if out_of_domain.is_some() {
            continue;
        }
        if expected.contains(&(fi, d.is_error, d.row, d.col)) {
            continue;
        }
        let class = if expected.iter().any(|e| e.0 == fi && e.1 == d.is_error && e.2 == d.row) {
            "diag/col"
        } else if expected.iter().any(|e| e.0 == fi && e.1 == d.is_error && e.3 == d.col) {
            "diag/row"
        } else {
            "diag/unexpected"
        };
        fail!(
            class,
            "diagnostic {d:?} is not at a position where the reference expects one (expected (file, is_error, row, col): {expected:?})\n{}",
            show(case)
        );
    }
    if out_of_domain.is_none() && !any_malformed {
        let errors_expected = expected.iter().any(|e| e.1);
        for e in &expected {
            if !e.1 && errors_expected {
                continue; // lints are only required when the compilation has no error
            }
            check!(
                diags.iter().any(|d| d.file == Some(e.0) && d.is_error == e.1 && d.row == e.2 && d.col == e.3),
                if e.1 { "diag/missing-error" } else { "diag/missing-lint" },
                "expected a diagnostic (is_error={}) in file {} at {}:{}; observed {diags:?}\n{}",
                e.1,
                e.0,
                e.2,
                e.3,
                show(case)
            );
        }
    }
    Ok(())
}

fn show(case: &Case) -> String {
    let mut s = format!("-D {:?}\n", case.symbols);
    for (i, f) in case.files.iter().enumerate() {
        s.push_str(&format!("--- file {i} ---\n"));
        for (n, l) in f.split('\n').enumerate() {
            s.push_str(&format!("{:3} | {}\n", n + 1, l.escape_debug()));
        }
    }
    s
}

// ==========================================================================================
// Family 1: bounded-exhaustive line sequences
// ==========================================================================================

/// Form 0 is the probe source line; 1..=13 are well-formed directives; 14..=20 malformed ones
/// (14, 15 lexically, 16..=20 grammatically).
const FORMS: [&str; 21] = [
    "",
    "#if A",
    "#if !A",
    "#if A && B",
    "#if !(A || C) && B",
    "  # if (A) // c",
    "#elif B",
    "#elif C || A && B",
    "#else",
    "#endif",
    "#endif // done",
    "#define A",
    "#undef A",
    "#define B",
    "#",
    "#bogus",
    "#if",
    "#if A &&",
    "#else x",
    "#define",
    "#if A && !B",
];
const NFORMS: u64 = FORMS.len() as u64;
const INDENTS: [&str; 4] = ["", "  ", " ", "    "];

fn seq_total(max_len: u32) -> u64 {
    (0..=max_len).map(|l| NFORMS.pow(l)).sum()
}

/// Sequences ordered by length, then lexicographically.
fn nth_seq(mut idx: u64, max_len: u32) -> Vec<usize> {
    let mut len = 0u32;
    let mut count = 1u64;
    while idx >= count {
        idx -= count;
        len += 1;
        count *= NFORMS;
        assert!(len <= max_len);
    }
    fixed_len_seq(idx, len)
}

fn fixed_len_seq(mut idx: u64, len: u32) -> Vec<usize> {
    let mut s = vec![0usize; len as usize];
    for pos in (0..len as usize).rev() {
        s[pos] = (idx % NFORMS) as usize;
        idx /= NFORMS;
    }
    s
}

fn subset_abc(bits: u64) -> Vec<String> {
    ["A", "B", "C"]
        .iter()
        .enumerate()
        .filter(|(i, _)| bits >> i & 1 == 1)
        .map(|(_, s)| s.to_string())
        .collect()
}

/// index = ((sequence * 8) + subset of {A,B,C}) * 2 + (file ends with a newline)
fn lines_case_of(seq: &[usize], low: u64) -> Case {
    let newline_at_end = low & 1 == 1;
    let symbols = subset_abc(low >> 1 & 7);
    let mut text = String::from("module M");
    for (k, f) in seq.iter().enumerate() {
        let row = k + 2;
        text.push('\n');
        if *f == 0 {
            text.push_str(INDENTS[row % 4]);
            text.push_str(&format!("custom P{row}"));
        } else {
            text.push_str(FORMS[*f]);
        }
    }
    if newline_at_end {
        text.push('\n');
    }
    Case { symbols, files: vec![text] }
}

fn lines_case(cx: &mut CaseCtx, input: Input, max_len: u32, exact_len: Option<u32>) -> CaseResult {
    let idx = input.index();
    let seq = match exact_len {
        Some(l) => fixed_len_seq(idx / 16, l),
        None => nth_seq(idx / 16, max_len),
    };
    let case = lines_case_of(&seq, idx % 16);
    judge(cx, "lines", &case, true)
}

// ==========================================================================================
// Family 2: bounded-exhaustive expression token strings
// ==========================================================================================

/// (the single `&` and `|` make the malformed operators `&`, `|`, `&|`, `|&`, `&&&` ... reachable)
const ETOKS: [&str; 10] = ["A", "B", "C", "!", "&&", "||", "(", ")", "&", "|"];
const NETOK: u64 = ETOKS.len() as u64;

fn expr_total(max_len: u32) -> u64 {
    (0..=max_len).map(|l| NETOK.pow(l)).sum()
}

fn nth_expr(mut idx: u64, max_len: u32) -> Vec<usize> {
    let mut len = 0u32;
    let mut count = 1u64;
    while idx >= count {
        idx -= count;
        len += 1;
        count *= NETOK;
        assert!(len <= max_len);
    }
    let mut s = vec![0usize; len as usize];
    for pos in (0..len as usize).rev() {
        s[pos] = (idx % NETOK) as usize;
        idx /= NETOK;
    }
    s
}

/// index = token string * 8 + valuation.  The string's spelling (blanks between tokens) is
/// derived from the string index: one blank / none where legal / two blanks and a tab.
fn expr_case(cx: &mut CaseCtx, input: Input, max_len: u32, exact_len: Option<u32>) -> CaseResult {
    let idx = input.index();
    let sidx = idx / 8;
    let toks = match exact_len {
        Some(l) => {
            let mut s = vec![0usize; l as usize];
            let mut i = sidx;
            for pos in (0..l as usize).rev() {
                s[pos] = (i % NETOK) as usize;
                i /= NETOK;
            }
            s
        }
        None => nth_expr(sidx, max_len),
    };
    let style = sidx % 3;
    let mut e = String::new();
    for (k, t) in toks.iter().enumerate() {
        if k > 0 {
            let both_words = *t < 3 && toks[k - 1] < 3;
            match style {
                0 => e.push(' '),
                1 => {
                    if both_words {
                        e.push(' ')
                    }
                }
                _ => e.push_str(" \t"),
            }
        }
        e.push_str(ETOKS[*t]);
    }
    let sep = if style == 1 && toks.first().map(|t| *t >= 3).unwrap_or(true) { "" } else { " " };
    let text = format!("module M\n#if{sep}{e}\ncustom P3\n#else\n  custom P5\n#endif\ncustom P7\n");
    let case = Case { symbols: subset_abc(idx % 8), files: vec![text] };
    // labels specific to this family
    let (class, _) = classify(&format!("#if{sep}{e}"));
    match &class {
        LineClass::Dir(Dir::If(ex)) => {
            cx.label("expr-valid");
            let syms: Syms = case.symbols.iter().cloned().collect();
            cx.label(if ex.eval(&syms, Mode::Documented) { "expr-true" } else { "expr-false" });
        }
        _ => cx.label("expr-invalid"),
    }
    judge(cx, "expr", &case, true)
}

// ==========================================================================================
// Family 2b: bounded-exhaustive two-file sets (symbols must not leak between files)
// ==========================================================================================

/// One file only changes symbols (<= 2 lines), the other tests them (<= 4 lines); both orders.
const CHANGER: [&str; 5] = ["", "#define A", "#undef A", "#define B", "#undef B"];
const TESTER: [&str; 8] = ["", "#if A", "#if !A", "#if B", "#else", "#endif", "#define A", "#undef A"];

fn small_seq_total(base: u64, max_len: u32) -> u64 {
    (0..=max_len).map(|l| base.pow(l)).sum()
}

fn small_nth_seq(mut idx: u64, base: u64) -> Vec<usize> {
    let mut len = 0u32;
    let mut count = 1u64;
    while idx >= count {
        idx -= count;
        len += 1;
        count *= base;
    }
    let mut s = vec![0usize; len as usize];
    for pos in (0..len as usize).rev() {
        s[pos] = (idx % base) as usize;
        idx /= base;
    }
    s
}

fn small_file(forms: &[&str], seq: &[usize], prefix: char) -> String {
    let mut text = String::from("module M");
    for (k, f) in seq.iter().enumerate() {
        let row = k + 2;
        text.push('\n');
        if *f == 0 {
            text.push_str(INDENTS[(row + 1) % 4]);
            text.push_str(&format!("custom {prefix}{row}"));
        } else {
            text.push_str(forms[*f]);
        }
    }
    text.push('\n');
    text
}

const LEAK_CHANGER_LEN: u32 = 2;
const LEAK_TESTER_LEN: u32 = 4;

fn leak_total() -> u64 {
    small_seq_total(5, LEAK_CHANGER_LEN) * small_seq_total(8, LEAK_TESTER_LEN) * 16
}

/// index = ((tester sequence * 31 + changer sequence) * 8 + subset of {A,B,C}) * 2 + order
fn leak_case(cx: &mut CaseCtx, input: Input) -> CaseResult {
    let idx = input.index();
    let changer_first = idx & 1 == 0;
    let symbols = subset_abc(idx >> 1 & 7);
    let nchangers = small_seq_total(5, LEAK_CHANGER_LEN);
    let changer = small_file(&CHANGER, &small_nth_seq((idx >> 4) % nchangers, 5), 'P');
    let tester = small_file(&TESTER, &small_nth_seq((idx >> 4) / nchangers, 8), 'Q');
    let files = if changer_first { vec![changer, tester] } else { vec![tester, changer] };
    cx.label(if changer_first { "leak-changer-first" } else { "leak-tester-first" });
    judge(cx, "leak", &Case { symbols, files }, true)
}

// ==========================================================================================
// Families 3 and 4: constructive random files (single and multi-file)
// ==========================================================================================

const POOL: [&str; 5] = ["A", "B", "C", "FOO_1", "x2"];

struct FileGen<'a, 'b> {
    u: &'a mut Unstructured<'b>,
    lines: Vec<String>,
    prefix: char,
    /// names of the custom probes written so far (this file and earlier files of the set)
    customs: Vec<String>,
    max_lines: usize,
    /// more #define / #undef at top level (multi-file sets)
    many_defines: bool,
}

fn pick(u: &mut Unstructured, n: usize) -> usize {
    (u.arbitrary::<u8>().unwrap_or(0) as usize * n) >> 8
}

impl FileGen<'_, '_> {
    fn pick(&mut self, n: usize) -> usize {
        pick(self.u, n)
    }
    fn choose<'s>(&mut self, options: &[&'s str]) -> &'s str {
        options[self.pick(options.len())]
    }
    fn symbol(&mut self) -> &'static str {
        POOL[self.pick(POOL.len())]
    }
    fn blanks0(&mut self) -> &'static str {
        self.choose(&["", " ", "  ", "\t"])
    }
    fn blanks1(&mut self) -> &'static str {
        self.choose(&[" ", "  ", "\t", " \t "])
    }
    fn trail(&mut self) -> &'static str {
        self.choose(&["", "", " ", " // c", "// #endif", "  //", " // x && !y (", "\t// #else"])
    }

    /// An expression of the documented grammar, spelled with random blanks.
    fn expr(&mut self, depth: usize, out: &mut String) {
        if self.pick(4) == 3 {
            out.push('!');
            out.push_str(self.blanks0());
        }
        self.term(depth, out);
        let nops = self.pick(4);
        for _ in 0..nops {
            out.push_str(self.blanks0());
            out.push_str(if self.pick(2) == 0 { "&&" } else { "||" });
            out.push_str(self.blanks0());
            self.term(depth, out);
        }
    }
    fn term(&mut self, depth: usize, out: &mut String) {
        if depth > 0 && self.pick(3) == 2 {
            out.push('(');
            out.push_str(self.blanks0());
            self.expr(depth - 1, out);
            out.push_str(self.blanks0());
            out.push(')');
        } else {
            out.push_str(self.symbol());
        }
    }

    fn directive(&mut self, keyword: &str, arg: Option<&str>) {
        let ind = self.choose(&["", "", " ", "  ", "\t", "    ", " \t "]);
        let after = self.choose(&["", "", " ", "  ", "\t"]);
        let mut l = format!("{ind}#{after}{keyword}");
        if let Some(a) = arg {
            let first = a.chars().next().unwrap_or('A');
            if first == '(' || first == '!' {
                l.push_str(self.blanks0());
            } else {
                l.push_str(self.blanks1());
            }
            l.push_str(a);
        }
        l.push_str(self.trail());
        self.lines.push(l);
    }

    fn room(&self) -> bool {
        self.lines.len() < self.max_lines
    }

    fn source_indent(&mut self) -> &'static str {
        self.choose(&["", "  ", " ", "\t", "      ", "/*\u{e9}\u{4e2d}*/ ", " /* # */\t"])
    }

    fn probe(&mut self, special: bool) {
        let row = self.lines.len() + 1;
        let name = format!("{}{}", self.prefix, row);
        let ind = self.source_indent();
        let tail = self.choose(&["", "", " ", " // #endif", "// c", "  // #if A"]);
        let kind = if special { 1 + self.pick(4) } else { 0 };
        let body = match kind {
            1 => {
                let sp = self.blanks0();
                format!("struct {name}{sp}{{{sp}f:{sp}Nope{row}{sp}}}")
            }
            2 => {
                self.customs.push(name.clone());
                let sp = self.blanks1();
                format!("[deprecated]{sp}custom {name}")
            }
            3 | 4 if !self.customs.is_empty() => {
                let n = self.customs.len();
                // prefer recent definitions (monotone: 0 = the latest)
                let back = self.pick(n.min(6));
                let target = self.customs[n - 1 - back].clone();
                if kind == 3 {
                    let sp = self.blanks1();
                    format!("struct {name} {{ f:{sp}{target} }}")
                } else {
                    let sp = self.blanks1();
                    format!("typealias {name}{sp}={sp}{target}")
                }
            }
            _ => {
                self.customs.push(name.clone());
                let sp = self.blanks1();
                format!("custom{sp}{name}")
            }
        };
        self.lines.push(format!("{ind}{body}{tail}"));
    }

    fn items(&mut self, depth: usize, max_items: usize, no_probes: bool) {
        let n = self.pick(max_items + 1);
        for _ in 0..n {
            if !self.room() {
                return;
            }
            let kind = self.pick(if self.many_defines { 14 } else { 11 });
            match kind {
                0 | 1 if !no_probes => self.probe(false),
                2 | 9 if depth < 5 => self.conditional(depth, no_probes),
                3 | 11 | 13 => {
                    let s = self.symbol();
                    self.directive("define", Some(s));
                }
                4 | 12 => {
                    let s = self.symbol();
                    self.directive("undef", Some(s));
                }
                5 => {
                    let b = self.choose(&["", "  ", "\t"]);
                    self.lines.push(b.to_owned());
                }
                6 => {
                    let c = self.choose(&["// comment", "  // #if A", "\t// #endif", "/* # */", "// #define B"]);
                    self.lines.push(c.to_owned());
                }
                7 | 8 if !no_probes => self.probe(true),
                10 if !no_probes => self.probe(false),
                _ => {
                    if no_probes {
                        let s = self.symbol();
                        self.directive("define", Some(s));
                    } else {
                        self.probe(false)
                    }
                }
            }
        }
    }

    fn conditional(&mut self, depth: usize, no_probes: bool) {
        let mut e = String::new();
        let d = self.pick(4);
        self.expr(d, &mut e);
        self.directive("if", Some(&e));
        self.items(depth + 1, 3, no_probes);
        let nelif = self.pick(4);
        for _ in 0..nelif {
            let mut e = String::new();
            let d = self.pick(3);
            self.expr(d, &mut e);
            self.directive("elif", Some(&e));
            self.items(depth + 1, 3, no_probes);
        }
        if self.pick(2) == 1 {
            self.directive("else", None);
            self.items(depth + 1, 3, no_probes);
        }
        self.directive("endif", None);
    }

    fn file(&mut self) -> String {
        // directives (never probes) above the module line
        if self.pick(4) == 3 {
            self.items(0, 3, true);
        }
        let m = self.choose_module();
        self.lines.push(m);
        self.items(0, 7, false);
        // line endings
        let mode = self.pick(4); // 0,1 = LF, 2 = CRLF, 3 = mixed
        let mut text = String::new();
        let n = self.lines.len();
        let final_newline = self.pick(2) == 1;
        let lines = std::mem::take(&mut self.lines);
        for (i, l) in lines.iter().enumerate() {
            text.push_str(l);
            if i + 1 < n || final_newline {
                let crlf = match mode {
                    2 => true,
                    3 => self.pick(2) == 1,
                    _ => false,
                };
                text.push_str(if crlf { "\r\n" } else { "\n" });
            }
        }
        text
    }

    fn choose_module(&mut self) -> String {
        self.choose(&["module M", "module M", "  module M", "module M // #if A", "\tmodule M"]).to_owned()
    }
}

fn gen_symbols(u: &mut Unstructured) -> Vec<String> {
    let bits = pick(u, 32);
    let mut v: Vec<String> = POOL
        .iter()
        .enumerate()
        .filter(|(i, _)| bits >> i & 1 == 1)
        .map(|(_, s)| s.to_string())
        .collect();
    // occasionally the same symbol is given twice
    if bits % 7 == 3 && !v.is_empty() {
        v.push(v[0].clone());
    }
    v
}

fn random_files_case(cx: &mut CaseCtx, input: Input, multi: bool) -> CaseResult {
    let mut u = Unstructured::new(input.bytes());
    let symbols = gen_symbols(&mut u);
    let nfiles = if multi { 2 + pick(&mut u, 2) } else { 1 };
    let mut customs: Vec<String> = Vec::new();
    let mut files = Vec::new();
    for k in 0..nfiles {
        let mut g = FileGen {
            u: &mut u,
            lines: Vec::new(),
            prefix: ['P', 'Q', 'R'][k],
            customs: std::mem::take(&mut customs),
            max_lines: if multi { 30 } else { 60 },
            many_defines: multi,
        };
        files.push(g.file());
        customs = std::mem::take(&mut g.customs);
    }
    judge(cx, if multi { "multifile" } else { "files" }, &Case { symbols, files }, true)
}

// ==========================================================================================
// Direct (replay only)
// ==========================================================================================

/// Input bytes = UTF-8 text.  First line: the `-D` symbols separated by blanks (may be empty).
/// Everything after the first '\n': the texts of the files, separated by U+001E (RECORD
/// SEPARATOR).  Line endings inside the files are kept as written.  Source lines should have the
/// probe shapes described at the top of this file (otherwise only the syntax-error half and
/// "no crash" are judged).
fn direct_case(cx: &mut CaseCtx, input: Input) -> CaseResult {
    let text = String::from_utf8_lossy(input.bytes()).into_owned();
    let (head, rest) = text.split_once('\n').unwrap_or((text.as_str(), ""));
    let symbols: Vec<String> = head.split_whitespace().map(|s| s.to_owned()).collect();
    let files: Vec<String> = rest.split('\u{1e}').map(|s| s.to_owned()).collect();
    judge(cx, "direct", &Case { symbols, files }, false)
}

// ==========================================================================================

impl Check for C06 {
    fn id(&self) -> &'static str {
        "C06"
    }
    fn rule(&self) -> String {
        "families: lines = every sequence of <= N lines (4 quick, 5 thorough; lengths N+1 and N+2 sampled with a stride) over 21 line forms (probe, 13 well-formed directives, 7 malformed ones) below `module M`, x 8 subsets of {A,B,C} as -D x {file ends with newline or not}; expr = every token string of length <= N (5 quick, 6 thorough; N+1 strided) over {A,B,C,!,&&,||,(,),&,|} as the condition of an #if/#else pair x 8 valuations; files = proptest choice sequences -> one constructively balanced file (nesting <= 5, elif chains, define/undef anywhere, blanks before/after '#', trailing comments, CRLF/mixed endings, directives above the module line, probes with an unresolved field type or a use of a deprecated probe); multifile = the same for 2-3 files compiled together under one -D set; leak = every pair (a file of <= 2 lines over {probe, #define/#undef A/B}, a file of <= 4 lines over {probe, #if A, #if !A, #if B, #else, #endif, #define A, #undef A}) in both orders x 8 subsets. All judged by one line-oriented reference interpreter working from the text. Non-trivial = some file of the case is well-formed and has >= 1 conditional with a source line inside it and a source line outside it (malformed / unbalanced files exercise the E002 half and are counted by the 'malformed*' classes only); distinct by (symbols, file texts) for random families, by index for enumerations".into()
    }
    fn assumptions(&self) -> Vec<String> {
        vec![
            "no '#' at the start of a line inside a block comment (the preprocessor is line oriented by design)".into(),
            "with several malformed directive lines in one file at least one of them must carry an E002 (the parser may stop at the first lexical error); purely structural imbalance only requires an E002 somewhere in the file".into(),
            "blank = any Unicode white space other than the line feed; generators only write space, tab and CR".into(),
            "a directive keyword is the maximal run of [A-Za-z0-9_] after '#': `#ifA` is an unknown directive (not generated)".into(),
        ]
    }
    fn essential(&self, _tier: Tier) -> Vec<&'static str> {
        vec![
            "wellformed",
            "wellformed-nontrivial",
            "malformed",
            "malformed-lexical",
            "malformed-grammatical",
            "malformed-structural-only",
            "source-selected-inside",
            "source-skipped-inside",
            "selected-after-removed-line",
            "elif-after-taken",
            "elif-true-after-taken",
            "define-in-skipped",
            "undef-in-skipped",
            "skipped-define-or-undef-then-tested",
            "undef-then-retest",
            "define-then-test",
            "nested>=2",
            "nested>=4",
            "expr-not",
            "expr-parens",
            "expr-precedence-sensitive",
            "expr-assoc-sensitive",
            "expr-depth>=3",
            "expr-valid",
            "expr-invalid",
            "expr-true",
            "expr-false",
            "crlf",
            "indent-before-hash",
            "blank-after-hash",
            "directive-trailing-comment",
            "directive-before-module",
            "eof-without-newline",
            "probe-indented",
            "probe-after-multibyte-characters",
            "multi-file",
            "cross-file-leak-observable",
            "leak-changer-first",
            "leak-tester-first",
            "diag-unresolved-on-selected-line",
            "diag-deprecated-use-on-selected-line",
        ]
    }
    fn fuzz_families(&self, _tier: Tier) -> Vec<(&'static str, u64)> {
        // libFuzzer runs per job (16 jobs), sized from the measured speed of the instrumented build
        vec![("files", 40000), ("multifile", 25000)]
    }
    fn families(&self, tier: Tier) -> Vec<Family<'_>> {
        let max_lines: u32 = tier.pick(4, 5);
        let max_expr: u32 = tier.pick(5, 6);
        vec![
            Family::enumerate("lines", seq_total(max_lines) * 16, 1, move |cx, i| lines_case(cx, i, max_lines, None)),
            // the two next lengths, sampled with a stride (not exhaustive; the offset depends on the seed)
            Family::enumerate(
                "lines-longer",
                NFORMS.pow(max_lines + 1) * 16,
                tier.pick(11, 31),
                move |cx, i| lines_case(cx, i, max_lines + 1, Some(max_lines + 1)),
            ),
            Family::enumerate(
                "lines-longest",
                NFORMS.pow(max_lines + 2) * 16,
                tier.pick(499, 1009),
                move |cx, i| lines_case(cx, i, max_lines + 2, Some(max_lines + 2)),
            ),
            Family::enumerate("expr", expr_total(max_expr) * 8, 1, move |cx, i| expr_case(cx, i, max_expr, None)),
            Family::enumerate(
                "expr-longer",
                NETOK.pow(max_expr + 1) * 8,
                tier.pick(7, 61),
                move |cx, i| expr_case(cx, i, max_expr + 1, Some(max_expr + 1)),
            ),
            Family::enumerate("leak", leak_total(), 1, leak_case),
            Family::bytes("files", 400, tier.pick(40_000, 600_000), |cx, i| random_files_case(cx, i, false)),
            Family::bytes("multifile", 500, tier.pick(25_000, 300_000), |cx, i| random_files_case(cx, i, true)),
            Family::replay_only("direct", direct_case),
        ]
    }
    fn extra_coverage(&self, tier: Tier) -> Value {
        json!({
            "line_forms": FORMS.iter().skip(1).collect::<Vec<_>>(),
            "exhaustive_line_sequences": seq_total(tier.pick(4, 5)),
            "exhaustive_expression_strings": expr_total(tier.pick(5, 6)),
        })
    }
}
