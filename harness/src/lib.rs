#![allow(dead_code)]
//! vcheck library: the checks, their shared models and the engine.  The `vcheck` binary drives them
//! with proptest / bounded enumeration; the libFuzzer target under /verif/fuzz drives the very same
//! case functions with coverage guidance (see DESIGN.md section 10.6).

pub mod c01;
pub mod c02;
pub mod c03;
pub mod c04;
pub mod c05;
pub mod c06;
pub mod c07;
pub mod c08;
pub mod c09;
pub mod c10;
pub mod c11;
pub mod c12;
pub mod c13;
pub mod c14;
pub mod c15;
pub mod c16;
pub mod c17;
pub mod c18;
pub mod c19;
pub mod c20;
pub mod compile;
pub mod doc;
pub mod engine;
pub mod fuzzstage;
pub mod gen;
pub mod guard;
pub mod inject;
pub mod model;
pub mod observe;
pub mod refcheck;
pub mod request;
pub mod render;
pub mod rules;
pub mod proc;
pub mod wire;

use engine::Check;

pub fn registry() -> Vec<&'static dyn Check> {
    vec![&c01::C01, &c02::C02, &c03::C03, &c04::C04, &c05::C05, &c06::C06, &c07::C07, &c08::C08, &c09::C09, &c10::C10, &c11::C11, &c12::C12, &c13::C13, &c14::C14, &c15::C15, &c16::C16, &c17::C17, &c18::C18, &c19::C19, &c20::C20]
}

pub fn find(id: &str) -> &'static dyn Check {
    registry().into_iter().find(|c| c.id() == id).unwrap_or_else(|| {
        eprintln!("vcheck: unknown property {id}");
        std::process::exit(2)
    })
}
