//! C02 — source-to-AST fidelity: the AST says exactly what the source says, in any layout.
//!
//! G: well-formed programs from `gen` x k token-level layouts from `render`.
//! O: (1) no error diagnostic; (2) `observe(state)` == the model in canonical (resolved) form,
//!    field by field; (3) therefore identical for all k layouts.

use crate::compile::*;
use crate::engine::*;
use crate::gen::{gen_program, GenCfg};
use crate::model::*;
use crate::observe::observe_program;
use crate::refcheck::{class_of_path, first_difference, Resolver};
use crate::render::{render_file, Layout};
use crate::{check, fail};
use arbitrary::Unstructured;
use serde_json::json;

pub struct C02;

/// Splits the case bytes into (layout bytes, program bytes).
pub fn split_input(bytes: &[u8]) -> (&[u8], &[u8]) {
    let n = (bytes.len() / 3).min(96);
    bytes.split_at(n)
}

pub fn render_layout(p: &Program, lay_bytes: &[u8], layout_no: usize) -> (Vec<String>, Vec<crate::render::Rendered>) {
    let mut lay = if layout_no == 0 && lay_bytes.iter().all(|b| *b == 0) {
        Layout::canonical()
    } else {
        Layout::free_salted(lay_bytes, (layout_no * 37 % 251) as u8)
    };
    let rendered: Vec<_> = p.files.iter().enumerate().map(|(i, f)| render_file(f, i, &mut lay)).collect();
    (rendered.iter().map(|r| r.text.clone()).collect(), rendered)
}

pub fn fidelity(cx: &mut CaseCtx, p: &Program, lay_bytes: &[u8], layouts: usize) -> CaseResult {
    let mut resolver = Resolver::new(p);
    let Some(expected) = resolver.resolve_program() else {
        // the generator is constructive; a reference that does not resolve is a generator slip, not
        // a finding — counted and skipped
        cx.label("generator-produced-unresolvable-program");
        return Ok(());
    };
    if resolver.ambiguous_hit {
        cx.label("generator-produced-ambiguous-names");
        return Ok(());
    }
    for l in 0..layouts {
        let (texts, rendered) = render_layout(p, lay_bytes, l);
        for r in &rendered {
            for lab in &r.labels {
                cx.label(*lab);
            }
        }
        if l == 0 {
            cx.sample_with(|| json!({"files": texts}));
        }
        let state = compile_strings(&texts, None);
        if state.diagnostics.has_errors() {
            let observed = observe_program(&state);
            let _ = observed;
            let diags = diagnostics_of(state, &Default::default());
            let codes = error_codes(&diags);
            fail!(
                format!("unexpected-error/{}", codes.first().cloned().unwrap_or_default()),
                "a well-formed program was rejected (layout {l}):\n{}\n--- source ---\n{}",
                summarize(&diags),
                texts.join("\n=====\n")
            );
        }
        let observed = observe_program(&state);
        if observed != expected {
            let (path, what) = first_difference(&expected, &observed).unwrap_or_default();
            fail!(
                format!("ast-mismatch{}", class_of_path(&path)),
                "layout {l}: at {path}: {what}\n--- source ---\n{}",
                texts.join("\n=====\n")
            );
        }
    }
    Ok(())
}

fn case(cx: &mut CaseCtx, input: Input, layouts: usize, cfg: &GenCfg) -> CaseResult {
    let (lay_bytes, prog_bytes) = split_input(input.bytes());
    let mut u = Unstructured::new(prog_bytes);
    let (mut p, labels) = gen_program(&mut u, cfg);
    for l in labels {
        cx.label(l);
    }
    // a file without definitions may also come without a module declaration: only file attributes
    // (or nothing at all) - still a well-formed file whose attributes must be kept
    for f in p.files.iter_mut() {
        if f.defs.is_empty() && crate::gen::pick(&mut u, 3) == 0 {
            f.module = None;
            cx.label(if f.file_attrs.is_empty() { "file-with-nothing" } else { "file-with-attributes-only" });
        } else if f.defs.is_empty() {
            cx.label("file-with-module-only");
        }
    }
    let depth2 = p.files.iter().any(|f| f.defs.iter().any(def_has_nested_type));
    cx.nontrivial = p.def_count() >= 3 || depth2;
    cx.set_key(&p);
    cx.label_if(p.files.len() > 1, "multi-file");
    let enums_in_file = p.files.iter().map(|f| f.defs.iter().filter(|d| matches!(d, DefM::Enum(_))).count()).max().unwrap_or(0);
    cx.label_if(enums_in_file >= 2, "two-enums-in-file");
    fidelity(cx, &p, lay_bytes, layouts)
}

fn type_depth2(t: &TypeM) -> bool {
    t.depth() >= 2
}

fn def_has_nested_type(d: &DefM) -> bool {
    match d {
        DefM::Struct(s) => s.fields.iter().any(|f| type_depth2(&f.ty)),
        DefM::Interface(i) => i.ops.iter().any(|o| {
            o.params.iter().any(|p| type_depth2(&p.ty)) || o.ret.members().iter().any(|p| type_depth2(&p.ty))
        }),
        DefM::Enum(e) => e
            .enumerators
            .iter()
            .any(|en| en.fields.as_ref().map(|fs| fs.iter().any(|f| type_depth2(&f.ty))).unwrap_or(false)),
        DefM::Alias(a) => type_depth2(&a.ty),
        DefM::Custom(_) => false,
    }
}

/// "direct" family: the bytes are a source text that must compile without errors in two trivially
/// different layouts (as written, and with every line break doubled) to the same observation.
fn direct(cx: &mut CaseCtx, input: Input) -> CaseResult {
    let text = String::from_utf8_lossy(input.bytes()).into_owned();
    cx.nontrivial = true;
    cx.sample_with(|| json!({"text": text}));
    let a = compile_strings(&[text.clone()], None);
    check!(!a.diagnostics.has_errors(), "direct/unexpected-error", "{}", summarize(&diagnostics_of(a, &Default::default())));
    let spaced = text.replace('\n', "\n\n");
    let b = compile_strings(&[spaced], None);
    check!(!b.diagnostics.has_errors(), "direct/unexpected-error", "{}", summarize(&diagnostics_of(b, &Default::default())));
    let oa = observe_program(&a);
    let ob = observe_program(&b);
    if oa != ob {
        let (path, what) = first_difference(&oa, &ob).unwrap_or_default();
        fail!(format!("direct/layout-dependence{}", class_of_path(&path)), "at {path}: {what}");
    }
    Ok(())
}

impl Check for C02 {
    fn id(&self) -> &'static str {
        "C02"
    }
    fn rule(&self) -> String {
        "proptest choice sequences -> well-formed multi-file program (constructive generator: every definition kind, modifiers, tags, enumerator values at range limits, attributes with escaped arguments, type expressions nested to depth 3, keyword identifiers, forward and cross-module references; files without definitions, also without a module declaration and with file attributes only) x k=3 (quick) / 5 (thorough) token-level layouts (white space incl. tabs/CRLF/U+3000, // and /* */ comments in 7 shapes between any two tokens, optional commas in 4 styles, dec/hex/bin literals with underscores, gratuitous string escapes, optional identifier escapes); oracle: no error diagnostic and observe(AST) == canonical(model) for every layout. Non-trivial = >= 3 definitions or a type nested >= 2 deep; distinct by hash of the abstract program".into()
    }
    fn assumptions(&self) -> Vec<String> {
        vec![
            "named references are compared in resolved form (the AST keeps no spelling); the resolution model is the C03 reference".into(),
            "typed attributes (allow/deprecated/compress/oneway/slicedFormat) are compared through their typed projection".into(),
            "the dummy identifier of an unnamed return value is not asserted".into(),
            "doc comment content is C16's subject; here documented elements must still be intact".into(),
        ]
    }
    fn essential(&self, _tier: Tier) -> Vec<&'static str> {
        vec![
            "def-struct",
            "def-interface",
            "def-enum",
            "def-custom",
            "def-alias",
            "hex-literal",
            "bin-literal",
            "dec-literal",
            "underscore-literal",
            "negative-literal",
            "enumerator-implicit-after",
            "keyword-as-identifier",
            "keyword-in-attribute",
            "comma-omitted",
            "trailing-comma",
            "crlf",
            "block-comment",
            "multi-line-block-comment",
            "second-attribute-argument",
            "two-enums-in-file",
            "multi-file",
            "string-escape",
            "type-nested-2",
            "type-attribute",
            "op-tuple-return",
            "op-single-return",
            "enumerator-fields",
            "global-spelling",
            "optional-escape",
        ]
    }
    fn fuzz_families(&self, _tier: Tier) -> Vec<(&'static str, u64)> {
        // libFuzzer runs per job (16 jobs), sized from the measured speed of the instrumented build
        vec![("programs", 4000)]
    }
    fn families(&self, tier: Tier) -> Vec<Family<'_>> {
        let layouts = tier.pick(3, 5);
        // (`deprecated` with and without a reason is one of the typed attributes)
        let cfg = GenCfg { deprecated: true, ..GenCfg::default() };
        let cfg2 = GenCfg {
            deprecated: true,
            max_files: 4,
            max_defs: 14,
            max_members: 6,
            ..GenCfg::default()
        };
        vec![
            Family::bytes("programs", 600, tier.pick(3_000, 40_000), move |cx, i| case(cx, i, layouts, &cfg)),
            Family::bytes("large-programs", 1500, tier.pick(500, 8_000), move |cx, i| case(cx, i, layouts, &cfg2)),
            Family::replay_only("direct", direct),
        ]
    }
}
