//! C18 — a failing generator is reported, never fatal, and never half-trusted.
//! Level: fault enumeration.
//!
//! 1..3 generators, each independently drawn from a behaviour catalogue (process-level faults and
//! reply-level faults, the latter taken from C11's reply catalogue: every truncation point, byte
//! corruptions, invalid bool / UTF-8 / level, absurd sizes, unknown tagged fields, empty reply,
//! trailing bytes) x output directory situations x argument lists, through the real binary.

use crate::c11::{enc_file, ref_reply, reply_catalogue, reply_of, safe_path};
use crate::engine::*;
use crate::gen::pick;
use crate::proc::{self, os, CaseDir};
use crate::wire;
use crate::{check, fail};
use arbitrary::Unstructured;
use serde_json::json;
use std::collections::BTreeMap;
use std::os::unix::fs::MetadataExt;
use std::path::Path;
use std::time::Duration;

pub struct C18;

const PROCESS_FAULTS: [&str; 13] = [
    "ok-0",
    "ok-1",
    "ok-2-nested",
    "missing",
    "not-executable",
    "exit-1",
    "exit-255",
    "sigkill",
    "sigsegv",
    "stderr-exit-0",
    "no-read",
    "directory-as-generator",
    "ok-identical-and-different",
];

const ARGS: [&[(&str, &str)]; 5] = [&[], &[("k", "v")], &[("a", ""), ("b", "x y")], &[("é", "中"), ("k", "v"), ("k2", ""), ("z", "1")], &[("dup", "1"), ("dup", "2")]];

#[derive(Debug)]
enum Expect {
    /// reply accepted: these files must be written
    Ok(Vec<(String, String)>),
    /// the generator must be reported with exactly one error; no file from it
    Fail,
    /// race or unspecified: either outcome, but consistent
    Either,
}

struct Gen {
    spec_path: String,
    path: std::path::PathBuf,
    kind: String,
    expect: Expect,
    args: &'static [(&'static str, &'static str)],
    reads_stdin: bool,
}

fn list_files(root: &Path, rel: &Path, out: &mut BTreeMap<String, Vec<u8>>) {
    let Ok(rd) = std::fs::read_dir(root.join(rel)) else { return };
    for e in rd.flatten() {
        let p = rel.join(e.file_name());
        let full = root.join(&p);
        if full.is_dir() {
            list_files(root, &p, out);
        } else if let Ok(b) = std::fs::read(&full) {
            out.insert(p.to_string_lossy().into_owned(), b);
        }
    }
}

fn case(cx: &mut CaseCtx, input: Input, catalogue: &[(String, Vec<u8>)]) -> CaseResult {
    let mut u = Unstructured::new(input.bytes());
    let dir = CaseDir::new(&cx.workdir, cx.shard, cx.case_no);
    let large = pick(&mut u, 6) == 0;
    let mut text = String::from("module M\nstruct S { a: int32 }\n");
    if large {
        // a request larger than the pipe buffer: a generator that exits without reading makes the
        // compiler's write fail
        for i in 0..2500 {
            text.push_str(&format!("struct Filler{i} {{ a: Dictionary<string, Sequence<int32>>, b: string? }}\n"));
        }
    }
    dir.write("a.slice", text.as_bytes());
    let outmode = pick(&mut u, 5);
    // 0: not given (cwd = a dedicated sub directory is not possible: cwd is the case dir), 1: given,
    // 2: nonexistent, 3: under a regular file, 4: given with pre-existing files
    let (out_arg, out_root): (Option<&str>, Option<std::path::PathBuf>) = match outmode {
        0 => (None, Some(dir.path.clone())),
        1 | 4 => {
            let _ = std::fs::create_dir_all(dir.path.join("out/sub"));
            (Some("out"), Some(dir.path.join("out")))
        }
        2 => (Some("no/such/dir"), None),
        _ => {
            dir.write("plainfile", b"x");
            (Some("plainfile/below"), None)
        }
    };
    if outmode == 0 {
        let _ = std::fs::create_dir_all(dir.path.join("sub"));
    }
    let ngen = 1 + pick(&mut u, 3);
    let mut gens: Vec<Gen> = Vec::new();
    for g in 0..ngen {
        let name = format!("gen{g}");
        let spec_path = format!("./{name}");
        let args = ARGS[pick(&mut u, ARGS.len())];
        let reply_level = pick(&mut u, 2) == 1;
        let (kind, cfg, expect, installed, reads): (String, String, Expect, bool, bool) = if reply_level {
            // two-level choice: the kind of fault first, then an entry of that kind
            let mut kinds: Vec<&str> = catalogue.iter().map(|c| c.0.as_str()).collect();
            kinds.dedup();
            kinds.sort();
            kinds.dedup();
            let kind = kinds[pick(&mut u, kinds.len())];
            let of_kind: Vec<&(String, Vec<u8>)> = catalogue.iter().filter(|c| c.0 == kind).collect();
            let (k, reply) = of_kind[pick16(&mut u, of_kind.len())];
            let expect = match ref_reply(reply) {
                Ok(r) => {
                    let trailing = r.consumed != reply.len();
                    let level_above_2 = r.diagnostics.iter().any(|d| d.0 > 2);
                    let error_level = r.diagnostics.iter().any(|d| d.0 == 2);
                    if !r.files.iter().all(|f| safe_path(&f.0)) {
                        cx.label("skipped-unsafe-path-in-reply");
                        return Ok(());
                    }
                    if trailing || level_above_2 || error_level {
                        Expect::Either
                    } else {
                        Expect::Ok(r.files.clone())
                    }
                }
                Err(_) => Expect::Fail,
            };
            (format!("reply:{k}"), format!("reply_hex={}\n", to_hex(reply)), expect, true, true)
        } else {
            let k = PROCESS_FAULTS[pick(&mut u, PROCESS_FAULTS.len())];
            let one = reply_of(&[enc_file(&format!("g{g}.txt"), &format!("from generator {g}\n"), &[])], &[]);
            let two = reply_of(
                &[enc_file(&format!("g{g}a.txt"), "first", &[]), enc_file(&format!("sub/g{g}b.txt"), "second é", &[])],
                &[],
            );
            match k {
                "ok-0" => (k.into(), String::new(), Expect::Ok(vec![]), true, true),
                "ok-1" => (k.into(), format!("reply_hex={}\n", to_hex(&one)), Expect::Ok(vec![(format!("g{g}.txt"), format!("from generator {g}\n"))]), true, true),
                "ok-2-nested" => (
                    k.into(),
                    format!("reply_hex={}\n", to_hex(&two)),
                    Expect::Ok(vec![(format!("g{g}a.txt"), "first".into()), (format!("sub/g{g}b.txt"), "second é".into())]),
                    true,
                    true,
                ),
                "ok-identical-and-different" => {
                    let r = reply_of(&[enc_file("same.txt", "unchanged content", &[]), enc_file("diff.txt", "new content", &[])], &[]);
                    (
                        k.into(),
                        format!("reply_hex={}\n", to_hex(&r)),
                        Expect::Ok(vec![("same.txt".into(), "unchanged content".into()), ("diff.txt".into(), "new content".into())]),
                        true,
                        true,
                    )
                }
                "missing" => (k.into(), String::new(), Expect::Fail, false, false),
                "not-executable" => (k.into(), String::new(), Expect::Fail, false, false),
                "directory-as-generator" => (k.into(), String::new(), Expect::Fail, false, false),
                "exit-1" => (k.into(), format!("reply_hex={}\nexit=1\n", to_hex(&one)), Expect::Fail, true, true),
                "exit-255" => (k.into(), format!("reply_hex={}\nexit=255\n", to_hex(&one)), Expect::Fail, true, true),
                "sigkill" => (k.into(), format!("reply_hex={}\nsignal=9\n", to_hex(&one)), Expect::Fail, true, true),
                "sigsegv" => (k.into(), format!("reply_hex={}\nsignal=11\n", to_hex(&one)), Expect::Fail, true, true),
                "stderr-exit-0" => (k.into(), format!("reply_hex={}\nstderr_hex={}\n", to_hex(&one), to_hex(b"generator complains\n")), Expect::Fail, true, true),
                _ => (
                    "no-read".into(),
                    // exits at once without reading; whether the compiler's write fails is a race for
                    // small requests
                    "read=none\n".to_owned(),
                    if large { Expect::Fail } else { Expect::Either },
                    true,
                    false,
                ),
            }
        };
        let path = if installed {
            dir.install_generator(&name, &cfg)
        } else {
            match kind.as_str() {
                "not-executable" => {
                    let p = dir.write(&name, b"#!/bin/sh\nexit 0\n");
                    use std::os::unix::fs::PermissionsExt;
                    let _ = std::fs::set_permissions(&p, std::fs::Permissions::from_mode(0o644));
                    p
                }
                "directory-as-generator" => {
                    let _ = std::fs::create_dir_all(dir.path.join(&name));
                    dir.path.join(&name)
                }
                _ => dir.path.join(&name),
            }
        };
        cx.label(format!("fault:{}", kind.split(':').next().unwrap_or("") .to_owned() + &kind.split(':').nth(1).map(|k| format!(":{k}")).unwrap_or_default()));
        cx.label(format!("position:{}:{}", if g == 0 { "first" } else if g + 1 == ngen { "last" } else { "middle" }, match expect { Expect::Ok(_) => "ok", Expect::Fail => "fail", Expect::Either => "either" }));
        gens.push(Gen {
            spec_path,
            path,
            kind,
            expect,
            args,
            reads_stdin: reads,
        });
    }
    // pre-existing files
    let mut pre: BTreeMap<String, (u64, i64, Vec<u8>)> = BTreeMap::new();
    if let Some(root) = &out_root {
        if outmode == 4 || pick(&mut u, 3) == 0 {
            for (name, content) in [("same.txt", "unchanged content"), ("diff.txt", "old content, longer than the new one"), ("bystander.txt", "not touched")] {
                let p = root.join(name);
                std::fs::write(&p, content).expect("pre-existing file");
                // age the file so that a rewrite is visible in its mtime
                let f = std::fs::File::options().write(true).open(&p).expect("open pre-existing");
                let _ = f.set_modified(std::time::SystemTime::UNIX_EPOCH + Duration::from_secs(1_000_000_000));
                drop(f);
                let m = std::fs::metadata(&p).expect("stat");
                pre.insert(name.to_owned(), (m.ino(), m.mtime(), content.as_bytes().to_vec()));
            }
            cx.label("pre-existing-files");
        }
    }
    let before: BTreeMap<String, Vec<u8>> = {
        let mut m = BTreeMap::new();
        if let Some(root) = &out_root {
            list_files(root, Path::new(""), &mut m);
        }
        m
    };
    let mut argv: Vec<std::ffi::OsString> = vec![os("a.slice")];
    if let Some(o) = out_arg {
        argv.push(os("-O"));
        argv.push(os(o));
    }
    for g in &gens {
        let mut spec = g.spec_path.clone();
        for (k, v) in g.args {
            spec.push_str(&format!(",{}={}", crate::c19::escape_component(k), crate::c19::escape_component(v)));
        }
        argv.push(os(&format!("--generator={spec}")));
    }
    let n_fail = gens.iter().filter(|g| matches!(g.expect, Expect::Fail)).count();
    let n_ok = gens.iter().filter(|g| matches!(g.expect, Expect::Ok(_))).count();
    cx.nontrivial = (n_fail >= 1 && n_ok >= 1) || gens.iter().any(|g| g.kind.starts_with("reply:"));
    cx.label_if(n_fail >= 1 && n_ok >= 1, "faulty-next-to-good");
    cx.label_if(large, "large-request");
    cx.label(format!("outdir-mode-{outmode}"));
    cx.sample_with(|| json!({"argv": argv.iter().map(|a| a.to_string_lossy().into_owned()).collect::<Vec<_>>(), "generators": gens.iter().map(|g| json!({"kind": g.kind, "expect": format!("{:?}", g.expect).chars().take(80).collect::<String>()})).collect::<Vec<_>>()}));

    let r = proc::run_slicec(&dir.path, &argv, &[], Duration::from_secs(40));
    let what = format!("argv {argv:?} generators {:?}", gens.iter().map(|g| g.kind.clone()).collect::<Vec<_>>());
    if r.timed_out {
        fail!("hang", "{what}: slicec did not finish within 40 s");
    }
    if let Some(c) = r.crashed() {
        fail!(format!("slicec-crash/{c}"), "{what}: {}", r.stderr_text());
    }
    let stderr = r.stderr_text();
    // every generator that can run did run (one invocation each), whatever its neighbours did
    for g in &gens {
        let runnable = !matches!(g.kind.as_str(), "missing" | "not-executable" | "directory-as-generator");
        if runnable {
            let n = dir.generator_log_lines(&g.path);
            check!(
                n == 1,
                format!("generator-not-run-next-to-fault/{}", if n == 0 { "not-started" } else { "started-twice" }),
                "{what}: generator {} ({}) was started {n} times\n{stderr}",
                g.spec_path,
                g.kind
            );
        }
    }
    // errors naming each generator
    let mut any_error_expected = false;
    let mut either_failed = false;
    for g in &gens {
        let needle = format!("unable to run code-generator '{}'", g.spec_path);
        let n = stderr.lines().filter(|l| l.starts_with("error [E001]") && l.contains(&needle)).count();
        match &g.expect {
            Expect::Fail => {
                any_error_expected = true;
                check!(
                    n == 1,
                    format!("failing-generator-errors/{}/{}", g.kind.split(':').next().unwrap_or(""), if n == 0 { "not-reported" } else { "reported-more-than-once" }),
                    "{what}: generator {} ({}) must be reported by exactly one error, found {n}\n{stderr}",
                    g.spec_path,
                    g.kind
                );
            }
            Expect::Ok(_) => {
                check!(
                    n == 0,
                    format!("good-generator-reported/{}", g.kind.split(':').next().unwrap_or("")),
                    "{what}: generator {} ({}) replied correctly but is reported as failing\n{stderr}",
                    g.spec_path,
                    g.kind
                );
            }
            Expect::Either => {
                check!(n <= 1, "failing-generator-errors/either/reported-more-than-once", "{what}: {n} errors for {}", g.spec_path);
                if n == 1 {
                    either_failed = true;
                }
            }
        }
    }
    // files: exactly those of the accepted replies (below the output directory)
    let mut expected_files: BTreeMap<String, Vec<u8>> = before.clone();
    let mut write_errors_expected = false;
    let mut uncertain_files = false;
    for g in &gens {
        match &g.expect {
            Expect::Ok(files) => {
                for (p, c) in files {
                    if out_root.is_some() {
                        expected_files.insert(p.clone(), c.as_bytes().to_vec());
                    } else {
                        write_errors_expected = true;
                    }
                }
            }
            Expect::Either => {
                if g.kind.starts_with("reply:") {
                    uncertain_files = true;
                }
            }
            Expect::Fail => {}
        }
    }
    if let Some(root) = &out_root {
        let mut after = BTreeMap::new();
        list_files(root, Path::new(""), &mut after);
        // bookkeeping files of the fake generators live in the case directory itself
        if outmode == 0 {
            after.retain(|k, _| !k.starts_with("gen") && k != "a.slice");
            expected_files.retain(|k, _| !k.starts_with("gen") && k != "a.slice");
        }
        if !uncertain_files {
            for (p, c) in &after {
                match expected_files.get(p) {
                    Some(e) if e == c => {}
                    Some(e) => fail!(
                        "file-content",
                        "{what}: {p} holds {:?}, expected {:?}",
                        String::from_utf8_lossy(c),
                        String::from_utf8_lossy(e)
                    ),
                    None => fail!(
                        "file-from-untrusted-reply",
                        "{what}: {p} was written although no accepted reply contains it ({:?})\n{stderr}",
                        String::from_utf8_lossy(c)
                    ),
                }
            }
            for p in expected_files.keys() {
                check!(
                    after.contains_key(p),
                    "file-of-good-generator-missing",
                    "{what}: {p} from a correctly replying generator was not written\n{stderr}"
                );
            }
        }
        // untouched files keep inode and mtime
        for (name, (ino, mtime, content)) in &pre {
            let m = std::fs::metadata(root.join(name));
            let rewritten_expected = gens.iter().any(|g| match &g.expect {
                Expect::Ok(files) => files.iter().any(|f| &f.0 == name && f.1.as_bytes() != &content[..]),
                _ => false,
            });
            if let Ok(m) = m {
                if !rewritten_expected && !uncertain_files {
                    check!(
                        m.ino() == *ino && m.mtime() == *mtime,
                        "identical-file-rewritten",
                        "{what}: {name} was rewritten although its content would not change (inode {} -> {}, mtime {} -> {})",
                        ino,
                        m.ino(),
                        mtime,
                        m.mtime()
                    );
                    cx.label("identical-file-left-untouched");
                } else if rewritten_expected {
                    cx.label("different-file-replaced");
                }
            }
        }
    }
    if write_errors_expected {
        any_error_expected = true;
        check!(
            stderr.contains("unable to write generated file"),
            "write-failure-not-reported",
            "{what}: the output directory cannot be written but no error says so\n{stderr}"
        );
    }
    // exit status
    let errors_shown = stderr.lines().filter(|l| l.starts_with("error [")).count();
    check!(
        (r.code != Some(0)) == (errors_shown > 0),
        "exit-status-vs-errors",
        "{what}: exit {:?} with {errors_shown} errors shown\n{stderr}",
        r.code
    );
    if !gens.iter().any(|g| matches!(g.expect, Expect::Either)) {
        check!(
            (r.code != Some(0)) == any_error_expected,
            format!("exit-status/{}", if any_error_expected { "zero-despite-failure" } else { "non-zero-without-failure" }),
            "{what}: exit {:?}\n{stderr}",
            r.code
        );
    }
    let _ = either_failed;
    // identical request, own arguments
    let mut request: Option<Vec<u8>> = None;
    for g in gens.iter().filter(|g| g.reads_stdin) {
        let Some(stdin) = dir.generator_stdin(&g.path) else { continue };
        let own: Vec<(String, String)> = g.args.iter().map(|(k, v)| (k.to_string(), v.to_string())).collect();
        let tail = wire::enc_args(&own);
        check!(
            stdin.ends_with(&tail),
            "arguments-of-another-generator",
            "{what}: the stdin of {} does not end with its own arguments {own:?}",
            g.spec_path
        );
        let body = stdin[..stdin.len() - tail.len()].to_vec();
        match &request {
            None => request = Some(body),
            Some(first) => check!(first == &body, "request-differs-between-generators", "{what}: generators received different requests"),
        }
        cx.label("stdin-compared");
    }
    Ok(())
}

fn pick16(u: &mut Unstructured, n: usize) -> usize {
    let a = u.arbitrary::<u8>().unwrap_or(0) as usize;
    let b = u.arbitrary::<u8>().unwrap_or(0) as usize;
    ((a << 8 | b) * n) >> 16
}

impl Check for C18 {
    fn id(&self) -> &'static str {
        "C18"
    }
    fn level(&self) -> &'static str {
        "fault_enumeration"
    }
    fn rule(&self) -> String {
        "proptest choice sequences -> 1..3 generators, each independently a process-level fault (ok with 0/1/2 files incl. nested path and identical / different pre-existing files, missing executable, not executable, directory, exit 1 / 255, SIGKILL / SIGSEGV, stderr output with exit 0, exit without reading stdin with small and > pipe-buffer requests) or a reply-level fault from C11's catalogue (every truncation point and byte corruptions of three reply shapes, every one-byte reply, invalid bool / UTF-8 / level, sizes 2^8..2^61, unknown and malformed tagged fields, empty reply, trailing bytes) x output directory (cwd, given, nonexistent, below a regular file, with pre-existing files) x argument lists, through the real binary. Oracle: the reference reply decoder predicts accept / reject; every runnable generator runs exactly once; exactly one error names each failing generator, none a good one; the output tree holds exactly the files of accepted replies (identical files keep inode and mtime, different ones are replaced); exit status != 0 <=> an error was shown <=> some generator or write failed; no crash, no hang (40 s); all stdins share the request and end with their own arguments. Non-trivial = a faulty generator next to a good one, or a reply-level fault".into()
    }
    fn assumptions(&self) -> Vec<String> {
        vec![
            "generators follow the documented protocol except where the fault says otherwise; a generator that exits without reading a small request is a race (either outcome, but consistent)".into(),
            "replies with trailing bytes, a level above 2 or an Error-level diagnostic are 'either outcome'".into(),
        ]
    }
    fn essential(&self, _tier: Tier) -> Vec<&'static str> {
        vec![
            "faulty-next-to-good",
            "large-request",
            "pre-existing-files",
            "identical-file-left-untouched",
            "different-file-replaced",
            "stdin-compared",
            "position:first:fail",
            "position:middle:fail",
            "position:last:fail",
            "position:last:ok",
            "fault:missing",
            "fault:not-executable",
            "fault:exit-1",
            "fault:sigkill",
            "fault:sigsegv",
            "fault:stderr-exit-0",
            "fault:no-read",
            "fault:reply:truncation",
            "fault:reply:corruption",
            "fault:reply:empty",
            "fault:reply:invalid-utf8",
            "fault:reply:invalid-bool",
            "fault:reply:announce-large",
            "fault:reply:unknown-tagged-fields",
            "outdir-mode-0",
            "outdir-mode-2",
            "outdir-mode-3",
        ]
    }
    fn needs_binary(&self) -> bool {
        true
    }
    fn timeout_is_violation(&self) -> bool {
        true
    }
    fn case_timeout(&self) -> Duration {
        Duration::from_secs(60)
    }
    fn families(&self, tier: Tier) -> Vec<Family<'_>> {
        let catalogue = reply_catalogue(Tier::Thorough);
        vec![Family::bytes("faults", 40, tier.pick(250, 5_000), move |cx, i| case(cx, i, &catalogue))]
    }
}
