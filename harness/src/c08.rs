//! C08 — the encoded generator request is decodable and says what the AST says.
//!
//! The bytes a capturing fake generator receives on stdin are decoded field by field according
//! to the schema shipped in /repo/slice/Compiler (`request`), interpreted as abstract files and
//! compared with the canonical form of the generated program.

use crate::c02::split_input;
use crate::doc::{self, Part};
use crate::engine::*;
use crate::gen::{gen_program, pick, GenCfg};
use crate::model::*;
use crate::proc::{self, os, CaseDir};
use crate::refcheck::{class_of_path, first_difference, join, EKind, Resolver, Table};
use crate::request::{decode_and_interpret, DecDoc, DecFile, DocPart};
use crate::rules::check_program;
use crate::{check, fail};
use arbitrary::Unstructured;
use serde_json::json;
use std::collections::BTreeMap;
use std::time::Duration;

pub struct C08;

/// What the request can express of a canonical file (see the assumptions in `Check::assumptions`).
pub fn expressible(f: &FileM) -> FileM {
    let mut f = f.clone();
    for d in &mut f.defs {
        match d {
            DefM::Enum(e) => {
                if let Some(u) = &mut e.underlying {
                    u.attrs.clear();
                    u.optional = false;
                }
                for en in &mut e.enumerators {
                    en.value = None;
                    if e.underlying.is_none() && en.fields.is_none() {
                        en.fields = Some(vec![]);
                    }
                }
            }
            DefM::Interface(i) => {
                for b in &mut i.bases {
                    b.attrs.clear();
                    b.optional = false;
                }
            }
            _ => {}
        }
    }
    f
}

fn linkable(k: EKind) -> bool {
    matches!(
        k,
        EKind::Struct | EKind::Field | EKind::Interface | EKind::Operation | EKind::Enum | EKind::Enumerator | EKind::Custom | EKind::Alias
    )
}

/// The id a link / see target must be transmitted as: the scoped name of the entity found by the
/// outward scope search started at the documented element itself, or the written text if that
/// designates nothing linkable.
pub fn link_id(table: &Table, target: &str, element_scoped: &str) -> String {
    match table.lookup(target, element_scoped) {
        Some((key, ents)) => {
            let e = ents.last().unwrap();
            if linkable(e.kind) && !table.ambiguous(&key) {
                key
            } else {
                target.to_owned()
            }
        }
        None => target.to_owned(),
    }
}

fn expected_parts(parts: &[Part], table: &Table, element_scoped: &str) -> Vec<DocPart> {
    parts
        .iter()
        .map(|p| match p {
            Part::Text(t) => DocPart::Text(t.clone()),
            Part::Link(t) => DocPart::Link(link_id(table, t, element_scoped)),
        })
        .collect()
}

fn flatten_dec(parts: &[DocPart]) -> Vec<DocPart> {
    let mut out: Vec<DocPart> = Vec::new();
    for p in parts {
        match (out.last_mut(), p) {
            (Some(DocPart::Text(a)), DocPart::Text(b)) => a.push_str(b),
            _ => out.push(p.clone()),
        }
    }
    out.retain(|p| !matches!(p, DocPart::Text(t) if t.is_empty()));
    out
}

fn links_only(parts: &[DocPart]) -> Vec<String> {
    parts.iter().filter_map(|p| if let DocPart::Link(l) = p { Some(l.clone()) } else { None }).collect()
}

fn compare_message(what: &str, exact: bool, expected: &[DocPart], got: &[DocPart]) -> CaseResult {
    let got = flatten_dec(got);
    let expected = flatten_dec(expected);
    if exact {
        check!(
            got == expected,
            format!("doc-mismatch/{what}"),
            "{what}: expected {expected:?}\n observed {got:?}"
        );
    } else {
        check!(
            links_only(&got) == links_only(&expected),
            format!("doc-mismatch/{what}/links"),
            "{what}: expected links {:?}, observed {:?}",
            links_only(&expected),
            links_only(&got)
        );
    }
    Ok(())
}

/// Compares the decoded comments of one file with what was written.
fn compare_docs(cx: &mut CaseCtx, f: &FileM, fi: usize, dec: &DecFile, table: &Table) -> CaseResult {
    let scope = f.module.as_ref().map(|m| m.scope()).unwrap_or_default();
    let _ = fi;
    let mut expect: BTreeMap<String, (Vec<DocPart>, Vec<String>, bool, &'static str)> = BTreeMap::new();
    let mut add = |path: String, pre: &Prelude, scoped: &str, what: &'static str, expect: &mut BTreeMap<String, (Vec<DocPart>, Vec<String>, bool, &'static str)>| {
        if let Some(dm) = &pre.docm {
            let e = doc::expected(dm);
            let overview = e.overview.as_ref().map(|p| expected_parts(p, table, scoped)).unwrap_or_default();
            let see: Vec<String> = e.see.iter().map(|t| link_id(table, t, scoped)).collect();
            expect.insert(path, (overview, see, e.exact, what));
        }
    };
    for (di, d) in f.defs.iter().enumerate() {
        let dp = format!("d{di}");
        let ds = join(&scope, d.name());
        add(dp.clone(), d.pre(), &ds, "definition", &mut expect);
        match d {
            DefM::Struct(s) => {
                for (k, fld) in s.fields.iter().enumerate() {
                    add(format!("{dp}/m{k}"), &fld.pre, &join(&ds, &fld.name), "field", &mut expect);
                }
            }
            DefM::Enum(e) => {
                for (k, en) in e.enumerators.iter().enumerate() {
                    let es = join(&ds, &en.name);
                    add(format!("{dp}/m{k}"), &en.pre, &es, "enumerator", &mut expect);
                    for (q, fld) in en.fields.iter().flatten().enumerate() {
                        add(format!("{dp}/m{k}/m{q}"), &fld.pre, &join(&es, &fld.name), "enumerator-field", &mut expect);
                    }
                }
            }
            DefM::Interface(i) => {
                for (k, op) in i.ops.iter().enumerate() {
                    let op_path = format!("{dp}/m{k}");
                    let os_ = join(&ds, &op.name);
                    add(op_path.clone(), &op.pre, &os_, "operation", &mut expect);
                    // per-parameter and per-return-value documentation
                    if let Some(dm) = &op.pre.docm {
                        let e = doc::expected(dm);
                        for (q, p) in op.params.iter().enumerate() {
                            if let Some((_, msg)) = e.params.iter().find(|t| t.0 == p.name) {
                                cx.label("parameter-documentation");
                                expect.insert(format!("{op_path}/p{q}"), (expected_parts(msg, table, &os_), vec![], e.exact, "parameter"));
                            }
                        }
                        match &op.ret {
                            RetM::None => {}
                            RetM::Single(_) => {
                                if let Some((_, msg)) = e.returns.iter().find(|t| t.0.is_none()) {
                                    cx.label("return-documentation");
                                    expect.insert(format!("{op_path}/r0"), (expected_parts(msg, table, &os_), vec![], e.exact, "return-value"));
                                }
                            }
                            RetM::Tuple(v) => {
                                for (q, p) in v.iter().enumerate() {
                                    if let Some((_, msg)) = e.returns.iter().find(|t| t.0.as_deref() == Some(p.name.as_str())) {
                                        cx.label("return-documentation");
                                        expect.insert(format!("{op_path}/r{q}"), (expected_parts(msg, table, &os_), vec![], e.exact, "return-value"));
                                    }
                                }
                            }
                        }
                    }
                }
            }
            _ => {}
        }
    }
    // every expected comment is present and says the right thing; nothing else carries a comment
    for (path, (overview, see, exact, what)) in &expect {
        let got: Option<&DecDoc> = dec.docs.get(path);
        let Some(got) = got else {
            if *what == "return-value" && cx.tolerate_known("F-08") {
                continue;
            }
            fail!(format!("doc-missing/{what}"), "{path}: the {what}'s documentation {overview:?} was not transmitted");
        };
        cx.label("comment-compared");
        if *what == "return-value" && flatten_dec(&got.overview) != flatten_dec(overview) && cx.tolerate_known("F-08") {
            continue;
        }
        compare_message(what, *exact, overview, &got.overview)?;
        check!(
            &got.see == see,
            format!("doc-mismatch/{what}/see"),
            "{path}: expected see tags {see:?}, observed {:?}",
            got.see
        );
        cx.label_if(!links_only(overview).is_empty(), "comment-with-link");
        cx.label_if(!see.is_empty(), "comment-with-see");
    }
    for (path, got) in &dec.docs {
        if !expect.contains_key(path) {
            // F-08: a return member named like a parameter receives the parameter's text
            if path.contains("/r") && cx.tolerate_known("F-08") {
                continue;
            }
            let kind = if path.contains("/p") {
                "parameter"
            } else if path.contains("/r") {
                "return-value"
            } else {
                "element"
            };
            fail!(format!("doc-unexpected/{kind}"), "{path}: a comment {:?} was transmitted for something that has none", got);
        }
    }
    Ok(())
}

pub struct RunSetup {
    pub dir: CaseDir,
    pub paths: Vec<String>,
    pub is_source: Vec<bool>,
}

/// Writes the rendered files into a fresh case directory with varied path spellings.
pub fn write_files(cx: &CaseCtx, u: &mut Unstructured, texts: &[String], all_sources: bool) -> RunSetup {
    let dir = CaseDir::new(&cx.workdir, cx.shard, cx.case_no);
    let mut paths = Vec::new();
    let mut is_source = Vec::new();
    for (i, t) in texts.iter().enumerate() {
        let rel = match pick(u, 4) {
            0 => format!("f{i}.slice"),
            1 => format!("./f{i}.slice"),
            2 => format!("sub/f{i}.slice"),
            _ => format!("sub/../d{i}/f{i}.slice"),
        };
        // create through the plain path
        let plain = rel.replace("sub/../", "");
        dir.write(&plain, t.as_bytes());
        if rel.starts_with("sub/") {
            let _ = std::fs::create_dir_all(dir.path.join("sub"));
        }
        paths.push(rel);
        is_source.push(all_sources || pick(u, 3) != 0);
    }
    RunSetup { dir, paths, is_source }
}

pub fn request_case(cx: &mut CaseCtx, input: Input, cfg: &GenCfg) -> CaseResult {
    let (lay_bytes, prog_bytes) = split_input(input.bytes());
    let mut u = Unstructured::new(prog_bytes);
    let (mut p, labels) = gen_program(&mut u, cfg);
    for l in labels {
        cx.label(l);
    }
    cx.set_key(&p);
    let mut resolver = Resolver::new(&p);
    let Some(canon) = resolver.resolve_program() else {
        cx.label("generator-produced-unresolvable-program");
        return Ok(());
    };
    if resolver.ambiguous_hit || !check_program(&p).well_formed() {
        cx.label("generator-produced-ill-formed-program");
        return Ok(());
    }
    let (texts, rendered) = crate::c02::render_layout(&p, lay_bytes, 0);
    for r in &rendered {
        for lab in &r.labels {
            if matches!(*lab, "def-alias" | "enum-underlying" | "enumerator-fields" | "tagged" | "def-struct" | "def-interface" | "def-enum" | "def-custom" | "negative-literal") {
                cx.label(*lab);
            }
        }
    }
    let setup = write_files(cx, &mut u, &texts, false);
    for (i, f) in p.files.iter_mut().enumerate() {
        f.path = setup.paths[i].clone();
    }
    // generators and their arguments
    const ARGS: [&[(&str, &str)]; 5] = [&[], &[("k", "v")], &[("a", ""), ("b", "x y")], &[("é", "中"), ("k", "v"), ("k2", "")], &[("zeta", "1"), ("alpha", "2"), ("zeta", "3")]];
    let ngen = 1 + pick(&mut u, 2);
    let mut gens = Vec::new();
    let mut argv: Vec<std::ffi::OsString> = Vec::new();
    for (i, path) in setup.paths.iter().enumerate() {
        if setup.is_source[i] {
            argv.push(os(path));
        } else {
            argv.push(os("-R"));
            argv.push(os(path));
        }
    }
    for g in 0..ngen {
        let gp = setup.dir.install_generator(&format!("gen{g}"), "");
        let args = ARGS[pick(&mut u, ARGS.len())];
        let mut spec = format!("./gen{g}");
        for (k, v) in args {
            spec.push_str(&format!(",{}={}", crate::c19::escape_component(k), crate::c19::escape_component(v)));
        }
        argv.push(os(&format!("--generator={spec}")));
        gens.push((gp, args));
    }
    let nested3 = p.files.iter().any(|f| f.defs.iter().any(|d| max_depth(d) >= 3));
    let has_anon = p.files.iter().any(|f| f.defs.iter().any(|d| max_depth(d) >= 1));
    let has_meta = p.files.iter().any(|f| f.defs.iter().any(|d| !d.pre().attrs.is_empty() || !d.pre().doc.is_empty()));
    cx.nontrivial = has_anon && has_meta;
    cx.label_if(nested3, "anonymous-nested-3");
    cx.label_if(setup.is_source.iter().any(|s| !*s), "reference-files-present");
    cx.label_if(setup.is_source.iter().all(|s| !*s), "no-source-file");
    cx.sample_with(|| json!({"argv": argv.iter().map(|a| a.to_string_lossy().into_owned()).collect::<Vec<_>>(), "files": texts}));

    let r = proc::run_slicec(&setup.dir.path, &argv, &[], Duration::from_secs(30));
    if let Some(c) = r.crashed() {
        fail!(format!("slicec-crash/{c}"), "slicec crashed: {}\n--- files ---\n{}", r.stderr_text(), texts.join("\n=====\n"));
    }
    check!(
        r.code == Some(0),
        "unexpected-exit-status",
        "a well-formed program gave exit status {:?}:\n{}\n--- files ---\n{}",
        r.code,
        r.stderr_text(),
        texts.join("\n=====\n")
    );
    let table = Table::build(&p);
    let mut first_request: Option<Vec<u8>> = None;
    for (gp, args) in &gens {
        let Some(stdin) = setup.dir.generator_stdin(gp) else {
            fail!("generator-not-run", "generator {} did not run", gp.display());
        };
        let (req, problems) = match decode_and_interpret(&stdin) {
            Ok(x) => x,
            Err(e) => fail!(
                format!("undecodable/{}", class_of_path(&e.at).replace(|c: char| c.is_ascii_digit(), "")),
                "the request does not decode according to the schema: at {} (offset {} of {}): {}\n--- files ---\n{}",
                e.at,
                e.offset,
                stdin.len(),
                e.what,
                texts.join("\n=====\n")
            ),
        };
        check!(req.operation == "generateCode", "operation-name", "operation name {:?}", req.operation);
        check!(
            problems.is_empty(),
            format!("dangling-id/{}", problems.first().map(|p| p.split(':').nth(1).unwrap_or("").trim().split(' ').take(3).collect::<Vec<_>>().join("-")).unwrap_or_default()),
            "the decoded request refers to things that are not there: {problems:?}\n--- files ---\n{}",
            texts.join("\n=====\n")
        );
        // the source / reference split and both orders
        let exp_sources: Vec<&String> = setup.paths.iter().zip(&setup.is_source).filter(|x| *x.1).map(|x| x.0).collect();
        let exp_refs: Vec<&String> = setup.paths.iter().zip(&setup.is_source).filter(|x| !*x.1).map(|x| x.0).collect();
        let got_sources: Vec<&String> = req.sources.iter().map(|f| &f.file.path).collect();
        let got_refs: Vec<&String> = req.references.iter().map(|f| &f.file.path).collect();
        check!(
            got_sources == exp_sources && got_refs == exp_refs,
            "file-split-or-order",
            "expected sources {exp_sources:?} references {exp_refs:?}\n observed sources {got_sources:?} references {got_refs:?}"
        );
        // content per file
        for dec in req.sources.iter().chain(req.references.iter()) {
            let fi = setup.paths.iter().position(|x| x == &dec.file.path).unwrap();
            let mut expected = expressible(&canon.files[fi]);
            expected.path = setup.paths[fi].clone();
            if dec.file != expected {
                let a = Program { files: vec![expected] };
                let b = Program { files: vec![dec.file.clone()] };
                let (path, what) = first_difference(&a, &b).unwrap_or_default();
                fail!(
                    format!("content-mismatch{}", class_of_path(&path)),
                    "{}: at {path}: {what}\n--- file ---\n{}",
                    dec.file.path,
                    texts[fi]
                );
            }
            compare_docs(cx, &p.files[fi], fi, dec, &table)?;
            cx.label_if(dec.anonymous > 0, "anonymous-symbols");
        }
        // arguments
        let exp_args: Vec<(String, String)> = args.iter().map(|(k, v)| (k.to_string(), v.to_string())).collect();
        check!(
            req.args == exp_args,
            "arguments-mismatch",
            "generator {}: expected arguments {exp_args:?}, received {:?}",
            gp.display(),
            req.args
        );
        cx.label_if(!exp_args.is_empty(), "arguments-non-empty");
        // all generators get the identical request
        let body_len = stdin.len() - crate::wire::enc_args(&exp_args).len();
        match &first_request {
            None => first_request = Some(stdin[..body_len].to_vec()),
            Some(first) => check!(first[..] == stdin[..body_len], "request-differs-between-generators", "generators received different requests"),
        }
    }
    cx.label("request-compared");
    Ok(())
}

fn max_depth(d: &DefM) -> usize {
    match d {
        DefM::Struct(s) => s.fields.iter().map(|f| f.ty.depth()).max().unwrap_or(0),
        DefM::Interface(i) => i
            .ops
            .iter()
            .flat_map(|o| o.params.iter().chain(o.ret.members()).map(|p| p.ty.depth()))
            .max()
            .unwrap_or(0),
        DefM::Enum(e) => e
            .enumerators
            .iter()
            .flat_map(|en| en.fields.iter().flatten().map(|f| f.ty.depth()))
            .max()
            .unwrap_or(0),
        DefM::Alias(a) => a.ty.depth(),
        DefM::Custom(_) => 0,
    }
}

impl Check for C08 {
    fn id(&self) -> &'static str {
        "C08"
    }
    fn rule(&self) -> String {
        "proptest choice sequences -> well-formed multi-file program (every definition kind, anonymous types nested to depth 3, aliases incl. of anonymous types across files, doc comments with links / see tags / @param / @returns, enumerator values at the extremes of every underlying type, tags at 0 and 2^31-1, built-in and foreign attributes) written to real files with varied path spellings x random source/reference split x 1..2 capturing generators with argument lists; the captured stdin is decoded by a schema-driven reference decoder (schema = /repo/slice/Compiler/*.slice) and compared with the canonical program: complete decode with zero bytes left, operation name, file split and orders, modules, attributes, identifiers, flags, tags, values / discriminants, bases, structurally resolved type references (numeric ids earlier + anonymous + same file; named ids transmitted), comments with resolved links, per-parameter and per-return documentation, arguments. Non-trivial = >= 1 anonymous type and >= 1 doc comment or attribute; distinct by hash of the abstract program".into()
    }
    fn assumptions(&self) -> Vec<String> {
        vec![
            "the request has no place for: attributes / optionality of an enum's underlying type and of interface bases, the difference between `A` and `A()`, explicit vs implicit enumerator values, the dummy name of a single return value".into(),
            "comment text is compared exactly only for uniformly indented comments (C16's lenient cases compare link targets only)".into(),
            "the schema files are parsed with slicec itself (C02 establishes its fidelity)".into(),
        ]
    }
    fn essential(&self, _tier: Tier) -> Vec<&'static str> {
        vec![
            "request-compared",
            "anonymous-nested-3",
            "anonymous-symbols",
            "reference-files-present",
            "arguments-non-empty",
            "comment-compared",
            "comment-with-link",
            "comment-with-see",
            "parameter-documentation",
            "return-documentation",
            "enumerator-at-range-limit",
            "cross-module-ref",
            "def-alias",
            "enum-underlying",
            "enumerator-fields",
            "tagged",
        ]
    }
    fn needs_binary(&self) -> bool {
        true
    }
    fn families(&self, tier: Tier) -> Vec<Family<'_>> {
        let cfg = GenCfg {
            max_files: 4,
            max_defs: 9,
            doc_chance: 110,
            ..GenCfg::default()
        };
        vec![Family::bytes("requests", 900, tier.pick(600, 6_000), move |cx, i| {
            let r = request_case(cx, i, &cfg);
            // labels of the printer are interesting here too
            r
        })]
    }
}
