//! Bit-level reference implementation of the Slice2 wire format, written from the statements of
//! C10 / C11 / C08 (never calls slice-codec).
//!
//! * fixed-width numbers: little-endian two's complement / IEEE-754
//! * variable-width integers: the value shifted left by two, OR-ed with a length code
//!   (0,1,2,3 -> 1,2,4,8 bytes) in the two low bits, little-endian, shortest width that holds it
//! * sizes: varuint62; strings: size + UTF-8 bytes; sequences: size + elements;
//!   dictionaries: size + (key, value) pairs, keys unique.

// ------------------------------------------------------------------------------------------
// Encoding
// ------------------------------------------------------------------------------------------

pub const VARUINT62_MAX: u64 = (1u64 << 62) - 1;
pub const VARINT62_MAX: i64 = (1i64 << 61) - 1;
pub const VARINT62_MIN: i64 = -(1i64 << 61);

/// Reference varuint encoding; None if the value is outside the 62-bit range.
pub fn enc_varuint(v: u64) -> Option<Vec<u8>> {
    if v > VARUINT62_MAX {
        return None;
    }
    // shortest of 1/2/4/8 bytes holding v << 2
    let width_code: u64 = if v < (1 << 6) {
        0
    } else if v < (1 << 14) {
        1
    } else if v < (1 << 30) {
        2
    } else {
        3
    };
    let word = (v << 2) | width_code;
    let n = 1usize << width_code;
    Some(word.to_le_bytes()[..n].to_vec())
}

/// Reference varint encoding; None if the value is outside the 62-bit range.
pub fn enc_varint(v: i64) -> Option<Vec<u8>> {
    if !(VARINT62_MIN..=VARINT62_MAX).contains(&v) {
        return None;
    }
    let fits = |bits: u32| -> bool {
        // v << 2 must be representable as a signed integer of `bits` bits
        let lo = -(1i128 << (bits - 1));
        let hi = (1i128 << (bits - 1)) - 1;
        let shifted = (v as i128) << 2;
        shifted >= lo && shifted <= hi
    };
    let width_code: u64 = if fits(8) {
        0
    } else if fits(16) {
        1
    } else if fits(32) {
        2
    } else {
        3
    };
    let word = ((v << 2) as u64) | width_code;
    let n = 1usize << width_code;
    Some(word.to_le_bytes()[..n].to_vec())
}

pub fn enc_string(s: &str) -> Vec<u8> {
    let mut out = enc_varuint(s.len() as u64).expect("string length");
    out.extend_from_slice(s.as_bytes());
    out
}

/// The `Arguments` dictionary a generator receives after the request.
pub fn enc_args(args: &[(String, String)]) -> Vec<u8> {
    let mut out = enc_varuint(args.len() as u64).expect("argument count");
    for (k, v) in args {
        out.extend(enc_string(k));
        out.extend(enc_string(v));
    }
    out
}

// ------------------------------------------------------------------------------------------
// Decoding (cursor = `&mut &[u8]`; None = reject, cursor position then unspecified)
// ------------------------------------------------------------------------------------------

pub fn take<'a>(b: &mut &'a [u8], n: usize) -> Option<&'a [u8]> {
    if b.len() < n {
        return None;
    }
    let (head, rest) = b.split_at(n);
    *b = rest;
    Some(head)
}

pub fn read_u8(b: &mut &[u8]) -> Option<u8> {
    take(b, 1).map(|x| x[0])
}

pub fn read_bool(b: &mut &[u8]) -> Option<bool> {
    match read_u8(b)? {
        0 => Some(false),
        1 => Some(true),
        _ => None,
    }
}

macro_rules! read_fixed {
    ($name:ident, $ty:ty, $n:expr) => {
        pub fn $name(b: &mut &[u8]) -> Option<$ty> {
            let raw = take(b, $n)?;
            let mut arr = [0u8; $n];
            arr.copy_from_slice(raw);
            Some(<$ty>::from_le_bytes(arr))
        }
    };
}
read_fixed!(read_u16, u16, 2);
read_fixed!(read_i16, i16, 2);
read_fixed!(read_u32, u32, 4);
read_fixed!(read_i32, i32, 4);
read_fixed!(read_u64, u64, 8);
read_fixed!(read_i64, i64, 8);

pub fn read_i8(b: &mut &[u8]) -> Option<i8> {
    read_u8(b).map(|x| x as i8)
}

pub fn read_f32_bits(b: &mut &[u8]) -> Option<u32> {
    read_u32(b)
}

pub fn read_f64_bits(b: &mut &[u8]) -> Option<u64> {
    read_u64(b)
}

/// Reads a varuint62 (any width the first byte announces; over-long encodings are legal on the wire).
pub fn read_varuint(b: &mut &[u8]) -> Option<u64> {
    let first = *b.first()?;
    let n = 1usize << (first & 3);
    let raw = take(b, n)?;
    let mut arr = [0u8; 8];
    arr[..n].copy_from_slice(raw);
    Some(u64::from_le_bytes(arr) >> 2)
}

/// Reads a varint62 (sign extended from the announced width).
pub fn read_varint(b: &mut &[u8]) -> Option<i64> {
    let first = *b.first()?;
    let n = 1usize << (first & 3);
    let raw = take(b, n)?;
    let mut arr = [0u8; 8];
    arr[..n].copy_from_slice(raw);
    let word = u64::from_le_bytes(arr);
    // sign extend from n*8 bits
    let shift = 64 - 8 * n as u32;
    let signed = ((word << shift) as i64) >> shift;
    Some(signed >> 2)
}

pub fn read_varint_as_i32(b: &mut &[u8]) -> Option<i32> {
    i32::try_from(read_varint(b)?).ok()
}

pub fn read_varuint_as_u32(b: &mut &[u8]) -> Option<u32> {
    u32::try_from(read_varuint(b)?).ok()
}

pub fn read_size(b: &mut &[u8]) -> Option<usize> {
    usize::try_from(read_varuint(b)?).ok()
}

pub fn read_string(b: &mut &[u8]) -> Option<String> {
    let n = read_size(b)?;
    let raw = take(b, n)?;
    String::from_utf8(raw.to_vec()).ok()
}

pub fn read_bytes_seq(b: &mut &[u8]) -> Option<Vec<u8>> {
    let n = read_size(b)?;
    take(b, n).map(|x| x.to_vec())
}

/// Generic sequence: the announced count is *not* trusted for allocation.
pub fn read_seq<T>(b: &mut &[u8], mut elem: impl FnMut(&mut &[u8]) -> Option<T>) -> Option<Vec<T>> {
    let n = read_size(b)?;
    let mut out = Vec::new();
    for _ in 0..n {
        out.push(elem(b)?);
    }
    Some(out)
}

/// Generic dictionary: duplicate keys reject.
pub fn read_dict<K: Ord + Clone, V>(
    b: &mut &[u8],
    mut key: impl FnMut(&mut &[u8]) -> Option<K>,
    mut value: impl FnMut(&mut &[u8]) -> Option<V>,
) -> Option<Vec<(K, V)>> {
    let n = read_size(b)?;
    let mut seen = std::collections::BTreeSet::new();
    let mut out = Vec::new();
    for _ in 0..n {
        let k = key(b)?;
        let v = value(b)?;
        if !seen.insert(k.clone()) {
            return None;
        }
        out.push((k, v));
    }
    Some(out)
}

/// Skips tagged fields up to the tag end marker (varint -1): each is `tag (varint32), size, bytes`.
pub fn skip_tagged(b: &mut &[u8]) -> Option<()> {
    loop {
        let tag = read_varint_as_i32(b)?;
        if tag == -1 {
            return Some(());
        }
        let n = read_size(b)?;
        take(b, n)?;
    }
}

// ------------------------------------------------------------------------------------------
// Additions for C10 / C11 / C12 (additive; nothing above changed)
// ------------------------------------------------------------------------------------------

/// Allocation-free reference varuint encoder for the bulk sweeps, formulated differently from
/// `enc_varuint` (C10 cross-checks the two): literally "the shortest of 1, 2, 4 or 8 bytes that
/// holds the value shifted left by two, with the length code in the two low bits".
/// Returns the little-endian word and the number of bytes to take from it.
pub fn enc_varuint_arr(v: u64) -> Option<([u8; 8], usize)> {
    if v >> 62 != 0 {
        return None;
    }
    for code in 0..4u32 {
        let n = 1usize << code;
        let bits = 8 * n as u32;
        let word = (v << 2) | code as u64;
        if bits == 64 || word >> bits == 0 {
            return Some((word.to_le_bytes(), n));
        }
    }
    None
}

/// Allocation-free reference varint encoder (see `enc_varuint_arr`).
pub fn enc_varint_arr(v: i64) -> Option<([u8; 8], usize)> {
    let shifted = (v as i128) << 2;
    // 62-bit range: the shifted value must fit a signed 64-bit word
    if shifted < -(1i128 << 63) || shifted > (1i128 << 63) - 1 {
        return None;
    }
    for code in 0..4u32 {
        let n = 1usize << code;
        let bits = 8 * n as u32;
        let lo = -(1i128 << (bits - 1));
        let hi = (1i128 << (bits - 1)) - 1;
        if shifted >= lo && shifted <= hi {
            let word = (shifted as i64 as u64) | code as u64;
            return Some((word.to_le_bytes(), n));
        }
    }
    None
}

/// Why the reference decoder rejects an input.
#[derive(Clone, Copy, Debug, PartialEq, Eq, Hash)]
pub enum Reject {
    /// fewer bytes than the encoding needs
    Eob,
    /// a bool byte other than 0 / 1
    IllegalBool,
    InvalidUtf8,
    /// a variable-width integer that does not fit the requested type
    OutOfRange,
    DuplicateKey,
}

pub type RefResult<T> = Result<T, Reject>;

pub fn need<'a>(b: &mut &'a [u8], n: usize) -> RefResult<&'a [u8]> {
    take(b, n).ok_or(Reject::Eob)
}

pub fn rd_varuint(b: &mut &[u8]) -> RefResult<u64> {
    read_varuint(b).ok_or(Reject::Eob)
}

pub fn rd_varint(b: &mut &[u8]) -> RefResult<i64> {
    read_varint(b).ok_or(Reject::Eob)
}

pub fn rd_varint_as<T: TryFrom<i64>>(b: &mut &[u8]) -> RefResult<T> {
    T::try_from(rd_varint(b)?).map_err(|_| Reject::OutOfRange)
}

pub fn rd_varuint_as<T: TryFrom<u64>>(b: &mut &[u8]) -> RefResult<T> {
    T::try_from(rd_varuint(b)?).map_err(|_| Reject::OutOfRange)
}

pub fn rd_size(b: &mut &[u8]) -> RefResult<usize> {
    rd_varuint_as::<usize>(b)
}

/// `skip_tagged` with the reason of a rejection.
pub fn rd_skip_tagged(b: &mut &[u8]) -> RefResult<()> {
    loop {
        let tag: i32 = rd_varint_as(b)?;
        if tag == -1 {
            return Ok(());
        }
        let n = rd_size(b)?;
        need(b, n)?;
    }
}

/// Type names without module paths (`Vec<HashMap<u8, String>>`).
pub fn short_type_name<T: ?Sized>() -> String {
    let full = std::any::type_name::<T>();
    let mut out = String::new();
    let mut ident = String::new();
    let mut chars = full.chars().peekable();
    while let Some(c) = chars.next() {
        if c.is_alphanumeric() || c == '_' {
            ident.push(c);
        } else if c == ':' && chars.peek() == Some(&':') {
            chars.next();
            ident.clear(); // drop the path segment
        } else {
            out.push_str(&ident);
            ident.clear();
            if c != ' ' {
                out.push(c);
            }
        }
    }
    out.push_str(&ident);
    out
}

/// Typed reference codec over the static types of the C10 / C11 menus.  Written from the
/// statement; never calls slice-codec.
pub trait RefCodec: Sized {
    fn ref_encode(&self, out: &mut Vec<u8>);
    fn ref_decode(b: &mut &[u8]) -> RefResult<Self>;
    /// Equality as the properties define it: floats by bit pattern, dictionaries as maps.
    fn same(&self, other: &Self) -> bool;
    /// Compact, deterministic text (dictionary entries sorted) for evidence and failure details.
    fn show(&self) -> String;
    /// Nesting depth of containers (scalars and strings 0).
    fn depth(&self) -> usize {
        0
    }
    /// "not 0 / empty"
    fn is_trivial(&self) -> bool;
}

pub fn ref_bytes<T: RefCodec>(v: &T) -> Vec<u8> {
    let mut out = Vec::new();
    v.ref_encode(&mut out);
    out
}

impl RefCodec for bool {
    fn ref_encode(&self, out: &mut Vec<u8>) {
        out.push(if *self { 1 } else { 0 });
    }
    fn ref_decode(b: &mut &[u8]) -> RefResult<Self> {
        match need(b, 1)?[0] {
            0 => Ok(false),
            1 => Ok(true),
            _ => Err(Reject::IllegalBool),
        }
    }
    fn same(&self, other: &Self) -> bool {
        self == other
    }
    fn show(&self) -> String {
        format!("{self}")
    }
    fn is_trivial(&self) -> bool {
        !*self
    }
}

macro_rules! ref_codec_int {
    ($($ty:ty),*) => {$(
        impl RefCodec for $ty {
            fn ref_encode(&self, out: &mut Vec<u8>) {
                // little-endian two's complement, byte by byte from the low end
                let n = std::mem::size_of::<$ty>();
                let mut x = *self as i128 as u128;
                for _ in 0..n {
                    out.push((x & 0xff) as u8);
                    x >>= 8;
                }
            }
            fn ref_decode(b: &mut &[u8]) -> RefResult<Self> {
                let n = std::mem::size_of::<$ty>();
                let raw = need(b, n)?;
                let mut x: u128 = 0;
                for (i, byte) in raw.iter().enumerate() {
                    x |= (*byte as u128) << (8 * i);
                }
                Ok(x as $ty)
            }
            fn same(&self, other: &Self) -> bool {
                self == other
            }
            fn show(&self) -> String {
                format!("{}{}", self, stringify!($ty))
            }
            fn is_trivial(&self) -> bool {
                *self == 0
            }
        }
    )*};
}
ref_codec_int!(u8, i8, u16, i16, u32, i32, u64, i64);

impl RefCodec for f32 {
    fn ref_encode(&self, out: &mut Vec<u8>) {
        self.to_bits().ref_encode(out)
    }
    fn ref_decode(b: &mut &[u8]) -> RefResult<Self> {
        Ok(f32::from_bits(u32::ref_decode(b)?))
    }
    fn same(&self, other: &Self) -> bool {
        self.to_bits() == other.to_bits()
    }
    fn show(&self) -> String {
        format!("f32:{:#010x}", self.to_bits())
    }
    fn is_trivial(&self) -> bool {
        self.to_bits() == 0
    }
}

impl RefCodec for f64 {
    fn ref_encode(&self, out: &mut Vec<u8>) {
        self.to_bits().ref_encode(out)
    }
    fn ref_decode(b: &mut &[u8]) -> RefResult<Self> {
        Ok(f64::from_bits(u64::ref_decode(b)?))
    }
    fn same(&self, other: &Self) -> bool {
        self.to_bits() == other.to_bits()
    }
    fn show(&self) -> String {
        format!("f64:{:#018x}", self.to_bits())
    }
    fn is_trivial(&self) -> bool {
        self.to_bits() == 0
    }
}

fn clip(mut s: String) -> String {
    if s.len() > 400 {
        let mut cut = 400;
        while !s.is_char_boundary(cut) {
            cut -= 1;
        }
        s.truncate(cut);
        s.push_str("...");
    }
    s
}

impl RefCodec for String {
    fn ref_encode(&self, out: &mut Vec<u8>) {
        out.extend_from_slice(&enc_varuint(self.len() as u64).expect("length"));
        out.extend_from_slice(self.as_bytes());
    }
    fn ref_decode(b: &mut &[u8]) -> RefResult<Self> {
        let n = rd_size(b)?;
        let raw = need(b, n)?;
        match std::str::from_utf8(raw) {
            Ok(s) => Ok(s.to_owned()),
            Err(_) => Err(Reject::InvalidUtf8),
        }
    }
    fn same(&self, other: &Self) -> bool {
        self == other
    }
    fn show(&self) -> String {
        // lossy: a decoder under test may hand back a `String` that is not UTF-8
        clip(format!("{:?}", String::from_utf8_lossy(self.as_bytes())))
    }
    fn is_trivial(&self) -> bool {
        self.is_empty()
    }
}

impl<T: RefCodec> RefCodec for Vec<T> {
    fn ref_encode(&self, out: &mut Vec<u8>) {
        out.extend_from_slice(&enc_varuint(self.len() as u64).expect("length"));
        for e in self {
            e.ref_encode(out);
        }
    }
    fn ref_decode(b: &mut &[u8]) -> RefResult<Self> {
        // the announced count is never trusted for allocation
        let n = rd_size(b)?;
        let mut out = Vec::new();
        for _ in 0..n {
            out.push(T::ref_decode(b)?);
        }
        Ok(out)
    }
    fn same(&self, other: &Self) -> bool {
        self.len() == other.len() && self.iter().zip(other).all(|(a, b)| a.same(b))
    }
    fn show(&self) -> String {
        let mut s = format!("[{}:", self.len());
        for (i, e) in self.iter().enumerate() {
            if s.len() > 400 {
                s.push_str(" ...");
                break;
            }
            if i > 0 {
                s.push(',');
            }
            s.push(' ');
            s.push_str(&e.show());
        }
        s.push(']');
        s
    }
    fn depth(&self) -> usize {
        1 + self.iter().map(|e| e.depth()).max().unwrap_or(0)
    }
    fn is_trivial(&self) -> bool {
        self.is_empty()
    }
}

fn show_entries(mut entries: Vec<(String, String)>) -> String {
    entries.sort();
    let mut s = format!("{{{}:", entries.len());
    for (i, (k, v)) in entries.iter().enumerate() {
        if s.len() > 400 {
            s.push_str(" ...");
            break;
        }
        if i > 0 {
            s.push(',');
        }
        s.push_str(&format!(" {k} => {v}"));
    }
    s.push('}');
    s
}

fn ref_decode_entries<K: RefCodec + Ord + Clone, V: RefCodec>(b: &mut &[u8]) -> RefResult<Vec<(K, V)>> {
    let n = rd_size(b)?;
    let mut seen = std::collections::BTreeSet::new();
    let mut out = Vec::new();
    for _ in 0..n {
        let k = K::ref_decode(b)?;
        let v = V::ref_decode(b)?;
        if !seen.insert(k.clone()) {
            return Err(Reject::DuplicateKey);
        }
        out.push((k, v));
    }
    Ok(out)
}

impl<K: RefCodec + Ord + Clone, V: RefCodec> RefCodec for std::collections::BTreeMap<K, V> {
    /// Ordered dictionary: entries in key order.
    fn ref_encode(&self, out: &mut Vec<u8>) {
        out.extend_from_slice(&enc_varuint(self.len() as u64).expect("length"));
        for (k, v) in self {
            k.ref_encode(out);
            v.ref_encode(out);
        }
    }
    fn ref_decode(b: &mut &[u8]) -> RefResult<Self> {
        Ok(ref_decode_entries::<K, V>(b)?.into_iter().collect())
    }
    fn same(&self, other: &Self) -> bool {
        self.len() == other.len() && self.iter().all(|(k, v)| other.get(k).map(|w| v.same(w)).unwrap_or(false))
    }
    fn show(&self) -> String {
        show_entries(self.iter().map(|(k, v)| (k.show(), v.show())).collect())
    }
    fn depth(&self) -> usize {
        1 + self.iter().map(|(k, v)| k.depth().max(v.depth())).max().unwrap_or(0)
    }
    fn is_trivial(&self) -> bool {
        self.is_empty()
    }
}

impl<K: RefCodec + Ord + Clone + std::hash::Hash, V: RefCodec> RefCodec for std::collections::HashMap<K, V> {
    /// Unordered dictionary: the wire order is the order in which *this instance* iterates (an
    /// unmodified `HashMap` iterates in the same order every time), so exact bytes can be
    /// compared; that the bytes denote the same *map* is established separately by decoding.
    fn ref_encode(&self, out: &mut Vec<u8>) {
        out.extend_from_slice(&enc_varuint(self.len() as u64).expect("length"));
        for (k, v) in self.iter() {
            k.ref_encode(out);
            v.ref_encode(out);
        }
    }
    fn ref_decode(b: &mut &[u8]) -> RefResult<Self> {
        Ok(ref_decode_entries::<K, V>(b)?.into_iter().collect())
    }
    fn same(&self, other: &Self) -> bool {
        self.len() == other.len() && self.iter().all(|(k, v)| other.get(k).map(|w| v.same(w)).unwrap_or(false))
    }
    fn show(&self) -> String {
        show_entries(self.iter().map(|(k, v)| (k.show(), v.show())).collect())
    }
    fn depth(&self) -> usize {
        1 + self.iter().map(|(k, v)| k.depth().max(v.depth())).max().unwrap_or(0)
    }
    fn is_trivial(&self) -> bool {
        self.is_empty()
    }
}

