//! Bit-level reference implementation of the Slice2 wire format, written from the statements of
//! C10 / C11 / C08 (never calls slice-codec).
//!
//! * fixed-width numbers: little-endian two's complement / IEEE-754
//! * variable-width integers: the value shifted left by two, OR-ed with a length code
//!   (0,1,2,3 -> 1,2,4,8 bytes) in the two low bits, little-endian, shortest width that holds it
//! * sizes: varuint62; strings: size + UTF-8 bytes; sequences: size + elements;
//!   dictionaries: size + (key, value) pairs, keys unique.

// ------------------------------------------------------------------------------------------
// Encoding
// ------------------------------------------------------------------------------------------

pub const VARUINT62_MAX: u64 = (1u64 << 62) - 1;
pub const VARINT62_MAX: i64 = (1i64 << 61) - 1;
pub const VARINT62_MIN: i64 = -(1i64 << 61);

/// Reference varuint encoding; None if the value is outside the 62-bit range.
pub fn enc_varuint(v: u64) -> Option<Vec<u8>> {
    if v > VARUINT62_MAX {
        return None;
    }
    // shortest of 1/2/4/8 bytes holding v << 2
    let width_code: u64 = if v < (1 << 6) {
        0
    } else if v < (1 << 14) {
        1
    } else if v < (1 << 30) {
        2
    } else {
        3
    };
    let word = (v << 2) | width_code;
    let n = 1usize << width_code;
    Some(word.to_le_bytes()[..n].to_vec())
}

/// Reference varint encoding; None if the value is outside the 62-bit range.
pub fn enc_varint(v: i64) -> Option<Vec<u8>> {
    if !(VARINT62_MIN..=VARINT62_MAX).contains(&v) {
        return None;
    }
    let fits = |bits: u32| -> bool {
        // v << 2 must be representable as a signed integer of `bits` bits
        let lo = -(1i128 << (bits - 1));
        let hi = (1i128 << (bits - 1)) - 1;
        let shifted = (v as i128) << 2;
        shifted >= lo && shifted <= hi
    };
    let width_code: u64 = if fits(8) {
        0
    } else if fits(16) {
        1
    } else if fits(32) {
        2
    } else {
        3
    };
    let word = ((v << 2) as u64) | width_code;
    let n = 1usize << width_code;
    Some(word.to_le_bytes()[..n].to_vec())
}

pub fn enc_string(s: &str) -> Vec<u8> {
    let mut out = enc_varuint(s.len() as u64).expect("string length");
    out.extend_from_slice(s.as_bytes());
    out
}

/// The `Arguments` dictionary a generator receives after the request.
pub fn enc_args(args: &[(String, String)]) -> Vec<u8> {
    let mut out = enc_varuint(args.len() as u64).expect("argument count");
    for (k, v) in args {
        out.extend(enc_string(k));
        out.extend(enc_string(v));
    }
    out
}

// ------------------------------------------------------------------------------------------
// Decoding (cursor = `&mut &[u8]`; None = reject, cursor position then unspecified)
// ------------------------------------------------------------------------------------------

pub fn take<'a>(b: &mut &'a [u8], n: usize) -> Option<&'a [u8]> {
    if b.len() < n {
        return None;
    }
    let (head, rest) = b.split_at(n);
    *b = rest;
    Some(head)
}

pub fn read_u8(b: &mut &[u8]) -> Option<u8> {
    take(b, 1).map(|x| x[0])
}

pub fn read_bool(b: &mut &[u8]) -> Option<bool> {
    match read_u8(b)? {
        0 => Some(false),
        1 => Some(true),
        _ => None,
    }
}

macro_rules! read_fixed {
    ($name:ident, $ty:ty, $n:expr) => {
        pub fn $name(b: &mut &[u8]) -> Option<$ty> {
            let raw = take(b, $n)?;
            let mut arr = [0u8; $n];
            arr.copy_from_slice(raw);
            Some(<$ty>::from_le_bytes(arr))
        }
    };
}
read_fixed!(read_u16, u16, 2);
read_fixed!(read_i16, i16, 2);
read_fixed!(read_u32, u32, 4);
read_fixed!(read_i32, i32, 4);
read_fixed!(read_u64, u64, 8);
read_fixed!(read_i64, i64, 8);

pub fn read_i8(b: &mut &[u8]) -> Option<i8> {
    read_u8(b).map(|x| x as i8)
}

pub fn read_f32_bits(b: &mut &[u8]) -> Option<u32> {
    read_u32(b)
}

pub fn read_f64_bits(b: &mut &[u8]) -> Option<u64> {
    read_u64(b)
}

/// Reads a varuint62 (any width the first byte announces; over-long encodings are legal on the wire).
pub fn read_varuint(b: &mut &[u8]) -> Option<u64> {
    let first = *b.first()?;
    let n = 1usize << (first & 3);
    let raw = take(b, n)?;
    let mut arr = [0u8; 8];
    arr[..n].copy_from_slice(raw);
    Some(u64::from_le_bytes(arr) >> 2)
}

/// Reads a varint62 (sign extended from the announced width).
pub fn read_varint(b: &mut &[u8]) -> Option<i64> {
    let first = *b.first()?;
    let n = 1usize << (first & 3);
    let raw = take(b, n)?;
    let mut arr = [0u8; 8];
    arr[..n].copy_from_slice(raw);
    let word = u64::from_le_bytes(arr);
    // sign extend from n*8 bits
    let shift = 64 - 8 * n as u32;
    let signed = ((word << shift) as i64) >> shift;
    Some(signed >> 2)
}

pub fn read_varint_as_i32(b: &mut &[u8]) -> Option<i32> {
    i32::try_from(read_varint(b)?).ok()
}

pub fn read_varuint_as_u32(b: &mut &[u8]) -> Option<u32> {
    u32::try_from(read_varuint(b)?).ok()
}

pub fn read_size(b: &mut &[u8]) -> Option<usize> {
    usize::try_from(read_varuint(b)?).ok()
}

pub fn read_string(b: &mut &[u8]) -> Option<String> {
    let n = read_size(b)?;
    let raw = take(b, n)?;
    String::from_utf8(raw.to_vec()).ok()
}

pub fn read_bytes_seq(b: &mut &[u8]) -> Option<Vec<u8>> {
    let n = read_size(b)?;
    take(b, n).map(|x| x.to_vec())
}

/// Generic sequence: the announced count is *not* trusted for allocation.
pub fn read_seq<T>(b: &mut &[u8], mut elem: impl FnMut(&mut &[u8]) -> Option<T>) -> Option<Vec<T>> {
    let n = read_size(b)?;
    let mut out = Vec::new();
    for _ in 0..n {
        out.push(elem(b)?);
    }
    Some(out)
}

/// Generic dictionary: duplicate keys reject.
pub fn read_dict<K: Ord + Clone, V>(
    b: &mut &[u8],
    mut key: impl FnMut(&mut &[u8]) -> Option<K>,
    mut value: impl FnMut(&mut &[u8]) -> Option<V>,
) -> Option<Vec<(K, V)>> {
    let n = read_size(b)?;
    let mut seen = std::collections::BTreeSet::new();
    let mut out = Vec::new();
    for _ in 0..n {
        let k = key(b)?;
        let v = value(b)?;
        if !seen.insert(k.clone()) {
            return None;
        }
        out.push((k, v));
    }
    Some(out)
}

/// Skips tagged fields up to the tag end marker (varint -1): each is `tag (varint32), size, bytes`.
pub fn skip_tagged(b: &mut &[u8]) -> Option<()> {
    loop {
        let tag = read_varint_as_i32(b)?;
        if tag == -1 {
            return Some(());
        }
        let n = read_size(b)?;
        take(b, n)?;
    }
}
