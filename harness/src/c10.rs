//! C10 — Slice encoding round-trips and matches the wire format.
//!
//! Oracle: the bit-level reference codec of `wire` (written from the statement, never calls
//! slice-codec).  For every value `v`:
//!  * `encode(v)` writes *exactly* the reference bytes (whole buffer and length, never a prefix),
//!    on the growable `Vec` target and on the fixed-slice target (canary padded);
//!  * `decode(encode(v)) == v` (floats by bit pattern, dictionaries as maps) and `remaining() == 0`
//!    (the encoding sits flush against a PROT_NONE page while it is decoded);
//!  * variable-width integers use the shortest of 1/2/4/8 bytes holding `v << 2`; values outside the
//!    62-bit range return `Err` and leave the target untouched; `decode_varint::<T>` /
//!    `decode_varuint::<T>` of a value that does not fit `T` is `Err`.
//!
//! Families: `fixed-sweep` (all 8/16-bit values, bulk), `varint-sweep` (all var-width values of
//! magnitude < 2^30 — complete in the thorough tier, stride 4099 + everything below 2^17 in the
//! quick tier, bulk), `boundary` (every integer within 64 of +-2^k, k <= 64, through every integer
//! type and every var-width entry point), `thresholds` (collections / strings whose length crosses
//! the size-prefix widths 63|64 and 16383|16384, nesting to depth 3), `values` (random values of
//! 25 static types from a choice sequence), `direct` (replay only).

use crate::engine::*;
use crate::guard::{self, CanaryBuf};
use crate::wire::{self, ref_bytes, short_type_name, RefCodec};
use crate::{check, fail};
use arbitrary::Unstructured;
use serde_json::json;
use slice_codec::buffer::slice::{SliceInputSource, SliceOutputTarget};
use slice_codec::buffer::vec::VecOutputTarget;
use slice_codec::buffer::{InputSource, OutputTarget};
use slice_codec::decoder::Decoder;
use slice_codec::encoder::Encoder;
use std::collections::{BTreeMap, HashMap};

pub struct C10;

// ------------------------------------------------------------------------------------------
// The implementation side, per static type (avoids higher-ranked bounds on `&T: EncodeInto`)
// ------------------------------------------------------------------------------------------

pub trait ImplCodec: Sized {
    fn impl_encode<O: OutputTarget>(&self, enc: &mut Encoder<O>) -> slice_codec::Result<()>;
    fn impl_decode<I: InputSource>(dec: &mut Decoder<I>) -> slice_codec::Result<Self>;
}

macro_rules! impl_codec {
    ($($t:ty),* $(,)?) => {$(
        impl ImplCodec for $t {
            fn impl_encode<O: OutputTarget>(&self, enc: &mut Encoder<O>) -> slice_codec::Result<()> {
                enc.encode(self)
            }
            fn impl_decode<I: InputSource>(dec: &mut Decoder<I>) -> slice_codec::Result<Self> {
                dec.decode::<$t>()
            }
        }
    )*};
}

impl_codec!(
    bool, u8, i8, u16, i16, u32, i32, u64, i64, f32, f64, String,
    Vec<u8>, Vec<bool>, Vec<u16>, Vec<i32>, Vec<f64>, Vec<String>,
    Vec<Vec<u8>>, Vec<Vec<u16>>, Vec<Vec<Vec<u8>>>,
    BTreeMap<u16, String>, BTreeMap<u16, u8>, HashMap<u8, u8>, HashMap<u16, bool>, HashMap<String, String>,
    BTreeMap<String, Vec<BTreeMap<u8, i64>>>, HashMap<u32, Vec<Vec<String>>>, Vec<HashMap<i16, Vec<f32>>>,
    Vec<BTreeMap<u8, i64>>, BTreeMap<u8, i64>, HashMap<i16, Vec<f32>>, Vec<f32>,
);

pub trait Menu: RefCodec + ImplCodec + 'static {}
impl<T: RefCodec + ImplCodec + 'static> Menu for T {}

// ------------------------------------------------------------------------------------------
// Generators (choice sequence -> value); shared with C11
// ------------------------------------------------------------------------------------------

#[derive(Default, Debug, Clone)]
pub struct Features {
    pub utf8_4byte: bool,
    pub utf8_multibyte: bool,
    pub nan_payload: bool,
    pub infinity: bool,
    pub subnormal: bool,
    pub neg_zero: bool,
    pub empty_string: bool,
    /// lengths (elements / bytes) of the strings and collections generated
    pub lens: Vec<usize>,
}

fn byte(u: &mut Unstructured) -> u8 {
    u.arbitrary::<u8>().unwrap_or(0)
}

/// Monotone choice of an index below `n` from one byte.
fn pick(u: &mut Unstructured, n: usize) -> usize {
    (byte(u) as usize * n) >> 8
}

/// Length of a string / collection.  `level` is the nesting level of the container (0 = top),
/// `cheap` says that elements cost one or two bytes (so long lengths are affordable).
pub fn gen_len(u: &mut Unstructured, level: usize, cheap: bool) -> usize {
    let sel = byte(u) as usize;
    if level >= 2 {
        return (sel * 4) >> 8; // 0..=3
    }
    if level == 1 {
        return match sel {
            0..=199 => (sel * 6) / 200,            // 0..=5
            200..=239 => 6 + ((sel - 200) * 10) / 40, // 6..=15
            _ => if cheap { 61 + (sel - 240) / 3 } else { 6 },  // 61..=66 (crosses 63|64)
        };
    }
    match sel {
        0..=139 => (sel * 6) / 140,                // 0..=5
        140..=189 => 6 + ((sel - 140) * 20) / 50,  // 6..=25
        190..=229 => 60 + ((sel - 190) * 8) / 40,  // 60..=67 (crosses 63|64)
        230..=244 => {
            if cheap {
                16380 + ((sel - 230) * 9) / 15     // 16380..=16388 (crosses 16383|16384)
            } else {
                62 + (sel - 230) / 4
            }
        }
        _ => 68 + (sel - 245) * 23,                // 68..=298
    }
}

const EDGE_CHARS: &[char] = &[
    'a', '\0', '\u{7f}', '\u{80}', '\u{7ff}', '\u{800}', '\u{d7ff}', '\u{e000}', '\u{fffd}', '\u{ffff}', '\u{10000}',
    '\u{1f600}', '\u{10ffff}', '\u{e9}', '\u{4e2d}', '"', '\\', '\n',
];

pub fn gen_char(u: &mut Unstructured, f: &mut Features) -> char {
    let sel = byte(u);
    let c = if sel < 120 {
        // printable ASCII
        (b' ' + (sel % 95)) as char
    } else if sel < 200 {
        EDGE_CHARS[((sel - 120) as usize * EDGE_CHARS.len()) / 80]
    } else {
        // anywhere in Unicode (surrogates are not chars: remapped)
        let v = u.arbitrary::<u32>().unwrap_or(0x41) % 0x11_0000;
        char::from_u32(v).unwrap_or('\u{fffd}')
    };
    if c.len_utf8() == 4 {
        f.utf8_4byte = true;
    }
    if c.len_utf8() > 1 {
        f.utf8_multibyte = true;
    }
    c
}

pub trait GenValue: Sized {
    /// one or two bytes on the wire
    const CHEAP: bool = false;
    fn gen(u: &mut Unstructured, level: usize, f: &mut Features) -> Self;
}

impl GenValue for bool {
    const CHEAP: bool = true;
    fn gen(u: &mut Unstructured, _level: usize, _f: &mut Features) -> Self {
        byte(u) & 1 == 1
    }
}

macro_rules! gen_int {
    ($($t:ty => $cheap:expr),*) => {$(
        impl GenValue for $t {
            const CHEAP: bool = $cheap;
            fn gen(u: &mut Unstructured, _level: usize, _f: &mut Features) -> Self {
                // biased: small, limits, powers of two +-1, uniform
                let sel = byte(u);
                let bits = <$t>::BITS;
                match sel {
                    0..=79 => (sel % 8) as $t,
                    80..=99 => <$t>::MAX,
                    100..=119 => <$t>::MIN,
                    120..=169 => {
                        let k = (byte(u) as u32) % bits;
                        let p = (1 as $t).wrapping_shl(k);
                        match sel % 3 { 0 => p, 1 => p.wrapping_sub(1), _ => p.wrapping_neg() }
                    }
                    _ => {
                        let mut raw = [0u8; 8];
                        for b in raw.iter_mut().take((bits / 8) as usize) { *b = byte(u); }
                        u64::from_le_bytes(raw) as $t
                    }
                }
            }
        }
    )*};
}
gen_int!(u8 => true, i8 => true, u16 => true, i16 => true, u32 => false, i32 => false, u64 => false, i64 => false);

impl GenValue for f32 {
    fn gen(u: &mut Unstructured, _level: usize, f: &mut Features) -> Self {
        let sel = byte(u);
        let rnd = |u: &mut Unstructured| u32::from_le_bytes([byte(u), byte(u), byte(u), byte(u)]);
        let bits: u32 = match sel {
            0..=29 => 0,
            30..=49 => 0x8000_0000,                                       // -0
            50..=69 => 1.5f32.to_bits(),
            70..=89 => 0x7f80_0000 | ((sel as u32 & 1) << 31),            // +-inf
            90..=129 => 0x7fc0_0000 | (rnd(u) & 0x803f_ffff),            // quiet NaN with payload / sign
            130..=159 => 0x7f80_0000 | (rnd(u) & 0x803f_ffff) | 1,       // signalling NaN with payload
            160..=189 => (rnd(u) & 0x807f_ffff) | 1,                      // subnormal
            _ => rnd(u),
        };
        note_float(bits as u64 & 0x7fff_ffff, 0x7f80_0000, bits >> 31 == 1, f);
        f32::from_bits(bits)
    }
}

impl GenValue for f64 {
    fn gen(u: &mut Unstructured, _level: usize, f: &mut Features) -> Self {
        let sel = byte(u);
        let rnd = |u: &mut Unstructured| {
            u64::from_le_bytes([byte(u), byte(u), byte(u), byte(u), byte(u), byte(u), byte(u), byte(u)])
        };
        let exp: u64 = 0x7ff0_0000_0000_0000;
        let bits: u64 = match sel {
            0..=29 => 0,
            30..=49 => 1 << 63,
            50..=69 => 1.5f64.to_bits(),
            70..=89 => exp | ((sel as u64 & 1) << 63),
            90..=129 => exp | (1 << 51) | (rnd(u) & 0x8007_ffff_ffff_ffff),
            130..=159 => exp | (rnd(u) & 0x8007_ffff_ffff_ffff) | 1,
            160..=189 => (rnd(u) & 0x800f_ffff_ffff_ffff) | 1,
            _ => rnd(u),
        };
        note_float(bits & !(1 << 63), exp, bits >> 63 == 1, f);
        f64::from_bits(bits)
    }
}

fn note_float(magnitude: u64, exp_mask: u64, negative: bool, f: &mut Features) {
    if magnitude & exp_mask == exp_mask {
        if magnitude == exp_mask {
            f.infinity = true;
        } else {
            // a NaN other than the canonical positive quiet NaN (top mantissa bit only)
            let mantissa = magnitude & !exp_mask;
            let quiet = (exp_mask & exp_mask.wrapping_neg()) >> 1;
            if mantissa != quiet || negative {
                f.nan_payload = true;
            }
        }
    } else if magnitude & exp_mask == 0 {
        if magnitude == 0 {
            if negative {
                f.neg_zero = true;
            }
        } else {
            f.subnormal = true;
        }
    }
}

impl GenValue for String {
    fn gen(u: &mut Unstructured, level: usize, f: &mut Features) -> Self {
        let n = gen_len(u, level, true);
        let mut s = String::new();
        if n > 300 {
            // long strings: a short random head, then a filler (one choice) up to the wanted *byte* length
            for _ in 0..8 {
                s.push(gen_char(u, f));
            }
            let filler = gen_char(u, f);
            while s.len() + filler.len_utf8() <= n {
                s.push(filler);
            }
            while s.len() < n {
                s.push('x');
            }
        } else {
            for _ in 0..n {
                s.push(gen_char(u, f));
            }
        }
        if s.is_empty() {
            f.empty_string = true;
        }
        f.lens.push(s.len());
        s
    }
}

impl<T: GenValue> GenValue for Vec<T> {
    fn gen(u: &mut Unstructured, level: usize, f: &mut Features) -> Self {
        let n = gen_len(u, level, T::CHEAP);
        f.lens.push(n);
        let mut v = Vec::with_capacity(n);
        for _ in 0..n {
            v.push(T::gen(u, level + 1, f));
        }
        v
    }
}

impl<K: GenValue + Ord, V: GenValue> GenValue for BTreeMap<K, V> {
    fn gen(u: &mut Unstructured, level: usize, f: &mut Features) -> Self {
        let n = gen_len(u, level, false).min(300);
        let mut m = BTreeMap::new();
        for _ in 0..n {
            let k = K::gen(u, level + 1, f);
            let v = V::gen(u, level + 1, f);
            m.insert(k, v);
        }
        f.lens.push(m.len());
        m
    }
}

impl<K: GenValue + std::hash::Hash + Eq, V: GenValue> GenValue for HashMap<K, V> {
    fn gen(u: &mut Unstructured, level: usize, f: &mut Features) -> Self {
        let n = gen_len(u, level, false).min(300);
        let mut m = HashMap::new();
        for _ in 0..n {
            let k = K::gen(u, level + 1, f);
            let v = V::gen(u, level + 1, f);
            m.insert(k, v);
        }
        f.lens.push(m.len());
        m
    }
}

// ------------------------------------------------------------------------------------------
// The oracle for one value of a static type
// ------------------------------------------------------------------------------------------

fn hex_clip(b: &[u8]) -> String {
    if b.len() <= 96 {
        to_hex(b)
    } else {
        format!("{}..(+{} bytes)..{}", to_hex(&b[..64]), b.len() - 80, to_hex(&b[b.len() - 16..]))
    }
}

fn first_diff(a: &[u8], b: &[u8]) -> String {
    let n = a.iter().zip(b).take_while(|(x, y)| x == y).count();
    format!("lengths {} vs {}, first difference at offset {}", a.len(), b.len(), n)
}

/// Encodes `v` with the implementation on both targets, compares with the reference bytes,
/// decodes them again.  `expected` = reference bytes (returned for labelling).
pub fn roundtrip<T: Menu>(v: &T) -> Result<Vec<u8>, Fail> {
    let ty = short_type_name::<T>();
    let expected = ref_bytes(v);

    // (0) the oracle checks itself: reference decode of reference bytes gives the value back
    {
        let mut cur: &[u8] = &expected;
        match T::ref_decode(&mut cur) {
            Ok(back) if back.same(v) && cur.is_empty() => {}
            other => {
                return Err(Fail::new(
                    "oracle-self-check",
                    format!("{ty}: reference decode(reference encode({})) = {:?}, {} bytes left", v.show(), other.map(|x| x.show()), cur.len()),
                ))
            }
        }
    }

    // (1) growable target, starting from a non-empty vector that must be preserved
    let prefix = [0xC3u8, 0x5A];
    let mut out = prefix.to_vec();
    {
        let mut enc = Encoder::new(VecOutputTarget::from(&mut out));
        if let Err(e) = v.impl_encode(&mut enc) {
            return Err(Fail::new(
                format!("encode/vec-target/err/{ty}"),
                format!("encoding {} into a Vec failed: {e:?}", v.show()),
            ));
        }
    }
    if out[..2.min(out.len())] != prefix || out.len() < 2 {
        return Err(Fail::new(
            format!("encode/vec-target/prefix-damaged/{ty}"),
            format!("the 2 bytes already in the Vec were changed: {}", hex_clip(&out)),
        ));
    }
    if out[2..] != expected[..] {
        return Err(Fail::new(
            format!("encode/vec-target/bytes/{ty}"),
            format!(
                "value {}\n expected {}\n observed {}\n ({})",
                v.show(),
                hex_clip(&expected),
                hex_clip(&out[2..]),
                first_diff(&expected, &out[2..])
            ),
        ));
    }

    // (2) fixed-slice target of exactly the reference length, between canaries
    let mut cb = CanaryBuf::new(expected.len(), |_| 0xEE);
    let (res, remaining) = {
        let mut enc = Encoder::new(SliceOutputTarget::from(cb.inner_mut()));
        let r = v.impl_encode(&mut enc);
        (r, enc.remaining())
    };
    if let Err(e) = res {
        return Err(Fail::new(
            format!("encode/slice-target/err/{ty}"),
            format!("encoding {} into a slice of exactly {} bytes failed: {e:?}", v.show(), expected.len()),
        ));
    }
    if let Err(why) = cb.check() {
        return Err(Fail::new(format!("encode/slice-target/canary/{ty}"), format!("value {}: {why}", v.show())));
    }
    if remaining != 0 || cb.inner() != &expected[..] {
        return Err(Fail::new(
            format!("encode/slice-target/bytes/{ty}"),
            format!(
                "value {}\n expected {} (remaining 0)\n observed {} (remaining {remaining})\n ({})",
                v.show(),
                hex_clip(&expected),
                hex_clip(cb.inner()),
                first_diff(&expected, cb.inner())
            ),
        ));
    }

    // (3) decode what was written (flush against a guard page)
    guard::with_arena(expected.len(), |arena| {
        let input: &[u8] = arena.place(&expected);
        let mut dec = Decoder::new(SliceInputSource::from(input));
        match T::impl_decode(&mut dec) {
            Ok(back) => {
                if !back.same(v) {
                    return Err(Fail::new(
                        format!("decode/value/{ty}"),
                        format!("bytes {}\n encoded  {}\n decoded  {}", hex_clip(&expected), v.show(), back.show()),
                    ));
                }
                if dec.remaining() != 0 {
                    return Err(Fail::new(
                        format!("decode/remaining/{ty}"),
                        format!("bytes {}: {} bytes left after decoding {}", hex_clip(&expected), dec.remaining(), v.show()),
                    ));
                }
                Ok(())
            }
            Err(e) => Err(Fail::new(
                format!("decode/err/{ty}"),
                format!("bytes {} (encoding of {}) were rejected: {e:?}", hex_clip(&expected), v.show()),
            )),
        }
    })?;
    Ok(expected)
}

// ------------------------------------------------------------------------------------------
// Variable-width integers
// ------------------------------------------------------------------------------------------

#[derive(Clone, Copy, PartialEq, Eq, Debug)]
pub enum VarKind {
    /// `encode_varint(i64)` / `decode_varint`
    Int,
    /// `encode_varuint(u64)` / `decode_varuint`
    Uint,
    /// `encode_size(usize)` / `decode_size`
    Size,
}

/// The non-bulk oracle for one variable-width value through one entry point (allocates; the
/// sweeps use `sweep_*` below).  `raw` carries the value (two's complement for `Int`).
fn check_var(kind: VarKind, raw: u64) -> Result<Option<usize>, Fail> {
    let (expected, shown): (Option<Vec<u8>>, String) = match kind {
        VarKind::Int => (wire::enc_varint(raw as i64), format!("{}", raw as i64)),
        _ => (wire::enc_varuint(raw), format!("{raw}")),
    };
    // cross-check the two formulations of the reference encoder
    let arr = match kind {
        VarKind::Int => wire::enc_varint_arr(raw as i64),
        _ => wire::enc_varuint_arr(raw),
    };
    check!(
        expected.as_deref() == arr.as_ref().map(|(w, n)| &w[..*n]),
        "oracle-self-check",
        "reference encoders disagree on {kind:?} {shown}: {expected:?} vs {arr:?}"
    );
    let name = match kind {
        VarKind::Int => "varint",
        VarKind::Uint => "varuint",
        VarKind::Size => "size",
    };
    // growable target with content that must survive
    let prefix = [0x11u8, 0x22, 0x33];
    let mut out = prefix.to_vec();
    let res = {
        let mut enc = Encoder::new(VecOutputTarget::from(&mut out));
        encode_var(&mut enc, kind, raw)
    };
    match (&expected, &res) {
        (Some(b), Ok(())) => {
            check!(
                out[..3] == prefix && out[3..] == b[..],
                format!("{name}/encode/vec-target/bytes"),
                "{name} {shown}: expected {} after the 3 existing bytes, buffer is {}",
                to_hex(b),
                to_hex(&out)
            );
        }
        (None, Err(_)) => {
            check!(
                out == prefix,
                format!("{name}/out-of-range/vec-target-touched"),
                "{name} {shown} was refused but the Vec changed from {} to {}",
                to_hex(&prefix),
                to_hex(&out)
            );
        }
        (Some(b), Err(e)) => fail!(
            format!("{name}/encode/refused-in-range"),
            "{name} {shown} is inside the 62-bit range (wire {}), but encoding failed: {e:?}",
            to_hex(b)
        ),
        (None, Ok(())) => fail!(
            format!("{name}/out-of-range/accepted"),
            "{name} {shown} is outside the 62-bit range but was encoded as {}",
            to_hex(&out[3.min(out.len())..])
        ),
    }

    // fixed target: 8 bytes (room for any width), then exactly the needed width
    let mut cb = CanaryBuf::new(8, |_| 0xEE);
    let (res, remaining) = {
        let mut enc = Encoder::new(SliceOutputTarget::from(cb.inner_mut()));
        let r = encode_var(&mut enc, kind, raw);
        (r, enc.remaining())
    };
    if let Err(why) = cb.check() {
        fail!(format!("{name}/encode/slice-target/canary"), "{name} {shown}: {why}");
    }
    match (&expected, &res) {
        (Some(b), Ok(())) => {
            let n = b.len();
            check!(
                remaining == 8 - n && cb.inner()[..n] == b[..] && cb.inner()[n..].iter().all(|x| *x == 0xEE),
                format!("{name}/encode/slice-target/bytes"),
                "{name} {shown}: expected {} then untouched 0xEE filler (remaining {}), buffer is {} (remaining {remaining})",
                to_hex(b),
                8 - n,
                to_hex(cb.inner())
            );
            let mut exact = CanaryBuf::new(n, |_| 0xEE);
            let (r2, rem2) = {
                let mut enc = Encoder::new(SliceOutputTarget::from(exact.inner_mut()));
                let r = encode_var(&mut enc, kind, raw);
                (r, enc.remaining())
            };
            check!(
                r2.is_ok() && rem2 == 0 && exact.inner() == &b[..] && exact.check().is_ok(),
                format!("{name}/encode/slice-target/exact-fit"),
                "{name} {shown}: a slice of exactly {n} bytes must take {}: result {r2:?}, remaining {rem2}, buffer {}",
                to_hex(b),
                to_hex(exact.inner())
            );
        }
        (None, Err(_)) => {
            check!(
                remaining == 8 && cb.inner().iter().all(|x| *x == 0xEE),
                format!("{name}/out-of-range/slice-target-touched"),
                "{name} {shown} was refused but the slice target changed: remaining {remaining}, buffer {}",
                to_hex(cb.inner())
            );
        }
        (Some(_), Err(e)) => fail!(format!("{name}/encode/refused-in-range"), "{name} {shown} (slice target): {e:?}"),
        (None, Ok(())) => fail!(format!("{name}/out-of-range/accepted"), "{name} {shown} (slice target): encoded as {}", to_hex(cb.inner())),
    }

    // decoding what the reference wrote, as every width the entry point offers
    if let Some(b) = &expected {
        guard::with_arena(8, |arena| -> CaseResult {
            let input: &[u8] = arena.place(b);
            match kind {
                VarKind::Int => {
                    let v = raw as i64;
                    expect_decode(name, "i64", input, |d| d.decode_varint::<i64>(), Some(v))?;
                    expect_decode(name, "i32", input, |d| d.decode_varint::<i32>(), i32::try_from(v).ok())?;
                }
                VarKind::Uint | VarKind::Size => {
                    expect_decode(name, "u64", input, |d| d.decode_varuint::<u64>(), Some(raw))?;
                    expect_decode(name, "u32", input, |d| d.decode_varuint::<u32>(), u32::try_from(raw).ok())?;
                    expect_decode(name, "usize", input, |d| d.decode_size(), usize::try_from(raw).ok())?;
                }
            }
            Ok(())
        })?;
    }
    Ok(expected.map(|b| b.len()))
}

fn encode_var<O: OutputTarget>(enc: &mut Encoder<O>, kind: VarKind, raw: u64) -> slice_codec::Result<()> {
    match kind {
        VarKind::Int => enc.encode_varint(raw as i64),
        VarKind::Uint => enc.encode_varuint(raw),
        VarKind::Size => enc.encode_size(raw as usize),
    }
}

/// Decoding `input` as `T` must give `want` (None = the value does not fit `T`: must be `Err`).
fn expect_decode<T: PartialEq + std::fmt::Debug + Copy>(
    name: &str,
    tname: &str,
    input: &[u8],
    f: impl Fn(&mut Decoder<SliceInputSource>) -> slice_codec::Result<T>,
    want: Option<T>,
) -> CaseResult {
    let mut dec = Decoder::new(SliceInputSource::from(input));
    let got = f(&mut dec);
    match (want, got) {
        (Some(w), Ok(g)) => {
            check!(
                w == g && dec.remaining() == 0,
                format!("{name}/decode/value-as-{tname}"),
                "bytes {} decoded as {tname}: expected {w:?} with nothing left, got {g:?} with {} left",
                to_hex(input),
                dec.remaining()
            );
        }
        (None, Err(_)) => {}
        (Some(w), Err(e)) => fail!(
            format!("{name}/decode/rejected-as-{tname}"),
            "bytes {} hold {w:?} which fits {tname}, but decoding failed: {e:?}",
            to_hex(input)
        ),
        (None, Ok(g)) => fail!(
            format!("{name}/decode/accepted-unfit-as-{tname}"),
            "bytes {} hold a value that does not fit {tname}, yet decoding returned {g:?}",
            to_hex(input)
        ),
    }
    Ok(())
}

/// The `direct` replay encoding of a variable-width case: kind byte (0 varint, 1 varuint, 2 size)
/// followed by the value as 8 little-endian bytes.
fn direct_var_bytes(kind: VarKind, raw: u64) -> Vec<u8> {
    let mut b = vec![match kind {
        VarKind::Int => 0u8,
        VarKind::Uint => 1,
        VarKind::Size => 2,
    }];
    b.extend_from_slice(&raw.to_le_bytes());
    b
}

// ------------------------------------------------------------------------------------------
// Bulk sweeps (custom families)
// ------------------------------------------------------------------------------------------

struct SweepScratch {
    vec_buf: Vec<u8>,
}

/// Hot-loop oracle for one value: no allocation.  Returns the width, or Err(what).
#[inline]
fn sweep_one(s: &mut SweepScratch, arena: &mut guard::GuardArena, kind: VarKind, raw: u64) -> Result<usize, &'static str> {
    let (word, n) = match kind {
        VarKind::Int => wire::enc_varint_arr(raw as i64),
        _ => wire::enc_varuint_arr(raw),
    }
    .ok_or("reference refuses an in-range value")?;
    let expected = &word[..n];
    // Vec target (reused, cleared)
    s.vec_buf.clear();
    {
        let mut enc = Encoder::new(VecOutputTarget::from(&mut s.vec_buf));
        let r = match kind {
            VarKind::Int => {
                // through the widest and the narrowest `Into<i64>` that holds the value
                enc.encode_varint(raw as i64).and_then(|_| enc.encode_varint(raw as i64 as i32))
            }
            VarKind::Uint => enc.encode_varuint(raw).and_then(|_| enc.encode_varuint(raw as u32)),
            VarKind::Size => enc.encode_size(raw as usize).and_then(|_| enc.encode_size(raw as usize)),
        };
        if r.is_err() {
            return Err("encode returned Err");
        }
    }
    if s.vec_buf.len() != 2 * n || &s.vec_buf[..n] != expected || &s.vec_buf[n..] != expected {
        return Err("Vec target bytes differ from the reference");
    }
    // slice target: 8 bytes of filler
    let mut fixed = [0xEEu8; 8];
    {
        let mut enc = Encoder::new(SliceOutputTarget::from(&mut fixed[..]));
        let r = encode_var(&mut enc, kind, raw);
        if r.is_err() {
            return Err("encode into an 8-byte slice returned Err");
        }
        if enc.remaining() != 8 - n {
            return Err("slice target: wrong remaining() after encoding");
        }
    }
    if &fixed[..n] != expected || fixed[n..].iter().any(|b| *b != 0xEE) {
        return Err("slice target bytes differ from the reference");
    }
    // decode (flush against the guard page)
    let input: &[u8] = arena.place(expected);
    let mut dec = Decoder::new(SliceInputSource::from(input));
    match kind {
        VarKind::Int => {
            match dec.decode_varint::<i64>() {
                Ok(v) if v == raw as i64 && dec.remaining() == 0 => {}
                _ => return Err("decode_varint::<i64> does not give the value back"),
            }
            let mut dec = Decoder::new(SliceInputSource::from(input));
            match dec.decode_varint::<i32>() {
                Ok(v) if v as i64 == raw as i64 && dec.remaining() == 0 => {}
                _ => return Err("decode_varint::<i32> does not give the value back"),
            }
        }
        VarKind::Uint => {
            match dec.decode_varuint::<u64>() {
                Ok(v) if v == raw && dec.remaining() == 0 => {}
                _ => return Err("decode_varuint::<u64> does not give the value back"),
            }
            let mut dec = Decoder::new(SliceInputSource::from(input));
            match dec.decode_varuint::<u32>() {
                Ok(v) if v as u64 == raw && dec.remaining() == 0 => {}
                _ => return Err("decode_varuint::<u32> does not give the value back"),
            }
        }
        VarKind::Size => match dec.decode_size() {
            Ok(v) if v as u64 == raw && dec.remaining() == 0 => {}
            _ => return Err("decode_size does not give the value back"),
        },
    }
    Ok(n)
}

const SWEEP_BITS: u32 = 30;
const QUICK_DENSE_BITS: u32 = 17;
const QUICK_STRIDE: u64 = 4099;

/// Index space of the sweep: [0, 2^30) unsigned values through `encode_varuint`, then the same
/// through `encode_size`, then 2^31 signed values -2^30 .. 2^30-1 through `encode_varint`.
fn sweep_space() -> u64 {
    (1u64 << SWEEP_BITS) * 2 + (1u64 << (SWEEP_BITS + 1))
}

fn sweep_decode_index(i: u64) -> (VarKind, u64) {
    let u = 1u64 << SWEEP_BITS;
    if i < u {
        (VarKind::Uint, i)
    } else if i < 2 * u {
        (VarKind::Size, i - u)
    } else {
        (VarKind::Int, ((i - 2 * u) as i64 - (1i64 << SWEEP_BITS)) as u64)
    }
}

fn varint_sweep(ctx: &mut ShardCtx) {
    const FAMILY: &str = "varint-sweep";
    if ctx.violation.is_some() {
        return;
    }
    let exhaustive = ctx.tier == Tier::Thorough;
    let space = sweep_space();
    let shard = ctx.shard as u64;
    let nshards = ctx.nshards as u64;
    let mut scratch = SweepScratch { vec_buf: Vec::with_capacity(32) };
    let mut arena = guard::GuardArena::new(64);
    let mut widths = [[0u64; 4]; 4]; // [kind: uint, size, int>=0, int<0][width code]
    let mut n_eval = 0u64;
    let mut n_nontrivial = 0u64;
    let mut failure: Option<(VarKind, u64, &'static str)> = None;

    let mut run = |kind: VarKind, raw: u64, ctx: &mut ShardCtx| -> bool {
        // journal every 64th value so that a crash inside the sweep is attributable to a replayable case
        if n_eval & 63 == 0 {
            let d = direct_var_bytes(kind, raw);
            ctx.journal.begin("direct", Input::Bytes(&d));
        }
        n_eval += 1;
        if raw != 0 {
            n_nontrivial += 1;
        }
        match sweep_one(&mut scratch, &mut arena, kind, raw) {
            Ok(n) => {
                let row = match kind {
                    VarKind::Uint => 0,
                    VarKind::Size => 1,
                    VarKind::Int => {
                        if (raw as i64) >= 0 {
                            2
                        } else {
                            3
                        }
                    }
                };
                widths[row][n.trailing_zeros() as usize] += 1;
                true
            }
            Err(what) => {
                failure = Some((kind, raw, what));
                false
            }
        }
    };

    let mut ok = true;
    if exhaustive {
        // contiguous interleaving: index i belongs to shard i % nshards
        let mut i = shard;
        while i < space && ok {
            let (kind, raw) = sweep_decode_index(i);
            ok = run(kind, raw, ctx);
            i += nshards;
        }
    } else {
        // (a) everything of magnitude < 2^17
        let dense = 1u64 << QUICK_DENSE_BITS;
        let mut j = shard;
        while j < dense && ok {
            ok = run(VarKind::Uint, j, ctx) && run(VarKind::Size, j, ctx) && run(VarKind::Int, j, ctx) && run(VarKind::Int, (-(j as i64) - 1) as u64, ctx);
            j += nshards;
        }
        // (b) stride 4099 through the whole space, offset from the seed
        let offset = derive_seed(ctx.seed, "C10", 0, FAMILY) % QUICK_STRIDE;
        let mut k = shard;
        while ok {
            let i = k * QUICK_STRIDE + offset;
            if i >= space {
                break;
            }
            let (kind, raw) = sweep_decode_index(i);
            ok = run(kind, raw, ctx);
            k += nshards;
        }
    }
    let _ = run;
    ctx.journal.idle();
    ctx.add_evaluations(FAMILY, n_eval, n_nontrivial, exhaustive, space);
    let names = ["varuint", "size", "varint-nonneg", "varint-neg"];
    for (row, name) in names.iter().enumerate() {
        for code in 0..4 {
            if widths[row][code] > 0 {
                ctx.bulk(&format!("{name}/width-{}", 1 << code), widths[row][code]);
            }
        }
    }
    if ctx.shard == 0 {
        ctx.add_sample(
            FAMILY,
            json!({"what": "for each value: encode on Vec and slice targets == reference bytes, decode == value, remaining()==0",
                   "example": {"varint": -8193, "wire": to_hex(&wire::enc_varint(-8193).unwrap())}}),
        );
    }
    if let Some((kind, raw, what)) = failure {
        // Re-derive the precise class with the full oracle; report as a replayable `direct` case.
        let d = direct_var_bytes(kind, raw);
        let fail = match check_var(kind, raw) {
            Err(f) => f,
            Ok(_) => Fail::new(format!("sweep/{kind:?}"), what.to_owned()),
        };
        let shown = if kind == VarKind::Int { format!("{}", raw as i64) } else { format!("{raw}") };
        ctx.report("direct", Input::Bytes(&d), fail, json!({"entry_point": format!("{kind:?}"), "value": shown, "sweep_says": what}));
    }
}

fn fixed_sweep(ctx: &mut ShardCtx) {
    const FAMILY: &str = "fixed-sweep";
    if ctx.violation.is_some() {
        return;
    }
    // 2 bools + 256 u8 + 256 i8 + 65536 u16 + 65536 i16
    let space: u64 = 2 + 256 + 256 + 65536 + 65536;
    let mut n = 0u64;
    let mut nontrivial = 0u64;
    let mut i = ctx.shard as u64;
    while i < space {
        // each value is journalled (every 64th) in the `direct` replay encoding before it is run
        macro_rules! go {
            ($t:ty, $v:expr) => {{
                let v: $t = $v;
                let d = direct_typed::<$t>(&v);
                if n & 63 == 0 {
                    ctx.journal.begin("direct", Input::Bytes(&d));
                }
                (roundtrip(&v), d)
            }};
        }
        let (r, direct): (Result<Vec<u8>, Fail>, Vec<u8>) = if i < 2 {
            go!(bool, i == 1)
        } else if i < 258 {
            go!(u8, (i - 2) as u8)
        } else if i < 514 {
            go!(i8, (i - 258) as u8 as i8)
        } else if i < 514 + 65536 {
            go!(u16, (i - 514) as u16)
        } else {
            go!(i16, (i - 514 - 65536) as u16 as i16)
        };
        n += 1;
        match r {
            Ok(bytes) => {
                if bytes.iter().any(|b| *b != 0) {
                    nontrivial += 1;
                }
            }
            Err(f) => {
                ctx.add_evaluations(FAMILY, n, nontrivial, true, space);
                ctx.report("direct", Input::Bytes(&direct), f, json!({"fixed_sweep_index": i}));
                return;
            }
        }
        i += ctx.nshards as u64;
    }
    ctx.journal.idle();
    ctx.add_evaluations(FAMILY, n, nontrivial, true, space);
    ctx.bulk("fixed/all-8-and-16-bit-values", n);
}

// ------------------------------------------------------------------------------------------
// Boundary neighbourhoods (enumerated)
// ------------------------------------------------------------------------------------------

fn boundary_candidates() -> &'static Vec<i128> {
    use std::sync::OnceLock;
    static C: OnceLock<Vec<i128>> = OnceLock::new();
    C.get_or_init(|| {
        let mut v = Vec::new();
        for k in 0..=64u32 {
            let p = 1i128 << k;
            for d in -64i128..=64 {
                v.push(p + d);
                v.push(-p + d);
            }
        }
        // range limits of every type (all are 2^k or 2^k - 1, hence already inside; kept explicit)
        for lim in [
            i8::MIN as i128, i8::MAX as i128, u8::MAX as i128, i16::MIN as i128, i16::MAX as i128, u16::MAX as i128,
            i32::MIN as i128, i32::MAX as i128, u32::MAX as i128, i64::MIN as i128, i64::MAX as i128, u64::MAX as i128,
            wire::VARINT62_MAX as i128, wire::VARINT62_MIN as i128, wire::VARUINT62_MAX as i128,
        ] {
            for d in -64i128..=64 {
                v.push(lim + d);
            }
        }
        v.retain(|c| *c >= i64::MIN as i128 && *c <= u64::MAX as i128);
        v.sort();
        v.dedup();
        v
    })
}

fn fixed_if_fits<T: Menu + TryFrom<i128>>(c: i128) -> CaseResult {
    if let Ok(v) = T::try_from(c) {
        roundtrip(&v)?;
    }
    Ok(())
}

fn boundary_value(cx: &mut CaseCtx, c: i128) -> CaseResult {
    cx.nontrivial = c != 0;
    cx.key = hash64(&("boundary", c));
    // (samples: only the width thresholds themselves, so that the other families are sampled too)
    if cx.strict || (cx.shard % 4 == 0 && [5u32, 6, 13, 14, 29, 30, 61, 62].iter().any(|k| c == 1i128 << k || c == -(1i128 << k) - 1)) {
    cx.sample_with(|| json!({"value": c.to_string(), "as_varint": wire::enc_varint(c.clamp(i64::MIN as i128, i64::MAX as i128) as i64).map(|b| to_hex(&b)), "as_varuint": u64::try_from(c).ok().and_then(wire::enc_varuint).map(|b| to_hex(&b))}));
    }
    fixed_if_fits::<u8>(c)?;
    fixed_if_fits::<i8>(c)?;
    fixed_if_fits::<u16>(c)?;
    fixed_if_fits::<i16>(c)?;
    fixed_if_fits::<u32>(c)?;
    fixed_if_fits::<i32>(c)?;
    fixed_if_fits::<u64>(c)?;
    fixed_if_fits::<i64>(c)?;
    if let Ok(v) = i64::try_from(c) {
        let w = check_var(VarKind::Int, v as u64)?;
        let sign = if v < 0 { "varint-neg" } else { "varint-nonneg" };
        match w {
            Some(n) => cx.label(format!("{sign}/width-{n}")),
            None => cx.label(if v < 0 { "varint/below-min-refused" } else { "varint/above-max-refused" }),
        }
        // thresholds, from both sides
        for k in [5u32, 13, 29, 61] {
            let t = 1i64 << k;
            if v == t - 1 {
                cx.label(format!("varint/threshold-2^{k}/below"));
            } else if v == t {
                cx.label(format!("varint/threshold-2^{k}/at"));
            } else if v == -t {
                cx.label(format!("varint/threshold--2^{k}/at"));
            } else if v == -t - 1 {
                cx.label(format!("varint/threshold--2^{k}/beyond"));
            }
        }
        // narrower `Into<i64>` sources give the same bytes
        if let Some(b) = wire::enc_varint(v) {
            let mut outs: Vec<(&str, Vec<u8>, bool)> = Vec::new();
            macro_rules! via {
                ($t:ty) => {
                    if let Ok(x) = <$t>::try_from(v) {
                        let mut out = Vec::new();
                        let ok = Encoder::new(VecOutputTarget::from(&mut out)).encode_varint(x).is_ok();
                        outs.push((stringify!($t), out, ok));
                    }
                };
            }
            via!(i8);
            via!(i16);
            via!(i32);
            for (t, out, ok) in outs {
                check!(ok && out == b, "varint/encode/via-narrow-type", "encode_varint({v}{t}) gave {} (ok={ok}), expected {}", to_hex(&out), to_hex(&b));
            }
        }
    }
    if let Ok(v) = u64::try_from(c) {
        let w = check_var(VarKind::Uint, v)?;
        match w {
            Some(n) => cx.label(format!("varuint/width-{n}")),
            None => cx.label("varuint/above-max-refused"),
        }
        let w2 = check_var(VarKind::Size, v)?;
        match w2 {
            Some(n) => cx.label(format!("size/width-{n}")),
            None => cx.label("size/above-max-refused"),
        }
        for k in [6u32, 14, 30, 62] {
            let t = 1u64 << k;
            if v == t - 1 {
                cx.label(format!("varuint/threshold-2^{k}/below"));
            } else if v == t {
                cx.label(format!("varuint/threshold-2^{k}/at"));
            }
        }
        if let Some(b) = wire::enc_varuint(v) {
            let mut outs: Vec<(&str, Vec<u8>, bool)> = Vec::new();
            macro_rules! via {
                ($t:ty) => {
                    if let Ok(x) = <$t>::try_from(v) {
                        let mut out = Vec::new();
                        let ok = Encoder::new(VecOutputTarget::from(&mut out)).encode_varuint(x).is_ok();
                        outs.push((stringify!($t), out, ok));
                    }
                };
            }
            via!(u8);
            via!(u16);
            via!(u32);
            for (t, out, ok) in outs {
                check!(ok && out == b, "varuint/encode/via-narrow-type", "encode_varuint({v}{t}) gave {} (ok={ok}), expected {}", to_hex(&out), to_hex(&b));
            }
        }
    }
    Ok(())
}

// ------------------------------------------------------------------------------------------
// Collections across the size-prefix thresholds
// ------------------------------------------------------------------------------------------

const THRESHOLD_LENS: [usize; 10] = [0, 1, 62, 63, 64, 65, 16382, 16383, 16384, 16385];
const THRESHOLD_KINDS: usize = 11;

fn sized_string(n: usize, multibyte: bool) -> String {
    let mut s = String::new();
    if multibyte {
        // byte length n out of 4-, 2- and 1-byte characters
        while s.len() + 4 <= n && s.len() < 16 {
            s.push('\u{1f600}');
        }
        while s.len() + 2 <= n {
            s.push('\u{e9}');
        }
    }
    while s.len() < n {
        s.push((b'a' + (s.len() % 26) as u8) as char);
    }
    s
}

fn threshold_case(cx: &mut CaseCtx, input: Input) -> CaseResult {
    let idx = input.index() as usize;
    let kind = idx % THRESHOLD_KINDS;
    let n = THRESHOLD_LENS[(idx / THRESHOLD_KINDS) % THRESHOLD_LENS.len()];
    cx.nontrivial = n > 0;
    cx.label(format!("size-prefix/len-{n}"));
    let b = |i: usize| (i as u8).wrapping_mul(31).wrapping_add(7);
    let (name, bytes): (&str, Vec<u8>) = match kind {
        0 => ("Vec<u8>", roundtrip(&(0..n).map(b).collect::<Vec<u8>>())?),
        1 => ("Vec<bool>", roundtrip(&(0..n).map(|i| i % 3 == 0).collect::<Vec<bool>>())?),
        2 => ("String/ascii", roundtrip(&sized_string(n, false))?),
        3 => ("String/multibyte", roundtrip(&sized_string(n, true))?),
        4 => ("Vec<u16>", roundtrip(&(0..n).map(|i| i as u16 ^ 0x5aa5).collect::<Vec<u16>>())?),
        5 => ("Vec<String>", roundtrip(&(0..n).map(|i| if i % 5 == 0 { "x".to_owned() } else { String::new() }).collect::<Vec<String>>())?),
        6 => ("BTreeMap<u16,u8>", roundtrip(&(0..n).map(|i| ((i as u16).wrapping_mul(3), b(i))).collect::<BTreeMap<u16, u8>>())?),
        7 => ("HashMap<u16,bool>", roundtrip(&(0..n).map(|i| ((i as u16).wrapping_mul(3), i % 2 == 0)).collect::<HashMap<u16, bool>>())?),
        8 => ("Vec<Vec<u8>>/outer", roundtrip(&(0..n).map(|i| if i % 7 == 0 { vec![b(i)] } else { Vec::new() }).collect::<Vec<Vec<u8>>>())?),
        9 => {
            // depth 3, the innermost length crosses the threshold
            cx.label("nested-depth-3");
            ("Vec<Vec<Vec<u8>>>/inner", roundtrip(&vec![vec![Vec::new(), (0..n).map(b).collect::<Vec<u8>>()], Vec::new()])?)
        }
        _ => {
            // depth 3, the middle length crosses the threshold (small element payloads)
            cx.label("nested-depth-3");
            let mid: Vec<Vec<u8>> = (0..n).map(|i| if i % 11 == 0 { vec![b(i), 1] } else { Vec::new() }).collect();
            ("Vec<Vec<Vec<u8>>>/middle", roundtrip(&vec![mid])?)
        }
    };
    cx.label(format!("thresholds/{name}"));
    cx.key = hash64(&(name, &bytes));
    if cx.strict || (n == 64 && cx.shard % 4 == 1) {
        cx.sample_with(|| json!({"type": name, "length": n, "wire": hex_clip(&bytes)}));
    }
    Ok(())
}

// ------------------------------------------------------------------------------------------
// Random values of the static menu
// ------------------------------------------------------------------------------------------

pub trait TypeVisitor {
    fn visit<T: Menu + GenValue>(&mut self) -> CaseResult;
}

pub const MENU_LEN: usize = 25;

pub fn dispatch_menu(idx: usize, v: &mut impl TypeVisitor) -> CaseResult {
    match idx {
        0 => v.visit::<u32>(),
        1 => v.visit::<i32>(),
        2 => v.visit::<u64>(),
        3 => v.visit::<i64>(),
        4 => v.visit::<f32>(),
        5 => v.visit::<f64>(),
        6 => v.visit::<String>(),
        7 => v.visit::<Vec<u8>>(),
        8 => v.visit::<Vec<bool>>(),
        9 => v.visit::<Vec<i32>>(),
        10 => v.visit::<Vec<f64>>(),
        11 => v.visit::<Vec<String>>(),
        12 => v.visit::<Vec<Vec<u16>>>(),
        13 => v.visit::<Vec<Vec<Vec<u8>>>>(),
        14 => v.visit::<BTreeMap<u16, String>>(),
        15 => v.visit::<HashMap<u8, u8>>(),
        16 => v.visit::<HashMap<String, String>>(),
        17 => v.visit::<BTreeMap<String, Vec<BTreeMap<u8, i64>>>>(),
        18 => v.visit::<HashMap<u32, Vec<Vec<String>>>>(),
        19 => v.visit::<Vec<HashMap<i16, Vec<f32>>>>(),
        20 => v.visit::<bool>(),
        21 => v.visit::<u8>(),
        22 => v.visit::<i8>(),
        23 => v.visit::<u16>(),
        _ => v.visit::<i16>(),
    }
}

/// `direct` replay bytes of a typed value: kind byte 3, menu index, reference encoding.
fn direct_typed<T: Menu>(v: &T) -> Vec<u8> {
    use std::sync::OnceLock;
    static NAMES: OnceLock<Vec<String>> = OnceLock::new();
    let names = NAMES.get_or_init(|| (0..MENU_LEN).map(menu_name).collect());
    let name = short_type_name::<T>();
    let idx = names.iter().position(|n| *n == name).unwrap_or(0) as u8;
    let mut b = vec![3u8, idx];
    v.ref_encode(&mut b);
    b
}

pub fn menu_name(idx: usize) -> String {
    struct N(String);
    impl TypeVisitor for N {
        fn visit<T: Menu + GenValue>(&mut self) -> CaseResult {
            self.0 = short_type_name::<T>();
            Ok(())
        }
    }
    let mut n = N(String::new());
    let _ = dispatch_menu(idx, &mut n);
    n.0
}

fn label_value<T: Menu>(cx: &mut CaseCtx, v: &T, bytes: &[u8], f: &Features) {
    let ty = short_type_name::<T>();
    cx.nontrivial = !v.is_trivial();
    cx.key = hash64(&(&ty, bytes));
    cx.label(format!("type/{ty}"));
    cx.label_if(v.depth() >= 3, "nested-depth-3");
    cx.label_if(f.utf8_4byte, "utf8-4-byte");
    cx.label_if(f.utf8_multibyte, "utf8-multibyte");
    cx.label_if(f.nan_payload, "float/nan-payload");
    cx.label_if(f.infinity, "float/infinity");
    cx.label_if(f.subnormal, "float/subnormal");
    cx.label_if(f.neg_zero, "float/negative-zero");
    cx.label_if(f.empty_string, "string/empty");
    for n in [63usize, 64, 16383, 16384] {
        cx.label_if(f.lens.contains(&n), &format!("size-prefix/len-{n}"));
    }
}

struct ValueCase<'a, 'b> {
    cx: &'a mut CaseCtx,
    u: Unstructured<'b>,
}

impl TypeVisitor for ValueCase<'_, '_> {
    fn visit<T: Menu + GenValue>(&mut self) -> CaseResult {
        let mut f = Features::default();
        let v = T::gen(&mut self.u, 0, &mut f);
        // labels first (a failing case is labelled too), bytes are only needed for the key
        let r = roundtrip(&v);
        let bytes = match &r {
            Ok(b) => b.clone(),
            Err(_) => ref_bytes(&v),
        };
        label_value(self.cx, &v, &bytes, &f);
        if r.is_err() || self.cx.strict || self.cx.shard % 4 >= 2 {
            self.cx.sample_with(|| json!({"type": short_type_name::<T>(), "value": v.show(), "wire": hex_clip(&bytes)}));
        }
        r.map(|_| ())
    }
}

fn values_case(cx: &mut CaseCtx, input: Input) -> CaseResult {
    let mut u = Unstructured::new(input.bytes());
    let idx = pick(&mut u, MENU_LEN);
    let mut vc = ValueCase { cx, u };
    dispatch_menu(idx, &mut vc)
}

// ---- direct (replay only) -------------------------------------------------------------------

struct DirectCase<'a, 'b> {
    cx: &'a mut CaseCtx,
    wire: &'b [u8],
}

impl TypeVisitor for DirectCase<'_, '_> {
    fn visit<T: Menu + GenValue>(&mut self) -> CaseResult {
        let mut cur = self.wire;
        let Ok(v) = T::ref_decode(&mut cur) else {
            // not a value of this type: nothing to round-trip
            return Ok(());
        };
        self.cx.nontrivial = true;
        self.cx.sample_with(|| json!({"type": short_type_name::<T>(), "value": v.show()}));
        roundtrip(&v).map(|_| ())
    }
}

/// Input bytes of the `direct` family:
///   `00 <8 bytes LE i64>`  one value through encode_varint / decode_varint
///   `01 <8 bytes LE u64>`  ... encode_varuint / decode_varuint
///   `02 <8 bytes LE u64>`  ... encode_size / decode_size
///   `03 <menu index> <reference wire encoding of a value of that menu type>`  full round trip
fn direct_case(cx: &mut CaseCtx, input: Input) -> CaseResult {
    let b = input.bytes();
    let Some(kind) = b.first().copied() else { return Ok(()) };
    match kind {
        0..=2 => {
            let mut raw = [0u8; 8];
            for (i, x) in b[1..].iter().take(8).enumerate() {
                raw[i] = *x;
            }
            let raw = u64::from_le_bytes(raw);
            let k = [VarKind::Int, VarKind::Uint, VarKind::Size][kind as usize];
            cx.nontrivial = true;
            cx.sample_with(|| json!({"entry_point": format!("{k:?}"), "value": if k == VarKind::Int { (raw as i64).to_string() } else { raw.to_string() }}));
            check_var(k, raw).map(|_| ())
        }
        _ => {
            let idx = b.get(1).copied().unwrap_or(0) as usize % MENU_LEN;
            let mut d = DirectCase { cx, wire: b.get(2..).unwrap_or(&[]) };
            dispatch_menu(idx, &mut d)
        }
    }
}

impl Check for C10 {
    fn id(&self) -> &'static str {
        "C10"
    }
    fn rule(&self) -> String {
        "oracle: bit-level reference codec (wire.rs) — exact output bytes on the Vec and the fixed-slice target, decode(encode(v)) == v (floats by bits, dictionaries as maps), remaining()==0, out-of-range var-width values refused with the target untouched, decode_var*::<T> of an unfit value refused. families: fixed-sweep = all bool/u8/i8/u16/i16 values; varint-sweep = encode_varuint, encode_size on [0,2^30) and encode_varint on [-2^30,2^30) (thorough: every value; quick: every magnitude < 2^17 plus stride 4099 from a seed-derived offset); boundary = every integer within 64 of +-2^k (k<=64) and of every type / 62-bit range limit through all 8 fixed-width types and the three var-width entry points; thresholds = strings/sequences/dictionaries of length 0,1,62..65,16382..16385 (11 shapes, depth up to 3); values = random values of 25 static types (scalars, f32/f64 by bit pattern incl. NaN payloads, infinities, subnormals, -0; strings over all of Unicode; Vec/BTreeMap/HashMap nested to depth 3) from a proptest choice sequence. Non-trivial = value not 0 / empty; distinct by (type, reference bytes)".into()
    }
    fn assumptions(&self) -> Vec<String> {
        vec![
            "an unordered dictionary (HashMap) is written in the iteration order of that instance; the reference uses the same instance order for the byte comparison and map equality for the value comparison".into(),
            "collection lengths at the 2^30 size-prefix threshold are not materialised (1 GiB values); that threshold is exercised through encode_size / encode_varuint directly".into(),
        ]
    }
    fn essential(&self, _tier: Tier) -> Vec<&'static str> {
        vec![
            "varuint/width-1", "varuint/width-2", "varuint/width-4", "varuint/width-8",
            "varint-nonneg/width-1", "varint-nonneg/width-2", "varint-nonneg/width-4", "varint-nonneg/width-8",
            "varint-neg/width-1", "varint-neg/width-2", "varint-neg/width-4", "varint-neg/width-8",
            "size/width-1", "size/width-2", "size/width-4", "size/width-8",
            "varuint/threshold-2^6/below", "varuint/threshold-2^6/at", "varuint/threshold-2^14/below", "varuint/threshold-2^14/at",
            "varuint/threshold-2^30/below", "varuint/threshold-2^30/at", "varuint/threshold-2^62/below", "varuint/threshold-2^62/at",
            "varint/threshold-2^5/below", "varint/threshold-2^5/at", "varint/threshold-2^13/below", "varint/threshold-2^13/at",
            "varint/threshold-2^29/below", "varint/threshold-2^29/at", "varint/threshold-2^61/below", "varint/threshold-2^61/at",
            "varint/threshold--2^5/at", "varint/threshold--2^5/beyond", "varint/threshold--2^13/at", "varint/threshold--2^13/beyond",
            "varint/threshold--2^29/at", "varint/threshold--2^29/beyond", "varint/threshold--2^61/at", "varint/threshold--2^61/beyond",
            "varuint/above-max-refused", "size/above-max-refused", "varint/above-max-refused", "varint/below-min-refused",
            "fixed/all-8-and-16-bit-values",
            "size-prefix/len-63", "size-prefix/len-64", "size-prefix/len-16383", "size-prefix/len-16384",
            "nested-depth-3", "utf8-4-byte", "float/nan-payload", "float/infinity", "float/subnormal", "float/negative-zero",
            "string/empty",
        ]
    }
    fn fuzz_families(&self, _tier: Tier) -> Vec<(&'static str, u64)> {
        // libFuzzer runs per job (16 jobs), sized from the measured speed of the instrumented build
        vec![("values", 200000)]
    }
    fn families(&self, tier: Tier) -> Vec<Family<'_>> {
        let nb = boundary_candidates().len() as u64;
        vec![
            Family::custom("fixed-sweep", fixed_sweep),
            Family::enumerate("boundary", nb, 1, |cx, i| boundary_value(cx, boundary_candidates()[i.index() as usize])),
            Family::enumerate("thresholds", (THRESHOLD_KINDS * THRESHOLD_LENS.len()) as u64, 1, threshold_case),
            Family::bytes("values", 1024, tier.pick(250_000, 1_500_000), values_case),
            Family::custom("varint-sweep", varint_sweep),
            Family::replay_only("direct", direct_case),
        ]
    }
}
