fn main(){}
