//! Instrumented fake code generator.
//!
//! slicec starts generators as `Command::new(path)` without arguments, so the behaviour is
//! selected through a side file `<argv0>.cfg` (line based `key=value`):
//!
//!   read=all|none|<n>        how much of stdin to consume before acting (default all)
//!   stderr_hex=<hex>         bytes to write to stderr
//!   reply_hex=<hex>          bytes to write to stdout (default: 00 00 = no files, no diagnostics)
//!   exit=<code>              exit status (default 0)
//!   signal=<n>               kill self with this signal instead of exiting
//!   sleep_ms=<n>             sleep before replying
//!
//! Every invocation appends one line to `<argv0>.log` and saves what it read to `<argv0>.stdin`
//! (`.stdin.<k>`, k >= 2, for further invocations; slots are claimed atomically, in no particular order).

use std::io::{Read, Write};

fn from_hex(s: &str) -> Vec<u8> {
    let s = s.trim().as_bytes();
    let val = |c: u8| -> u8 {
        match c {
            b'0'..=b'9' => c - b'0',
            b'a'..=b'f' => c - b'a' + 10,
            b'A'..=b'F' => c - b'A' + 10,
            _ => 0,
        }
    };
    let mut out = Vec::new();
    let mut i = 0;
    while i + 1 < s.len() {
        out.push(val(s[i]) << 4 | val(s[i + 1]));
        i += 2;
    }
    out
}

fn main() {
    let argv0 = std::env::args_os().next().expect("argv0");
    let base = std::path::PathBuf::from(&argv0);
    let with_ext = |ext: &str| -> std::path::PathBuf {
        let mut s = base.clone().into_os_string();
        s.push(ext);
        std::path::PathBuf::from(s)
    };
    let cfg_text = std::fs::read_to_string(with_ext(".cfg")).unwrap_or_default();
    let mut read_mode = "all".to_owned();
    let mut stderr_bytes = Vec::new();
    let mut reply = vec![0u8, 0u8];
    let mut exit_code = 0i32;
    let mut signal: Option<i32> = None;
    let mut sleep_ms = 0u64;
    for line in cfg_text.lines() {
        let Some((k, v)) = line.split_once('=') else { continue };
        match k.trim() {
            "read" => read_mode = v.trim().to_owned(),
            "stderr_hex" => stderr_bytes = from_hex(v),
            "reply_hex" => reply = from_hex(v),
            "exit" => exit_code = v.trim().parse().unwrap_or(0),
            "signal" => signal = v.trim().parse().ok(),
            "sleep_ms" => sleep_ms = v.trim().parse().unwrap_or(0),
            _ => {}
        }
    }

    // Count previous invocations through the log.
    let log_path = with_ext(".log");
    let previous = std::fs::read_to_string(&log_path).map(|t| t.lines().count()).unwrap_or(0);
    {
        let mut log = std::fs::OpenOptions::new()
            .create(true)
            .append(true)
            .open(&log_path)
            .expect("open log");
        let _ = writeln!(log, "start pid={} cwd={}", std::process::id(), std::env::current_dir().map(|p| p.display().to_string()).unwrap_or_default());
    }

    let mut input = Vec::new();
    match read_mode.as_str() {
        "none" => {}
        "all" => {
            let _ = std::io::stdin().lock().read_to_end(&mut input);
        }
        n => {
            let want: usize = n.parse().unwrap_or(0);
            let mut buf = vec![0u8; want];
            let mut got = 0;
            let mut stdin = std::io::stdin().lock();
            while got < want {
                match stdin.read(&mut buf[got..]) {
                    Ok(0) => break,
                    Ok(k) => got += k,
                    Err(_) => break,
                }
            }
            buf.truncate(got);
            input = buf;
        }
    }
    // slicec starts its generators in parallel: two invocations of the same generator may be alive
    // at once, so the slot is claimed with an exclusive create (`.stdin`, `.stdin.2`, `.stdin.3`, ...)
    let _ = previous;
    for k in 1..64 {
        let path = if k == 1 { with_ext(".stdin") } else { with_ext(&format!(".stdin.{k}")) };
        match std::fs::OpenOptions::new().write(true).create_new(true).open(&path) {
            Ok(mut f) => {
                let _ = f.write_all(&input);
                break;
            }
            Err(_) => continue,
        }
    }

    if sleep_ms > 0 {
        std::thread::sleep(std::time::Duration::from_millis(sleep_ms));
    }
    if !stderr_bytes.is_empty() {
        let _ = std::io::stderr().write_all(&stderr_bytes);
        let _ = std::io::stderr().flush();
    }
    {
        let mut out = std::io::stdout().lock();
        let _ = out.write_all(&reply);
        let _ = out.flush();
    }
    if let Some(sig) = signal {
        unsafe {
            libc::kill(libc::getpid(), sig);
        }
        // in case the signal is ignored
        std::thread::sleep(std::time::Duration::from_millis(200));
        std::process::exit(99);
    }
    std::process::exit(exit_code);
}
