//! C14 — emitted diagnostics are complete, well-formed and match the totals.
//!
//! G: bundles of diagnostic producers (errors of one phase plus lints; spans absent / single line
//! / multi-line / zero width; 0..3 notes with and without span; user-controlled text in messages
//! and file names) x {human, json} x colours {forced on, disabled} x -A lists.
//! O: the emitter's output is parsed back and compared with the `Diagnostic` accessors
//! (library level, into a Vec<u8>) and with stderr / stdout / exit status of the binary.

use crate::engine::*;
use crate::gen::pick;
use crate::proc::{self, os, CaseDir};
use crate::{check, fail};
use arbitrary::Unstructured;
use serde_json::{json, Value};
use slicec::compilation_state::CompilationState;
use slicec::diagnostic_emitter::DiagnosticEmitter;
use slicec::diagnostics::{Diagnostic, DiagnosticLevel};
use slicec::slice_options::{DiagnosticFormat, SliceOptions};
use std::time::Duration;

pub struct C14;

const TEXTS: [&str; 12] = [
    "plain",
    "with \"quotes\" inside",
    "back\\slash \\n not a newline",
    "tab\there",
    "é中🙂 non-ascii",
    "control \u{1} character",
    "</script><b>",
    "{\"json\": true, \"n\": [1,2]}",
    "percent %s %d {} {0}",
    "del \u{7f} end",
    "'single' `back` quotes",
    "a very long text a very long text a very long text a very long text a very long text a very long text a very long text a very long text a very long text a very long text a very long text",
];

fn lit(s: &str) -> String {
    let mut out = String::from("\"");
    for c in s.chars() {
        if c == '"' || c == '\\' {
            out.push('\\');
        }
        out.push(c);
    }
    out.push('"');
    out
}

/// Producers of the validation phase (errors) and lints: they can all appear together.
fn producer(kind: usize, i: usize, text: &str, tabs: bool) -> String {
    let ind = if tabs { "\t" } else { "    " };
    match kind {
        // lints
        0 => format!("[deprecated({})] struct D{i} {{}}\nstruct U{i} {{\n{ind}d: D{i}\n}}\n", lit(text)),
        1 => format!("/// Broken {{@link Nope{i}}} link é中.\nstruct B{i} {{}}\n"),
        2 => format!("/// @foo{i} unknown tag\nstruct M{i} {{}}\n"),
        3 if i % 2 == 1 => format!("/// @param someLongParameterName: a description that is long\n/// ok\ncustom I{i}\n"),
        3 => format!("/// @returns: nothing to return\ncustom I{i}\n"),
        // validation errors
        4 if tabs => format!("struct T{i} {{\n{ind}tag(1) a: int32\t\t// tabs after the span\n}}\n"),
        4 => format!("struct T{i} {{\n{ind}tag(1) a: int32\n}}\n"),
        5 => format!("struct Y{i} {{\n{ind}tag(7) a: int32?\n{ind}/* é */ tag(7) b: string?\n}}\n"),
        6 => format!("enum V{i} : uint8 {{\n{ind}A = 1\n{ind}B = 1\n}}\n"),
        7 if tabs => format!("enum W{i} : int8 {{\n{ind}A = 128\t, B\t// tabs after the span\n}}\n"),
        7 => format!("enum W{i} : int8 {{\n{ind}A = 128\n}}\n"),
        // multi-line span (the enumerator with its fields) and a note with span
        // (odd ones carry multi-byte text and a tab on the inner lines of the span)
        8 if i % 2 == 1 => format!("enum X{i} : uint8 {{\n{ind}A( // größe 中\n{ind}{ind}x: int32\t// é\n{ind}{ind}y: bool\n{ind})\n}}\n"),
        8 => format!("enum X{i} : uint8 {{\n{ind}A(\n{ind}{ind}x: int32\n{ind}{ind}y: bool\n{ind})\n}}\n"),
        9 => format!("compact struct Z{i} {{}}\n"),
        // notes without span
        10 => format!("[oneway] struct O{i} {{}}\n"),
        11 if i % 2 == 1 => format!("interface K{i} {{\n{ind}op( /* ünï */\n{ind}{ind}a: stream int32 // 中文\n{ind}{ind}b: stream int32\n{ind}{ind}c: bool\n{ind})\n}}\n"),
        11 => format!("interface K{i} {{\n{ind}op(\n{ind}{ind}a: stream int32\n{ind}{ind}b: stream int32\n{ind}{ind}c: bool\n{ind})\n}}\n"),
        12 => format!("struct H{i} {{\n{ind}d: Dictionary<float32, int8>\n}}\n"),
        13 if tabs => format!("  typealias Q{i}\t= int32?\t// tab inside and after\n"),
        13 => format!("typealias Q{i} = int32?\n"),
        14 => format!("[deprecated] [cs::x] [deprecated({})] struct R{i} {{}}\n", lit(text)),
        _ => format!("struct S{i} {{}}\n"),
    }
}

/// Producers of the attribute phase (user text inside the message).
fn attr_producer(kind: usize, i: usize, text: &str) -> String {
    match kind {
        0 => format!("[allow({})] struct A{i} {{}}\n", lit(text)),
        1 => format!("[compress({}, Args)] struct C{i} {{}}\n", lit(text)),
        2 => format!("[bogus{i}({})] struct G{i} {{}}\n", lit(text)),
        3 => format!("[deprecated({}, {})] struct P{i} {{}}\n", lit(text), lit("second")),
        _ => format!("[allow] struct L{i} {{}}\n"),
    }
}

fn strip_ansi(s: &str) -> String {
    // CSI sequences: ESC [ ... final byte in @..~
    let mut out = String::new();
    let mut it = s.chars().peekable();
    while let Some(c) = it.next() {
        if c == '\u{1b}' {
            if it.peek() == Some(&'[') {
                it.next();
                for d in it.by_ref() {
                    if ('@'..='~').contains(&d) {
                        break;
                    }
                }
            }
        } else {
            out.push(c);
        }
    }
    out
}

fn display_width(chars: &[char]) -> usize {
    chars.iter().map(|c| if *c == '\t' { 4 } else { 1 }).sum()
}

fn level_word(l: DiagnosticLevel) -> &'static str {
    match l {
        DiagnosticLevel::Error => "error",
        DiagnosticLevel::Warning => "warning",
        DiagnosticLevel::Allowed => "allowed",
    }
}

pub struct Expect {
    pub level: &'static str,
    pub code: String,
    pub message: String,
    pub span: Option<(usize, usize, usize, usize, String)>,
    pub notes: Vec<(String, Option<(usize, usize, usize, usize, String)>)>,
}

pub fn expectations(diags: &[Diagnostic]) -> Vec<Expect> {
    let sp = |s: &slicec::slice_file::Span| (s.start.row, s.start.col, s.end.row, s.end.col, s.file.clone());
    diags
        .iter()
        .map(|d| Expect {
            level: level_word(d.level()),
            code: d.code().to_owned(),
            message: d.message(),
            span: d.span().map(sp),
            notes: d.notes().iter().map(|n| (n.message.clone(), n.span.as_ref().map(sp))).collect(),
        })
        .collect()
}

fn check_json(stream: &str, expected: &[Expect]) -> CaseResult {
    let visible: Vec<&Expect> = expected.iter().filter(|e| e.level != "allowed").collect();
    check!(
        stream.is_empty() || stream.ends_with('\n'),
        "json/last-line-unterminated",
        "the JSON stream does not end with a line break: {:?}",
        &stream[stream.len().saturating_sub(60)..]
    );
    let lines: Vec<&str> = stream.lines().collect();
    check!(
        lines.len() == visible.len(),
        format!("json/line-count/{}", if lines.len() < visible.len() { "too-few" } else { "too-many" }),
        "{} JSON lines for {} diagnostics that are not silenced\n{stream}",
        lines.len(),
        visible.len()
    );
    for (line, e) in lines.iter().zip(&visible) {
        let v: Value = match serde_json::from_str(line) {
            Ok(v) => v,
            Err(err) => fail!("json/unparseable-line", "line {line:?}: {err}"),
        };
        let Some(obj) = v.as_object() else {
            fail!("json/not-an-object", "line {line:?}");
        };
        let mut keys: Vec<&str> = obj.keys().map(|k| k.as_str()).collect();
        keys.sort();
        check!(
            keys == ["error_code", "message", "notes", "severity", "span"],
            "json/keys",
            "keys {keys:?} in {line}"
        );
        check!(obj["message"].as_str() == Some(e.message.as_str()), "json/message", "expected {:?}, got {}", e.message, obj["message"]);
        check!(obj["severity"].as_str() == Some(e.level), "json/severity", "expected {}, got {}", e.level, obj["severity"]);
        check!(obj["error_code"].as_str() == Some(e.code.as_str()), "json/error_code", "expected {}, got {}", e.code, obj["error_code"]);
        let span_json = |s: &Option<(usize, usize, usize, usize, String)>| -> Value {
            match s {
                None => Value::Null,
                Some((r1, c1, r2, c2, f)) => json!({"start": {"row": r1, "col": c1}, "end": {"row": r2, "col": c2}, "file": f}),
            }
        };
        check!(obj["span"] == span_json(&e.span), "json/span", "expected {}, got {}", span_json(&e.span), obj["span"]);
        let notes: Vec<Value> = e.notes.iter().map(|(m, s)| json!({"message": m, "span": span_json(s)})).collect();
        check!(obj["notes"] == Value::Array(notes.clone()), "json/notes", "expected {:?}, got {}", notes, obj["notes"]);
    }
    Ok(())
}

/// Parses one snippet at `lines[*i..]` and checks it against the span and the file text.
pub fn check_snippet(lines: &[&str], i: &mut usize, span: &(usize, usize, usize, usize, String), file_text: &str, what: &str) -> CaseResult {
    let (r1, c1, r2, c2, file) = span;
    let arrow = format!(" --> {file}:{r1}:{c1}");
    check!(
        lines.get(*i) == Some(&arrow.as_str()),
        format!("human/{what}/location-line"),
        "expected {arrow:?}, got {:?}",
        lines.get(*i)
    );
    *i += 1;
    let gutter = r2.to_string().len() + 1;
    let blank = format!("{}|", " ".repeat(gutter));
    check!(lines.get(*i) == Some(&blank.as_str()), format!("human/{what}/snippet-frame"), "expected {blank:?}, got {:?}", lines.get(*i));
    *i += 1;
    let src_lines: Vec<&str> = file_text.lines().collect();
    for row in *r1..=*r2 {
        let Some(src) = src_lines.get(row - 1) else {
            // a span may point one line past the end (EOF after a final line break): no line shown
            continue;
        };
        let shown = format!("{:<gutter$}| {}", row, src.replace('\t', "    "));
        check!(
            lines.get(*i).map(|l| l.trim_end_matches('\r')) == Some(shown.trim_end_matches('\r')),
            format!("human/{what}/source-line"),
            "row {row}: expected {shown:?}, got {:?}",
            lines.get(*i)
        );
        *i += 1;
        let chars: Vec<char> = src.chars().collect();
        let from = if row == *r1 { c1 - 1 } else { 0 };
        let to = if row == *r2 { c2 - 1 } else { chars.len() };
        let before = display_width(&chars[..from.min(chars.len())]);
        let underline = if from == to {
            format!("{}|{}/\\", " ".repeat(gutter), " ".repeat(before))
        } else {
            let width = display_width(&chars[from.min(chars.len())..to.min(chars.len())]) + to.saturating_sub(chars.len().max(from));
            format!("{}| {}{}", " ".repeat(gutter), " ".repeat(before), "-".repeat(width))
        };
        check!(
            lines.get(*i) == Some(&underline.as_str()),
            format!("human/{what}/underline"),
            "row {row} (span {r1}:{c1}-{r2}:{c2}): expected {underline:?}, got {:?}\n source line {src:?}",
            lines.get(*i)
        );
        *i += 1;
    }
    check!(lines.get(*i) == Some(&blank.as_str()), format!("human/{what}/snippet-frame"), "expected closing {blank:?}, got {:?}", lines.get(*i));
    *i += 1;
    Ok(())
}

pub fn check_human(stream: &str, expected: &[Expect], texts: &dyn Fn(&str) -> Option<String>) -> Result<(usize, usize), Fail> {
    let plain = strip_ansi(stream);
    let lines: Vec<&str> = plain.split('\n').collect();
    let mut i = 0usize;
    let (mut warnings, mut errors) = (0, 0);
    for e in expected.iter().filter(|e| e.level != "allowed") {
        // header; a message may itself contain line breaks? (none of ours do)
        let header = format!("{} [{}]: {}", e.level, e.code, e.message);
        check!(
            lines.get(i) == Some(&header.as_str()),
            "human/header",
            "expected header {header:?}, got {:?} (line {i})\n{plain}",
            lines.get(i)
        );
        i += 1;
        if e.level == "error" {
            errors += 1;
        } else {
            warnings += 1;
        }
        if let Some(span) = &e.span {
            let Some(text) = texts(&span.4) else {
                fail!("human/span-in-unknown-file", "span in {}", span.4);
            };
            check_snippet(&lines, &mut i, span, &text, "diagnostic")?;
        }
        for (m, s) in &e.notes {
            let nl = format!("note: {m}");
            check!(lines.get(i) == Some(&nl.as_str()), "human/note", "expected {nl:?}, got {:?}\n{plain}", lines.get(i));
            i += 1;
            if let Some(span) = s {
                let Some(text) = texts(&span.4) else {
                    fail!("human/span-in-unknown-file", "note span in {}", span.4);
                };
                check_snippet(&lines, &mut i, span, &text, "note")?;
            }
        }
    }
    // nothing else on the stream
    check!(
        lines[i..].iter().all(|l| l.is_empty()) && lines.len() - i <= 1,
        "human/trailing-output",
        "unexpected output after the last diagnostic: {:?}",
        &lines[i..]
    );
    Ok((warnings, errors))
}

fn no_trace_of_allowed(stream: &str, expected: &[Expect]) -> CaseResult {
    let visible_msgs: Vec<&str> = expected.iter().filter(|e| e.level != "allowed").map(|e| e.message.as_str()).collect();
    for e in expected.iter().filter(|e| e.level == "allowed") {
        if visible_msgs.contains(&e.message.as_str()) {
            continue;
        }
        check!(
            !strip_ansi(stream).contains(&e.message),
            "allowed-lint-leaves-trace",
            "the silenced {} lint's message {:?} appears in the output",
            e.code,
            e.message
        );
    }
    Ok(())
}

fn case(cx: &mut CaseCtx, input: Input) -> CaseResult {
    let mut u = Unstructured::new(input.bytes());
    let dir = CaseDir::new(&cx.workdir, cx.shard, cx.case_no);
    let bundle = pick(&mut u, 6);
    let json_mode = pick(&mut u, 2) == 1;
    let colour_forced = pick(&mut u, 2) == 1;
    let disable_color = pick(&mut u, 3) == 0;
    let allow: Vec<String> = match pick(&mut u, 5) {
        1 => vec!["All".into()],
        2 => vec!["Deprecated".into()],
        3 => vec!["BrokenDocLink".into(), "MalformedDocComment".into()],
        4 => vec!["IncorrectDocComment".into(), "DuplicateFile".into()],
        _ => vec![],
    };
    let tabs = pick(&mut u, 3) == 0;
    let crlf = pick(&mut u, 4) == 0;
    // (two of the paths end in another one: `a.slice` / `sub dir/a.slice`, `sub dir/b.slice` / `up/sub dir/b.slice`)
    const NAMES: [&str; 9] = [
        "a.slice",
        "sub dir/a.slice",
        "with space.slice",
        "quo\"te.slice",
        "ünï中.slice",
        "up/sub dir/b.slice",
        "sub dir/b.slice",
        "per%cent.slice",
        "back\\slash.slice",
    ];
    let nfiles = 1 + pick(&mut u, 3);
    let cross_file_note = nfiles >= 2 && matches!(bundle, 0 | 1) && pick(&mut u, 3) == 0;
    cx.label_if(cross_file_note, "note-in-another-file");
    let mut files: Vec<(String, String)> = Vec::new();
    let mut counter = 0;
    for f in 0..nfiles {
        let name = NAMES[(pick(&mut u, NAMES.len()) + f) % NAMES.len()].to_owned();
        if files.iter().any(|x| x.0 == name) {
            continue;
        }
        let mut text = format!("module M{f}\n");
        let n = pick(&mut u, 9);
        for _ in 0..n {
            counter += 1;
            let t = TEXTS[pick(&mut u, TEXTS.len())];
            match bundle {
                0 | 1 => text.push_str(&producer(pick(&mut u, 16), counter, t, tabs)),
                2 => text.push_str(&producer(pick(&mut u, 4), counter, t, tabs)), // lints only
                3 => text.push_str(&attr_producer(pick(&mut u, 5), counter, t)),
                4 => {
                    text.push_str(&producer(pick(&mut u, 4), counter, t, tabs));
                }
                _ => text.push_str(&format!("struct Ok{counter} {{}}\n")),
            }
        }
        // a diagnostic whose note points into another file: an operation that shadows one inherited
        // from an interface of the first file
        if cross_file_note && f == 0 {
            text.push_str("interface Base0 {\n    op() // é\n}\n");
        }
        if cross_file_note && f == nfiles - 1 && f > 0 {
            text.push_str(&format!("interface Derived{f} : M0::Base0 {{\n\t op()\n}}\n"));
        }
        if bundle == 4 {
            // one syntax error per file: unterminated body -> zero-width span at the end of input
            match pick(&mut u, 4) {
                // (a malformed preprocessor directive: reported by the preprocessor, with the file's path)
                3 => text.push_str(&format!("#if\nstruct Cond{f} {{}}\n#endif\n")),
                0 => text.push_str(&format!("struct Open{f} {{\n")),
                1 => text.push_str(&format!("struct Bad{f} {{ a: }}\n")),
                _ => text.push_str(&format!("interface I{f} {{ op() -> (a: int32) }}\n")),
            }
        }
        if crlf {
            text = text.replace('\n', "\r\n");
        }
        files.push((name, text));
    }
    let mut sources: Vec<String> = files.iter().map(|f| f.0.clone()).collect();
    for (name, text) in &files {
        dir.write(name, text.as_bytes());
    }
    let io_error = bundle == 1 && pick(&mut u, 3) == 0;
    if io_error {
        sources.push("does not exist.slice".into());
    }
    let duplicate = bundle == 2 && pick(&mut u, 3) == 0;
    if duplicate {
        sources.push(format!("./{}", files[0].0));
    }
    cx.label(format!("bundle-{bundle}"));
    cx.label(if json_mode { "format-json" } else { "format-human" });
    cx.label_if(colour_forced && !disable_color, "colours-on");
    cx.label_if(disable_color, "colours-disabled");
    cx.label_if(!allow.is_empty(), "allow-list");
    cx.label_if(tabs, "tabs");
    cx.label_if(crlf, "crlf");

    let options = SliceOptions {
        sources: sources.clone(),
        allowed_lints: allow.clone(),
        diagnostic_format: if json_mode { DiagnosticFormat::Json } else { DiagnosticFormat::Human },
        disable_color,
        ..Default::default()
    };
    std::env::set_current_dir(&dir.path).expect("chdir");
    console::set_colors_enabled(colour_forced);
    console::set_colors_enabled_stderr(colour_forced);
    let CompilationState { ast, diagnostics, files: sfiles } = slicec::compile_from_options(&options);
    let diags = diagnostics.into_updated(&ast, &sfiles, &options);
    let expected = expectations(&diags);
    // Expectations that do not come from the implementation's own list.
    // (0) every location lies inside the text of the file it names
    {
        let text_of0 = |name: &str| -> Option<&String> { files.iter().find(|f| f.0 == name || format!("./{}", f.0) == name).map(|f| &f.1) };
        for e in &expected {
            for (what, sp) in std::iter::once(("diagnostic", &e.span)).chain(e.notes.iter().map(|n| ("note", &n.1))) {
                let Some(sp) = sp else { continue };
                let Some(t) = text_of0(&sp.4) else {
                    fail!(format!("location/unknown-file/{}", e.code), "{what} of {} names the file {:?}, which is none of {:?}", e.code, sp.4, files.iter().map(|f| &f.0).collect::<Vec<_>>());
                };
                let lens: Vec<usize> = t.split('\n').map(|l| l.chars().count()).collect();
                let inside = |r: usize, c: usize| r >= 1 && r <= lens.len() && c >= 1 && c <= lens[r - 1] + 1;
                check!(
                    inside(sp.0, sp.1) && inside(sp.2, sp.3) && (sp.0, sp.1) <= (sp.2, sp.3),
                    format!("location/outside-file/{}", e.code),
                    "{what} of {} ({:?}): span {}:{}..{}:{} is not inside {:?} ({} lines)",
                    e.code,
                    e.message,
                    sp.0,
                    sp.1,
                    sp.2,
                    sp.3,
                    sp.4,
                    lens.len()
                );
            }
        }
    }
    // (a) what the command line suppresses: a lint named by -A (any case) or covered by All is not shown
    for e in expected.iter().filter(|e| e.level == "warning") {
        let named = allow.iter().any(|a| a.eq_ignore_ascii_case("All") || a.eq_ignore_ascii_case(&e.code));
        check!(
            !named,
            format!("suppressed-on-command-line-but-shown/{}", e.code),
            "-A {allow:?} names {} ({:?}, span {:?}), yet it is still a warning",
            e.code,
            e.message,
            e.span
        );
    }
    // (b) the order of recording: files are parsed in the order given, each from top to bottom, so the
    // diagnostics of the parsing phase (syntax errors, malformed doc comments) come file by file and
    // in source order within a file
    {
        let file_rank = |name: &str| sources.iter().position(|s| s == name || s.trim_start_matches("./") == name.trim_start_matches("./"));
        let mut last: Option<(usize, usize, usize)> = None;
        let mut parse_phase = 0;
        for e in expected.iter().filter(|e| e.code == "MalformedDocComment" || e.code == "E002") {
            let Some(sp) = &e.span else { continue };
            let Some(rank) = file_rank(&sp.4) else { continue };
            let here = (rank, sp.0, sp.1);
            parse_phase += 1;
            if let Some(prev) = last {
                check!(
                    prev <= here,
                    "recording-order/parse-phase",
                    "diagnostics of the parsing phase are out of order: {} at file #{} {}:{} comes after file #{} {}:{}\n sources {sources:?}\n list {:?}",
                    e.code,
                    here.0,
                    here.1,
                    here.2,
                    prev.0,
                    prev.1,
                    prev.2,
                    expected.iter().map(|e| (e.code.as_str(), e.span.as_ref().map(|s| (s.4.as_str(), s.0, s.1)))).collect::<Vec<_>>()
                );
            }
            last = Some(here);
        }
        cx.label_if(parse_phase >= 3 && files.len() >= 2, "parse-phase-diagnostics-in-several-files");
    }
    let n_visible = expected.iter().filter(|e| e.level != "allowed").count();
    cx.nontrivial = n_visible >= 2 || expected.iter().any(|e| e.message.contains('"') || e.message.contains('\\') || !e.message.is_ascii());
    cx.label_if(expected.iter().any(|e| e.span.is_none() && e.level != "allowed"), "span-less-diagnostic");
    cx.label_if(expected.iter().any(|e| e.notes.is_empty()), "note-less-diagnostic");
    cx.label_if(expected.iter().any(|e| e.notes.iter().any(|n| n.1.is_none())), "note-without-span");
    cx.label_if(expected.iter().any(|e| e.notes.iter().any(|n| n.1.is_some())), "note-with-span");
    cx.label_if(
        expected.iter().any(|e| e.level != "allowed" && e.notes.iter().any(|n| matches!((&n.1, &e.span), (Some(ns), Some(ds)) if ns.4 != ds.4))),
        "note-span-in-another-file",
    );
    cx.label_if(expected.iter().any(|e| e.span.as_ref().map(|s| s.2 > s.0).unwrap_or(false)), "multi-line-span");
    cx.label_if(expected.iter().any(|e| e.span.as_ref().map(|s| (s.0, s.1) == (s.2, s.3)).unwrap_or(false)), "zero-width-span");
    cx.label_if(expected.iter().any(|e| e.span.as_ref().map(|s| !s.4.is_ascii()).unwrap_or(false)), "non-ascii-file-name");
    cx.label_if(expected.is_empty(), "zero-diagnostics");
    cx.label_if(!expected.is_empty() && n_visible == 0, "everything-allowed");
    cx.label_if(expected.iter().any(|e| e.level == "allowed"), "some-allowed");
    cx.label_if(n_visible >= 10, "ten-or-more-diagnostics");
    cx.sample_with(|| json!({"sources": sources, "files": files.iter().map(|f| json!({"name": f.0, "text": f.1})).collect::<Vec<_>>(), "format": if json_mode {"json"} else {"human"}, "allow": allow, "disable_color": disable_color, "diagnostics": expected.iter().map(|e| format!("{} {}", e.level, e.code)).collect::<Vec<_>>()}));

    // library level
    let mut out: Vec<u8> = Vec::new();
    {
        let mut emitter = DiagnosticEmitter::new(&mut out, &options, &sfiles);
        if let Err(e) = emitter.emit_diagnostics(diags) {
            fail!("emitter-io-error", "{e}");
        }
    }
    let stream = match String::from_utf8(out) {
        Ok(s) => s,
        Err(_) => fail!("emitter-invalid-utf8", "the emitter wrote invalid UTF-8"),
    };
    if disable_color {
        check!(!stream.contains('\u{1b}'), "escape-sequence-with-colours-disabled", "library level: ESC in the output: {stream:?}");
    }
    let text_of = |name: &str| -> Option<String> { files.iter().find(|f| f.0 == name || format!("./{}", f.0) == name).map(|f| f.1.clone()) };
    let (lib_w, lib_e) = if json_mode {
        check_json(&stream, &expected)?;
        (
            expected.iter().filter(|e| e.level == "warning").count(),
            expected.iter().filter(|e| e.level == "error").count(),
        )
    } else {
        check_human(&stream, &expected, &text_of)?
    };
    no_trace_of_allowed(&stream, &expected)?;
    let (exp_w, exp_e) = (
        expected.iter().filter(|e| e.level == "warning").count(),
        expected.iter().filter(|e| e.level == "error").count(),
    );
    check!(lib_w == exp_w && lib_e == exp_e, "human/counts", "headers: {lib_w} warnings {lib_e} errors; diagnostics: {exp_w} / {exp_e}");
    let totals = slicec::diagnostics::get_totals(&[]);
    let _ = totals;

    // binary level
    let mut argv: Vec<std::ffi::OsString> = sources.iter().map(|s| os(s)).collect();
    for a in &allow {
        argv.push(os("-A"));
        argv.push(os(a));
    }
    if json_mode {
        argv.push(os("--diagnostic-format=json"));
    }
    if disable_color {
        argv.push(os("--disable-color"));
    }
    // when the compilation has no error, generators run: a failing one adds its own error and must
    // not cost any of the diagnostics recorded before
    let mut failing: Vec<String> = Vec::new();
    // a generator that succeeds may report diagnostics of its own in its reply: whatever slicec does with
    // their text, none of it belongs on the diagnostic stream
    let mut talking = 0usize;
    if exp_e == 0 {
        let ngen = pick(&mut u, 3);
        for g in 0..ngen {
            match pick(&mut u, 4) {
                3 => {
                    let n = 1 + pick(&mut u, 3);
                    let diags: Vec<Vec<u8>> = (0..n)
                        .map(|k| {
                            let level = pick(&mut u, 3) as u8;
                            let source = if pick(&mut u, 2) == 1 { Some("talk.slice") } else { None };
                            crate::c11::enc_diag(level, &format!("generator {g} says {k} at level {level}"), source, &[])
                        })
                        .collect();
                    let reply = crate::c11::reply_of(&[], &diags);
                    dir.install_generator(&format!("talk{g}"), &format!("reply_hex={}\n", to_hex(&reply)));
                    argv.push(os(&format!("--generator=./talk{g}")));
                    talking += 1;
                }
                0 => {
                    dir.install_generator(&format!("good{g}"), "");
                    argv.push(os(&format!("--generator=./good{g}")));
                }
                1 => {
                    argv.push(os(&format!("--generator=./missing{g}")));
                    failing.push(format!("./missing{g}"));
                }
                _ => {
                    dir.install_generator(&format!("bad{g}"), "exit=3\n");
                    argv.push(os(&format!("--generator=./bad{g}")));
                    failing.push(format!("./bad{g}"));
                }
            }
        }
        cx.label_if(!failing.is_empty() && exp_w > 0, "failing-generator-after-warnings");
        cx.label_if(talking > 0, "generator-reply-with-diagnostics");
    }
    let env: Vec<(&str, &str)> = if colour_forced { vec![("CLICOLOR_FORCE", "1")] } else { vec![("NO_COLOR", "1")] };
    let r = proc::run_slicec(&dir.path, &argv, &env, Duration::from_secs(20));
    if let Some(c) = r.crashed() {
        fail!(format!("slicec-crash/{c}"), "argv {argv:?}: {}", r.stderr_text());
    }
    let stderr = r.stderr_text();
    let stdout = r.stdout_text();
    if disable_color {
        check!(!stderr.contains('\u{1b}') && !stdout.contains('\u{1b}'), "escape-sequence-with-colours-disabled", "binary level: ESC in stderr/stdout");
    }
    let plain_err = strip_ansi(&stderr);
    let plain_lib = strip_ansi(&stream);
    check!(
        plain_err.starts_with(&plain_lib),
        "binary/stderr-differs-from-library",
        "argv {argv:?}\n--- binary stderr ---\n{stderr}\n--- library emitter ---\n{stream}"
    );
    // the rest of the stream: exactly one error per failing generator, in order
    let rest: Vec<&str> = plain_err[plain_lib.len()..].lines().collect();
    check!(
        rest.len() == failing.len(),
        "binary/generator-errors",
        "argv {argv:?}: {} failing generators but the stream continues with {:?}",
        failing.len(),
        rest
    );
    for (line, g) in rest.iter().zip(&failing) {
        let ok = if json_mode {
            serde_json::from_str::<Value>(line)
                .ok()
                .map(|v| v["severity"] == "error" && v["error_code"] == "E001" && v["message"].as_str().map(|m| m.contains(g.as_str())).unwrap_or(false))
                .unwrap_or(false)
        } else {
            line.starts_with("error [E001]: ") && line.contains(g.as_str())
        };
        check!(ok, "binary/generator-error-shape", "argv {argv:?}: expected an E001 naming {g}, got {line:?}");
    }
    let exp_e = exp_e + failing.len();
    if json_mode {
        // (what a talking generator's own messages do to stdout is not this property's subject)
        check!(talking > 0 || stdout.is_empty(), "binary/json-mode-stdout-not-empty", "stdout: {stdout:?}");
    } else {
        let so = strip_ansi(&stdout);
        let mut want = String::new();
        if exp_w > 0 {
            want.push_str(&format!("Warnings: Compilation generated {exp_w} warning(s)\n"));
        }
        if exp_e > 0 {
            want.push_str(&format!("Failed: Compilation failed with {exp_e} error(s)\n"));
        }
        let totals_ok = if talking > 0 { so.ends_with(&want) && (!want.is_empty() || !so.contains("Compilation")) } else { so == want };
        check!(totals_ok, "binary/totals", "argv {argv:?}: totals {so:?}, expected {want:?}");
    }
    check!(
        r.code == Some(if exp_e > 0 { 1 } else { 0 }),
        "binary/exit-status",
        "argv {argv:?}: exit status {:?} with {exp_e} errors",
        r.code
    );
    Ok(())
}

impl Check for C14 {
    fn id(&self) -> &'static str {
        "C14"
    }
    fn rule(&self) -> String {
        "proptest choice sequences -> 1..3 real files (names with spaces, quotes, non-ASCII, sub-directories; tabs; CRLF) built from bundles of diagnostic producers: validation-phase errors + all four doc/deprecation lints (spans single-line / multi-line, notes with and without span), attribute-phase errors carrying user text (quotes, backslashes, control and non-ASCII characters, 190 characters), syntax errors (zero-width span at end of input), I/O errors (no span), duplicate files, lints only, nothing at all; x {human, json} x colours {forced on, off, --disable-color} x five -A lists. Oracle: the emitter's output (library level, Vec<u8>) is parsed back: JSON = exactly one object per non-silenced diagnostic, in order, with exactly the five keys equal to the accessors, nothing else; human = header, location line, snippet (line numbers start.row..=end.row, tab = 4 cells, underline exactly the spanned cells, zero-width pointer) and notes for every non-silenced diagnostic in order, nothing else; silenced lints leave no trace; no ESC with colours disabled; binary (generators drawn when there is no error: succeeding, missing, failing, succeeding with diagnostics of their own in the reply): stderr equals the library output plus exactly one E001 per failing generator, totals on stdout equal the header counts (none in JSON mode), exit status 1 <=> errors. Non-trivial = >= 2 diagnostics or text that needs JSON escaping".into()
    }
    fn assumptions(&self) -> Vec<String> {
        vec![
            "user text contains no ESC character and no line break".into(),
            "which diagnostics a program produces is C04's subject; here the emitted stream is compared with the recorded diagnostics".into(),
        ]
    }
    fn essential(&self, _tier: Tier) -> Vec<&'static str> {
        vec![
            "format-json",
            "format-human",
            "colours-on",
            "colours-disabled",
            "allow-list",
            "span-less-diagnostic",
            "note-less-diagnostic",
            "note-without-span",
            "note-with-span",
            "note-span-in-another-file",
            "multi-line-span",
            "zero-width-span",
            "non-ascii-file-name",
            "zero-diagnostics",
            "everything-allowed",
            "some-allowed",
            "ten-or-more-diagnostics",
            "tabs",
            "crlf",
            "failing-generator-after-warnings",
            "generator-reply-with-diagnostics",
        ]
    }
    fn needs_binary(&self) -> bool {
        true
    }
    fn families(&self, tier: Tier) -> Vec<Family<'_>> {
        vec![Family::bytes("streams", 96, tier.pick(1_200, 12_000), case)]
    }
}
