//! Engine shared by all checks: supervisor / worker processes, crash journal, proptest and
//! bounded-exhaustive drivers, evidence accounting, known findings, replay.
//!
//! Exit contract (see DESIGN.md 2.3): 0 = held on everything explored, 1 = violation
//! (a `VIOLATION property=<id> replay=<path>` line is printed), 2 = infrastructure problem.

use proptest::test_runner::{Config, RngSeed, TestCaseError, TestError, TestRunner};
use serde::{Deserialize, Serialize};
use serde_json::{json, Value};
use std::cell::RefCell;
use std::collections::{BTreeMap, BTreeSet, HashSet};
use std::io::Write;
use std::path::{Path, PathBuf};
use std::time::{Duration, Instant};

pub const NSHARDS: usize = 16;
/// Root of the verification tree: `./check` exports VERIF_ROOT (its own directory), so that a snapshot
/// of /verif elsewhere (vp run) works on its own target/work/evidence directories.
pub fn verif_root() -> &'static str {
    static ROOT: std::sync::OnceLock<String> = std::sync::OnceLock::new();
    ROOT.get_or_init(|| std::env::var("VERIF_ROOT").ok().filter(|s| !s.is_empty()).unwrap_or_else(|| "/verif".to_owned()))
}

// ------------------------------------------------------------------------------------------
// Basic types
// ------------------------------------------------------------------------------------------

#[derive(Clone, Copy, PartialEq, Eq, Debug)]
pub enum Tier {
    Quick,
    Thorough,
}

impl Tier {
    pub fn parse(s: &str) -> Option<Tier> {
        match s {
            "quick" => Some(Tier::Quick),
            "thorough" => Some(Tier::Thorough),
            _ => None,
        }
    }
    pub fn name(self) -> &'static str {
        match self {
            Tier::Quick => "quick",
            Tier::Thorough => "thorough",
        }
    }
    pub fn pick<T>(self, quick: T, thorough: T) -> T {
        match self {
            Tier::Quick => quick,
            Tier::Thorough => thorough,
        }
    }
}

/// A failed oracle: `class` is the short structural mismatch label (shrinking keeps it fixed,
/// known findings are keyed on it), `detail` the human readable expected-vs-observed text.
#[derive(Clone, Debug, Serialize, Deserialize)]
pub struct Fail {
    pub class: String,
    pub detail: String,
}

impl Fail {
    pub fn new(class: impl Into<String>, detail: impl Into<String>) -> Fail {
        Fail {
            class: class.into(),
            detail: detail.into(),
        }
    }
}

pub type CaseResult = Result<(), Fail>;

#[macro_export]
macro_rules! fail {
    ($class:expr, $($arg:tt)*) => {
        return Err($crate::engine::Fail::new($class, format!($($arg)*)))
    };
}

#[macro_export]
macro_rules! check {
    ($cond:expr, $class:expr, $($arg:tt)*) => {
        if !($cond) {
            return Err($crate::engine::Fail::new($class, format!($($arg)*)));
        }
    };
}

#[derive(Clone, Copy)]
pub enum Input<'a> {
    Bytes(&'a [u8]),
    Index(u64),
}

impl<'a> Input<'a> {
    pub fn bytes(&self) -> &'a [u8] {
        match self {
            Input::Bytes(b) => b,
            Input::Index(_) => &[],
        }
    }
    pub fn index(&self) -> u64 {
        match self {
            Input::Index(i) => *i,
            Input::Bytes(_) => 0,
        }
    }
}

/// Per-case context handed to the oracle.
pub struct CaseCtx {
    pub labels: Vec<String>,
    pub nontrivial: bool,
    /// Hash identifying the case for the distinctness count (set by the case; 0 = derive from input).
    pub key: u64,
    /// The engine wants a written-out sample of this case (set `sample`).
    pub want_sample: bool,
    pub sample: Option<Value>,
    /// Replay / regression mode: no known-finding tolerance.
    pub strict: bool,
    pub known_hits: Vec<String>,
    pub tier: Tier,
    pub workdir: PathBuf,
    pub shard: usize,
    pub case_no: u64,
}

impl CaseCtx {
    pub fn label(&mut self, l: impl Into<String>) {
        self.labels.push(l.into());
    }
    pub fn label_if(&mut self, c: bool, l: &str) {
        if c {
            self.labels.push(l.to_owned());
        }
    }
    pub fn set_key<H: std::hash::Hash>(&mut self, h: &H) {
        self.key = hash64(h);
    }
    /// Called by an oracle that recognises the signature of a listed open finding.  Returns
    /// true if the finding is listed as open and the run is not strict: the case is then
    /// tolerated and counted under `excluded_known`.
    pub fn tolerate_known(&mut self, finding: &str) -> bool {
        if !self.strict && known_findings().is_open(finding) {
            self.known_hits.push(finding.to_owned());
            true
        } else {
            false
        }
    }
    pub fn sample_with(&mut self, f: impl FnOnce() -> Value) {
        if self.want_sample && self.sample.is_none() {
            let v = f();
            if RENDER_MODE.load(std::sync::atomic::Ordering::Relaxed) {
                // `vcheck render`: the written-out form is all that is wanted; stop before the code
                // under test runs (it may crash or hang on this very input)
                println!("RENDERED {}", serde_json::to_string(&v).unwrap_or_default());
                let _ = std::io::stdout().flush();
                let _ = std::fs::remove_dir_all(format!("{}/work/render.{}", verif_root(), std::process::id()));
                std::process::exit(0);
            }
            self.sample = Some(v);
        }
    }
}

pub fn hash64<H: std::hash::Hash>(h: &H) -> u64 {
    use std::hash::Hasher;
    // FNV-1a based, deterministic across processes (std's SipHash with fixed keys would be too).
    struct Fnv(u64);
    impl Hasher for Fnv {
        fn finish(&self) -> u64 {
            self.0
        }
        fn write(&mut self, bytes: &[u8]) {
            for b in bytes {
                self.0 ^= *b as u64;
                self.0 = self.0.wrapping_mul(0x100000001b3);
            }
        }
    }
    let mut f = Fnv(0xcbf29ce484222325);
    h.hash(&mut f);
    let mut x = f.finish();
    // final avalanche
    x ^= x >> 33;
    x = x.wrapping_mul(0xff51afd7ed558ccd);
    x ^= x >> 33;
    x
}

pub enum Gen {
    /// Choice-sequence property testing: proptest generates `vec(u8, 0..=max_len)`, `cases` per shard.
    Bytes { max_len: usize, cases: u32 },
    /// Bounded-exhaustive enumeration of `total` indices; `stride` > 1 samples every stride-th index
    /// (offset derived from the seed) and is then not reported as exhaustive.
    Enum { total: u64, stride: u64 },
    /// The check drives the shard context itself (bulk sweeps).
    Custom,
}

pub struct Family<'a> {
    pub name: &'static str,
    pub gen: Gen,
    pub case: Option<Box<dyn Fn(&mut CaseCtx, Input) -> CaseResult + 'a>>,
    pub custom: Option<Box<dyn Fn(&mut ShardCtx) + 'a>>,
}

impl<'a> Family<'a> {
    pub fn bytes(
        name: &'static str,
        max_len: usize,
        cases: u32,
        f: impl Fn(&mut CaseCtx, Input) -> CaseResult + 'a,
    ) -> Family<'a> {
        Family {
            name,
            gen: Gen::Bytes { max_len, cases },
            case: Some(Box::new(f)),
            custom: None,
        }
    }
    pub fn enumerate(
        name: &'static str,
        total: u64,
        stride: u64,
        f: impl Fn(&mut CaseCtx, Input) -> CaseResult + 'a,
    ) -> Family<'a> {
        Family {
            name,
            gen: Gen::Enum { total, stride: stride.max(1) },
            case: Some(Box::new(f)),
            custom: None,
        }
    }
    pub fn custom(name: &'static str, f: impl Fn(&mut ShardCtx) + 'a) -> Family<'a> {
        Family {
            name,
            gen: Gen::Custom,
            case: None,
            custom: Some(Box::new(f)),
        }
    }
    /// A family that is only reachable through replay / regression files (e.g. "direct" text input).
    pub fn replay_only(name: &'static str, f: impl Fn(&mut CaseCtx, Input) -> CaseResult + 'a) -> Family<'a> {
        Family {
            name,
            gen: Gen::Bytes { max_len: 0, cases: 0 },
            case: Some(Box::new(f)),
            custom: None,
        }
    }
}

pub trait Check: Sync {
    fn id(&self) -> &'static str;
    fn level(&self) -> &'static str {
        "exploration"
    }
    /// How cases are generated and what makes one non-trivial / distinct.
    fn rule(&self) -> String;
    fn assumptions(&self) -> Vec<String> {
        Vec::new()
    }
    /// Labels that must have been hit at least once, otherwise the run is a hollow pass (exit 2).
    fn essential(&self, _tier: Tier) -> Vec<&'static str> {
        Vec::new()
    }
    fn needs_binary(&self) -> bool {
        false
    }
    /// Whether a repeated time-out is a violation of this property ("terminates").
    fn timeout_is_violation(&self) -> bool {
        false
    }
    fn case_timeout(&self) -> Duration {
        Duration::from_secs(20)
    }
    fn families(&self, tier: Tier) -> Vec<Family<'_>>;
    /// Byte-vector families that the coverage-guided stage of the thorough tier also drives, with
    /// the number of libFuzzer runs per job (in-process families only; see `fuzzstage`).
    fn fuzz_families(&self, _tier: Tier) -> Vec<(&'static str, u64)> {
        Vec::new()
    }
    /// Extra coverage keys for the evidence file.
    fn extra_coverage(&self, _tier: Tier) -> Value {
        json!({})
    }
}

// ------------------------------------------------------------------------------------------
// Known findings
// ------------------------------------------------------------------------------------------

#[derive(Clone, Debug, Serialize, Deserialize)]
pub struct Finding {
    pub id: String,
    pub properties: Vec<String>,
    /// "open" or "fixed"
    pub status: String,
    #[serde(default)]
    pub commit: String,
    pub what: String,
    /// Mismatch-class prefixes that identify this finding.
    #[serde(default)]
    pub classes: Vec<String>,
}

#[derive(Default)]
pub struct KnownFindings {
    pub findings: Vec<Finding>,
}

impl KnownFindings {
    pub fn is_open(&self, id: &str) -> bool {
        self.findings.iter().any(|f| f.id == id && f.status == "open")
    }
    pub fn open_for(&self, prop: &str) -> Vec<&Finding> {
        self.findings
            .iter()
            .filter(|f| f.status == "open" && f.properties.iter().any(|p| p == prop))
            .collect()
    }
    /// An open finding of `prop` whose class list matches `class` by prefix.
    pub fn match_class(&self, prop: &str, class: &str) -> Option<&Finding> {
        self.open_for(prop)
            .into_iter()
            .find(|f| f.classes.iter().any(|c| class.starts_with(c.as_str())))
    }
}

pub fn known_findings() -> &'static KnownFindings {
    use std::sync::OnceLock;
    static KF: OnceLock<KnownFindings> = OnceLock::new();
    KF.get_or_init(|| {
        let path = std::env::var("VCHECK_KNOWN_FINDINGS").unwrap_or_else(|_| format!("{root}/known_findings.json", root = verif_root()));
        match std::fs::read_to_string(&path) {
            Ok(text) => {
                let v: Value = serde_json::from_str(&text).unwrap_or_else(|e| {
                    eprintln!("vcheck: cannot parse {path}: {e}");
                    std::process::exit(2)
                });
                let findings: Vec<Finding> =
                    serde_json::from_value(v.get("findings").cloned().unwrap_or(json!([]))).unwrap_or_else(|e| {
                        eprintln!("vcheck: bad findings in {path}: {e}");
                        std::process::exit(2)
                    });
                KnownFindings { findings }
            }
            Err(_) => KnownFindings::default(),
        }
    })
}

// ------------------------------------------------------------------------------------------
// Violations / replay files
// ------------------------------------------------------------------------------------------

#[derive(Clone, Debug, Serialize, Deserialize)]
pub struct ReplayInput {
    pub property: String,
    pub family: String,
    /// "bytes" or "index"
    pub kind: String,
    #[serde(default)]
    pub bytes_hex: String,
    #[serde(default)]
    pub index: u64,
    /// Regression files: "pass" (a fixed finding: must hold now) or "known:<finding id>".
    #[serde(default)]
    pub expect: String,
    #[serde(default)]
    pub note: String,
}

#[derive(Clone, Debug, Serialize, Deserialize)]
pub struct Violation {
    pub property: String,
    pub family: String,
    pub class: String,
    pub detail: String,
    pub input: ReplayInput,
    #[serde(default)]
    pub rendered: Value,
    #[serde(default)]
    pub shrink_steps: u64,
}

pub fn to_hex(b: &[u8]) -> String {
    let mut s = String::with_capacity(b.len() * 2);
    for x in b {
        s.push_str(&format!("{x:02x}"));
    }
    s
}

pub fn from_hex(s: &str) -> Vec<u8> {
    let s = s.as_bytes();
    let mut out = Vec::with_capacity(s.len() / 2);
    let val = |c: u8| -> u8 {
        match c {
            b'0'..=b'9' => c - b'0',
            b'a'..=b'f' => c - b'a' + 10,
            b'A'..=b'F' => c - b'A' + 10,
            _ => 0,
        }
    };
    let mut i = 0;
    while i + 1 < s.len() {
        out.push(val(s[i]) << 4 | val(s[i + 1]));
        i += 2;
    }
    out
}

// ------------------------------------------------------------------------------------------
// Statistics
// ------------------------------------------------------------------------------------------

#[derive(Default, Clone, Debug, Serialize, Deserialize)]
pub struct FamilyStats {
    pub cases: u64,
    pub nontrivial: u64,
    pub exhaustive: bool,
    pub space: u64,
    pub wall_ms: u64,
}

#[derive(Default, Serialize, Deserialize)]
pub struct Stats {
    pub evaluations: u64,
    /// Hashes of distinct non-trivial cases (random families).
    pub nontrivial_keys: HashSet<u64>,
    /// Non-trivial cases of exhaustive enumerations: distinct by construction, counted directly.
    pub nontrivial_enumerated: u64,
    pub labels: BTreeMap<String, u64>,
    pub families: BTreeMap<String, FamilyStats>,
    pub samples: Vec<Value>,
    /// Fallback sample of a trivial case, used only when no non-trivial sample exists anywhere.
    #[serde(default)]
    pub trivial_sample: Option<Value>,
    pub known: BTreeMap<String, u64>,
    pub notes: Vec<String>,
    pub known_lines: BTreeSet<String>,
}

const MAX_SAMPLES_PER_SHARD: usize = 3;
const MAX_KEYS_PER_SHARD: usize = 4_000_000;

impl Stats {
    pub fn merge(&mut self, other: Stats) {
        self.evaluations += other.evaluations;
        self.nontrivial_keys.extend(other.nontrivial_keys);
        self.nontrivial_enumerated += other.nontrivial_enumerated;
        for (k, v) in other.labels {
            *self.labels.entry(k).or_default() += v;
        }
        for (k, v) in other.families {
            let e = self.families.entry(k).or_default();
            e.cases += v.cases;
            e.nontrivial += v.nontrivial;
            e.exhaustive |= v.exhaustive;
            e.space = e.space.max(v.space);
            e.wall_ms = e.wall_ms.max(v.wall_ms);
        }
        self.samples.extend(other.samples);
        if self.trivial_sample.is_none() {
            self.trivial_sample = other.trivial_sample;
        }
        for (k, v) in other.known {
            *self.known.entry(k).or_default() += v;
        }
        self.notes.extend(other.notes);
        self.known_lines.extend(other.known_lines);
    }
}

#[derive(Default, Serialize, Deserialize)]
pub struct ShardResult {
    pub stats: Stats,
    pub violation: Option<Violation>,
    pub finished: bool,
}

// ------------------------------------------------------------------------------------------
// Crash journal (mmap'ed file, written before every case)
// ------------------------------------------------------------------------------------------

const JOURNAL_SIZE: usize = 1 << 20;
const J_SEQ: usize = 0;
const J_START_MS: usize = 8;
const J_KIND: usize = 16;
const J_LEN: usize = 20;
const J_INDEX: usize = 24;
const J_FAMILY: usize = 32; // 64 bytes, NUL padded
const J_DATA: usize = 96;

pub struct Journal {
    ptr: *mut u8,
    epoch: Instant,
    seq: u64,
}

unsafe impl Send for Journal {}

impl Journal {
    pub fn create(path: &Path) -> Journal {
        use std::os::unix::io::AsRawFd;
        let f = std::fs::OpenOptions::new()
            .read(true)
            .write(true)
            .create(true)
            .truncate(true)
            .open(path)
            .expect("journal create");
        f.set_len(JOURNAL_SIZE as u64).expect("journal size");
        let ptr = unsafe {
            libc::mmap(
                std::ptr::null_mut(),
                JOURNAL_SIZE,
                libc::PROT_READ | libc::PROT_WRITE,
                libc::MAP_SHARED,
                f.as_raw_fd(),
                0,
            )
        };
        assert!(ptr != libc::MAP_FAILED, "journal mmap failed");
        Journal {
            ptr: ptr as *mut u8,
            epoch: Instant::now(),
            seq: 0,
        }
    }

    fn put_u64(&self, off: usize, v: u64) {
        unsafe { std::ptr::copy_nonoverlapping(v.to_le_bytes().as_ptr(), self.ptr.add(off), 8) }
    }
    fn put_u32(&self, off: usize, v: u32) {
        unsafe { std::ptr::copy_nonoverlapping(v.to_le_bytes().as_ptr(), self.ptr.add(off), 4) }
    }

    pub fn begin(&mut self, family: &str, input: Input) {
        let (kind, data, index): (u32, &[u8], u64) = match input {
            Input::Bytes(b) => (1, b, 0),
            Input::Index(i) => (2, &[], i),
        };
        let n = data.len().min(JOURNAL_SIZE - J_DATA);
        unsafe {
            let fam = family.as_bytes();
            let fl = fam.len().min(63);
            std::ptr::write_bytes(self.ptr.add(J_FAMILY), 0, 64);
            std::ptr::copy_nonoverlapping(fam.as_ptr(), self.ptr.add(J_FAMILY), fl);
            std::ptr::copy_nonoverlapping(data.as_ptr(), self.ptr.add(J_DATA), n);
        }
        self.put_u32(J_KIND, kind);
        self.put_u32(J_LEN, n as u32);
        self.put_u64(J_INDEX, index);
        self.put_u64(J_START_MS, self.epoch.elapsed().as_millis() as u64 + 1);
        self.seq += 1;
        self.put_u64(J_SEQ, self.seq);
    }

    /// Marks "no case running" (between families, while writing results).
    pub fn idle(&mut self) {
        self.put_u64(J_START_MS, 0);
    }
}

pub struct JournalRecord {
    pub seq: u64,
    pub start_ms: u64,
    pub family: String,
    pub kind: u32,
    pub index: u64,
    pub data: Vec<u8>,
}

pub fn read_journal(path: &Path) -> Option<JournalRecord> {
    let raw = std::fs::read(path).ok()?;
    if raw.len() < J_DATA {
        return None;
    }
    let u64_at = |o: usize| u64::from_le_bytes(raw[o..o + 8].try_into().unwrap());
    let u32_at = |o: usize| u32::from_le_bytes(raw[o..o + 4].try_into().unwrap());
    let seq = u64_at(J_SEQ);
    if seq == 0 {
        return None;
    }
    let fam = &raw[J_FAMILY..J_FAMILY + 64];
    let fam_len = fam.iter().position(|b| *b == 0).unwrap_or(64);
    let len = (u32_at(J_LEN) as usize).min(raw.len() - J_DATA);
    Some(JournalRecord {
        seq,
        start_ms: u64_at(J_START_MS),
        family: String::from_utf8_lossy(&fam[..fam_len]).into_owned(),
        kind: u32_at(J_KIND),
        index: u64_at(J_INDEX),
        data: raw[J_DATA..J_DATA + len].to_vec(),
    })
}

// ------------------------------------------------------------------------------------------
// Panic capture
// ------------------------------------------------------------------------------------------

thread_local! {
    static LAST_PANIC: RefCell<Option<(String, String)>> = const { RefCell::new(None) };
}

pub fn install_panic_hook() {
    std::panic::set_hook(Box::new(|info| {
        let loc = info
            .location()
            .map(|l| {
                let f = l.file();
                // keep the path relative to the repository / crate
                let short = f.rsplit_once("/repo/").map(|x| x.1).unwrap_or(f);
                format!("{}:{}", short, l.line())
            })
            .unwrap_or_else(|| "?".into());
        let msg = if let Some(s) = info.payload().downcast_ref::<&str>() {
            (*s).to_owned()
        } else if let Some(s) = info.payload().downcast_ref::<String>() {
            s.clone()
        } else {
            "<non-string panic payload>".to_owned()
        };
        LAST_PANIC.with(|p| *p.borrow_mut() = Some((loc, msg)));
    }));
}

/// Runs `f`, converting an unwinding panic into a `Fail` of class `panic@<file>:<line>`.
pub fn guarded<T>(f: impl FnOnce() -> T) -> Result<T, Fail> {
    match std::panic::catch_unwind(std::panic::AssertUnwindSafe(f)) {
        Ok(v) => Ok(v),
        Err(_) => {
            let (loc, msg) = LAST_PANIC
                .with(|p| p.borrow_mut().take())
                .unwrap_or_else(|| ("?".into(), "?".into()));
            let mut m = msg.replace('\n', " ");
            if m.len() > 300 {
                let mut cut = 300;
                while !m.is_char_boundary(cut) {
                    cut -= 1;
                }
                m.truncate(cut);
            }
            Err(Fail::new(format!("panic@{loc}"), format!("panicked at {loc}: {m}")))
        }
    }
}

// ------------------------------------------------------------------------------------------
// Shard context and drivers
// ------------------------------------------------------------------------------------------

pub struct ShardCtx {
    pub prop: &'static str,
    pub tier: Tier,
    pub seed: u64,
    pub shard: usize,
    pub nshards: usize,
    pub workdir: PathBuf,
    pub stats: Stats,
    pub violation: Option<Violation>,
    pub journal: Journal,
    pub case_no: u64,
    pub strict: bool,
}

pub fn derive_seed(seed: u64, prop: &str, shard: usize, family: &str) -> u64 {
    hash64(&(seed, prop, shard as u64, family))
}

impl ShardCtx {
    fn new_case_ctx(&self, want_sample: bool) -> CaseCtx {
        CaseCtx {
            labels: Vec::new(),
            nontrivial: false,
            key: 0,
            want_sample,
            sample: None,
            strict: self.strict,
            known_hits: Vec::new(),
            tier: self.tier,
            workdir: self.workdir.clone(),
            shard: self.shard,
            case_no: self.case_no,
        }
    }

    /// Accounts one executed case of a random (not enumerated) family.
    pub fn account_case(&mut self, family: &str, cx: CaseCtx, input: Input) {
        self.account(family, cx, input, false)
    }

    /// Accounts one executed case.
    fn account(&mut self, family: &str, cx: CaseCtx, input: Input, enumerated: bool) {
        self.stats.evaluations += 1;
        let fs = self.stats.families.entry(family.to_owned()).or_default();
        fs.cases += 1;
        if cx.nontrivial {
            fs.nontrivial += 1;
            if enumerated {
                self.stats.nontrivial_enumerated += 1;
            } else if self.stats.nontrivial_keys.len() < MAX_KEYS_PER_SHARD {
                let key = if cx.key != 0 {
                    cx.key
                } else {
                    match input {
                        Input::Bytes(b) => hash64(&(family, b)),
                        Input::Index(i) => hash64(&(family, i)),
                    }
                };
                self.stats.nontrivial_keys.insert(key);
            }
        }
        for l in cx.labels {
            *self.stats.labels.entry(l).or_default() += 1;
        }
        for k in cx.known_hits {
            *self.stats.known.entry(k).or_default() += 1;
        }
        if let Some(s) = cx.sample {
            // Non-trivial cases are preferred; a shard that has no sample at all yet keeps a trivial
            // one (marked) so that an evidence record never ends up without samples.
            if cx.nontrivial && self.stats.samples.len() < MAX_SAMPLES_PER_SHARD {
                self.stats.samples.push(json!({"family": family, "case": s}));
            } else if !cx.nontrivial && self.stats.samples.is_empty() && self.stats.trivial_sample.is_none() {
                self.stats.trivial_sample = Some(json!({"family": family, "case": s, "trivial": true}));
            }
        }
    }

    pub fn bulk(&mut self, label: &str, n: u64) {
        *self.stats.labels.entry(label.to_owned()).or_default() += n;
    }

    fn want_sample(&self) -> bool {
        self.stats.samples.len() < MAX_SAMPLES_PER_SHARD
    }

    fn make_violation(&self, family: &str, input: Input, fail: Fail, rendered: Value, steps: u64) -> Violation {
        let (kind, hex, index) = match input {
            Input::Bytes(b) => ("bytes", to_hex(b), 0),
            Input::Index(i) => ("index", String::new(), i),
        };
        Violation {
            property: self.prop.to_owned(),
            family: family.to_owned(),
            class: fail.class,
            detail: fail.detail,
            input: ReplayInput {
                property: self.prop.to_owned(),
                family: family.to_owned(),
                kind: kind.to_owned(),
                bytes_hex: hex,
                index,
                expect: String::new(),
                note: String::new(),
            },
            rendered,
            shrink_steps: steps,
        }
    }

    /// Runs one case through the oracle with panic capture; returns (ctx, result).
    pub fn exec(
        &mut self,
        family: &str,
        f: &dyn Fn(&mut CaseCtx, Input) -> CaseResult,
        input: Input,
        want_sample: bool,
    ) -> (CaseCtx, CaseResult) {
        self.case_no += 1;
        self.journal.begin(family, input);
        let mut cx = self.new_case_ctx(want_sample);
        let r = match guarded(|| f(&mut cx, input)) {
            Ok(r) => r,
            Err(panic_fail) => Err(panic_fail),
        };
        (cx, r)
    }

    pub fn run_family(&mut self, fam: &Family) {
        if self.violation.is_some() {
            return;
        }
        let t0 = Instant::now();
        match &fam.gen {
            Gen::Custom => {
                if let Some(c) = &fam.custom {
                    c(self);
                }
            }
            Gen::Bytes { max_len, cases } => {
                if *cases > 0 {
                    self.run_bytes(fam.name, *max_len, *cases, fam.case.as_ref().unwrap().as_ref());
                }
            }
            Gen::Enum { total, stride } => {
                self.run_enum(fam.name, *total, *stride, fam.case.as_ref().unwrap().as_ref());
            }
        }
        self.journal.idle();
        let fs = self.stats.families.entry(fam.name.to_owned()).or_default();
        fs.wall_ms = t0.elapsed().as_millis() as u64;
    }

    fn run_bytes(&mut self, family: &str, max_len: usize, cases: u32, f: &dyn Fn(&mut CaseCtx, Input) -> CaseResult) {
        let seed = derive_seed(self.seed, self.prop, self.shard, family);
        let config = Config {
            cases,
            failure_persistence: None,
            rng_seed: RngSeed::Fixed(seed),
            max_shrink_iters: 3000,
            max_global_rejects: 1 << 30,
            ..Config::default()
        };
        let mut runner = TestRunner::new(config);
        let strategy = proptest::collection::vec(proptest::num::u8::ANY, 0..=max_len);
        // State shared with the closure (proptest wants `Fn`).
        struct St<'s> {
            ctx: &'s mut ShardCtx,
            first_fail: Option<String>,
            shrink_steps: u64,
        }
        let st = RefCell::new(St {
            ctx: self,
            first_fail: None,
            shrink_steps: 0,
        });
        let result = runner.run(&strategy, |bytes: Vec<u8>| {
            let mut st = st.borrow_mut();
            let input = Input::Bytes(&bytes);
            if let Some(class) = st.first_fail.clone() {
                // Shrinking: keep the mismatch class fixed.
                st.shrink_steps += 1;
                let (_cx, r) = st.ctx.exec(family, f, input, false);
                return match r {
                    Err(fl) if fl.class == class => Err(TestCaseError::fail(fl.class)),
                    _ => Ok(()),
                };
            }
            let want = st.ctx.want_sample();
            let (cx, r) = st.ctx.exec(family, f, input, want);
            match r {
                Ok(()) => {
                    st.ctx.account(family, cx, input, false);
                    Ok(())
                }
                Err(fl) => {
                    st.ctx.account(family, cx, input, false);
                    st.first_fail = Some(fl.class.clone());
                    Err(TestCaseError::fail(fl.class))
                }
            }
        });
        let St { first_fail, shrink_steps: steps, .. } = st.into_inner();
        match result {
            Ok(()) => {}
            Err(TestError::Fail(_reason, value)) => {
                // Re-run the minimal value to obtain detail and rendering.
                let input = Input::Bytes(&value);
                let (cx, r) = self.exec(family, f, input, true);
                let fail = match r {
                    Err(fl) => fl,
                    Ok(()) => Fail::new(
                        first_fail.clone().unwrap_or_default(),
                        "minimal value passed on re-run (flaky oracle?)",
                    ),
                };
                let rendered = cx.sample.unwrap_or(Value::Null);
                self.violation = Some(self.make_violation(family, input, fail, rendered, steps));
            }
            Err(TestError::Abort(reason)) => {
                self.stats.notes.push(format!("family {family}: proptest aborted: {reason}"));
            }
        }
    }

    fn run_enum(&mut self, family: &str, total: u64, stride: u64, f: &dyn Fn(&mut CaseCtx, Input) -> CaseResult) {
        let exhaustive = stride == 1;
        let offset = if stride > 1 {
            derive_seed(self.seed, self.prop, 0, family) % stride
        } else {
            0
        };
        {
            let fs = self.stats.families.entry(family.to_owned()).or_default();
            fs.exhaustive = exhaustive;
            fs.space = total;
        }
        let n = self.nshards as u64;
        let mut k = self.shard as u64; // k-th sampled index
        loop {
            let Some(i) = k.checked_mul(stride).and_then(|x| x.checked_add(offset)) else { break };
            if i >= total {
                break;
            }
            let input = Input::Index(i);
            let want = self.want_sample();
            let (cx, r) = self.exec(family, f, input, want);
            match r {
                Ok(()) => self.account(family, cx, input, exhaustive),
                Err(fl) => {
                    self.account(family, cx, input, exhaustive);
                    let (cx2, _r2) = self.exec(family, f, input, true);
                    let rendered = cx2.sample.unwrap_or(Value::Null);
                    self.violation = Some(self.make_violation(family, input, fl, rendered, 0));
                    return;
                }
            }
            k += n;
        }
    }

    /// For custom families: run and account a single case identified by bytes.
    pub fn custom_case(
        &mut self,
        family: &str,
        input: Input,
        f: &dyn Fn(&mut CaseCtx, Input) -> CaseResult,
        enumerated: bool,
    ) -> bool {
        if self.violation.is_some() {
            return false;
        }
        let want = self.want_sample();
        let (cx, r) = self.exec(family, f, input, want);
        match r {
            Ok(()) => {
                self.account(family, cx, input, enumerated);
                true
            }
            Err(fl) => {
                self.account(family, cx, input, enumerated);
                let (cx2, _) = self.exec(family, f, input, true);
                let rendered = cx2.sample.unwrap_or(Value::Null);
                self.violation = Some(self.make_violation(family, input, fl, rendered, 0));
                false
            }
        }
    }

    /// For bulk sweeps that do their own comparison: report a failure found at `input`.
    pub fn report(&mut self, family: &str, input: Input, fail: Fail, rendered: Value) {
        if self.violation.is_none() {
            self.violation = Some(self.make_violation(family, input, fail, rendered, 0));
        }
    }

    pub fn add_evaluations(&mut self, family: &str, n: u64, nontrivial: u64, exhaustive: bool, space: u64) {
        self.stats.evaluations += n;
        let fs = self.stats.families.entry(family.to_owned()).or_default();
        fs.cases += n;
        fs.nontrivial += nontrivial;
        fs.exhaustive = exhaustive;
        fs.space = fs.space.max(space);
        self.stats.nontrivial_enumerated += nontrivial;
    }

    pub fn add_sample(&mut self, family: &str, v: Value) {
        if self.stats.samples.len() < MAX_SAMPLES_PER_SHARD {
            self.stats.samples.push(json!({"family": family, "case": v}));
        }
    }
}

// ------------------------------------------------------------------------------------------
// Regressions (seconds-long replay tier) — run by shard 0 before anything else
// ------------------------------------------------------------------------------------------

fn load_regressions(prop: &str) -> Vec<(PathBuf, ReplayInput)> {
    let dir = PathBuf::from(format!("{root}/regressions/{prop}", root = verif_root()));
    let mut out = Vec::new();
    let Ok(rd) = std::fs::read_dir(&dir) else { return out };
    let mut paths: Vec<PathBuf> = rd.filter_map(|e| e.ok().map(|e| e.path())).collect();
    paths.sort();
    for p in paths {
        if p.extension().and_then(|e| e.to_str()) != Some("json") {
            continue;
        }
        match std::fs::read_to_string(&p)
            .ok()
            .and_then(|t| serde_json::from_str::<ReplayInput>(&t).ok())
        {
            Some(r) => out.push((p, r)),
            None => {
                eprintln!("vcheck: unreadable regression file {}", p.display());
                std::process::exit(2);
            }
        }
    }
    out
}

fn run_one_replay(ctx: &mut ShardCtx, families: &[Family], rep: &ReplayInput, strict: bool) -> (CaseResult, Value) {
    let Some(fam) = families.iter().find(|f| f.name == rep.family) else {
        return (
            Err(Fail::new("replay/unknown-family", format!("no family named {}", rep.family))),
            Value::Null,
        );
    };
    let Some(f) = fam.case.as_ref() else {
        return (
            Err(Fail::new("replay/custom-family", "custom families cannot be replayed by input")),
            Value::Null,
        );
    };
    let bytes = from_hex(&rep.bytes_hex);
    let input = if rep.kind == "index" {
        Input::Index(rep.index)
    } else {
        Input::Bytes(&bytes)
    };
    let old = ctx.strict;
    ctx.strict = strict;
    let (cx, r) = ctx.exec(&rep.family, f.as_ref(), input, true);
    ctx.strict = old;
    (r, cx.sample.unwrap_or(Value::Null))
}

fn run_regressions(ctx: &mut ShardCtx, families: &[Family]) {
    for (path, rep) in load_regressions(ctx.prop) {
        if ctx.violation.is_some() {
            return;
        }
        let (r, rendered) = run_one_replay(ctx, families, &rep, true);
        ctx.stats.evaluations += 1;
        *ctx.stats.labels.entry("regression-replayed".into()).or_default() += 1;
        let fname = path.file_name().unwrap().to_string_lossy().into_owned();
        if let Some(fid) = rep.expect.strip_prefix("known:") {
            let open = known_findings().is_open(fid);
            match r {
                Err(fl) if open => {
                    // Must be the listed finding (class match), otherwise it is a new violation.
                    if known_findings()
                        .match_class(ctx.prop, &fl.class)
                        .map(|f| f.id == fid)
                        .unwrap_or(false)
                    {
                        let what = known_findings()
                            .findings
                            .iter()
                            .find(|f| f.id == fid)
                            .map(|f| f.what.clone())
                            .unwrap_or_default();
                        ctx.stats
                            .known_lines
                            .insert(format!("KNOWN-FINDING: property={} {} {} [{}]", ctx.prop, fid, what, fl.class));
                        *ctx.stats.known.entry(fid.to_owned()).or_default() += 1;
                    } else {
                        let input_bytes = from_hex(&rep.bytes_hex);
                        let input = if rep.kind == "index" {
                            Input::Index(rep.index)
                        } else {
                            Input::Bytes(&input_bytes)
                        };
                        ctx.violation = Some(ctx.make_violation(&rep.family, input, fl, rendered, 0));
                    }
                }
                Err(fl) => {
                    // Listed as fixed (or not listed at all) but fails: the violation is back.
                    let input_bytes = from_hex(&rep.bytes_hex);
                    let input = if rep.kind == "index" {
                        Input::Index(rep.index)
                    } else {
                        Input::Bytes(&input_bytes)
                    };
                    ctx.violation = Some(ctx.make_violation(&rep.family, input, fl, rendered, 0));
                }
                Ok(()) => {
                    if open {
                        ctx.stats
                            .notes
                            .push(format!("regression {fname}: open finding {fid} no longer reproduces"));
                    }
                }
            }
        } else {
            if let Err(fl) = r {
                let input_bytes = from_hex(&rep.bytes_hex);
                let input = if rep.kind == "index" {
                    Input::Index(rep.index)
                } else {
                    Input::Bytes(&input_bytes)
                };
                ctx.violation = Some(ctx.make_violation(&rep.family, input, fl, rendered, 0));
            }
        }
    }
}

// ------------------------------------------------------------------------------------------
// Worker entry points
// ------------------------------------------------------------------------------------------

pub fn run_in_big_stack<T: Send + 'static>(f: impl FnOnce() -> T + Send + 'static) -> T {
    // Same stack size as the main thread of the real binary (8 MiB): a recursion that overflows
    // there overflows here, and one that does not, does not.
    std::thread::Builder::new()
        .stack_size(8 << 20)
        .spawn(f)
        .expect("spawn")
        .join()
        .unwrap_or_else(|_| {
            eprintln!("vcheck: worker thread panicked outside a case");
            std::process::exit(2)
        })
}

pub fn worker_main(check: &'static dyn Check, tier: Tier, shard: usize, nshards: usize, seed: u64, workdir: PathBuf) -> i32 {
    install_panic_hook();
    let code = run_in_big_stack(move || {
        let journal = Journal::create(&workdir.join(format!("shard{shard}.journal")));
        let mut ctx = ShardCtx {
            prop: check.id(),
            tier,
            seed,
            shard,
            nshards,
            workdir: workdir.clone(),
            stats: Stats::default(),
            violation: None,
            journal,
            case_no: 0,
            strict: false,
        };
        let families = check.families(tier);
        if shard == 0 {
            run_regressions(&mut ctx, &families);
        }
        // VCHECK_FUZZ_ONLY (sensitivity trials of the coverage-guided stage): skip the generated families
        let fuzz_only = std::env::var_os("VCHECK_FUZZ_ONLY").is_some();
        for fam in &families {
            if !fuzz_only {
                ctx.run_family(fam);
            }
        }
        ctx.journal.idle();
        let result = ShardResult {
            stats: std::mem::take(&mut ctx.stats),
            violation: ctx.violation.take(),
            finished: true,
        };
        let tmp = workdir.join(format!("shard{shard}.json.tmp"));
        let fin = workdir.join(format!("shard{shard}.json"));
        std::fs::write(&tmp, serde_json::to_vec(&result).unwrap()).expect("write shard result");
        std::fs::rename(&tmp, &fin).expect("rename shard result");
        0
    });
    code
}

/// `vcheck one <prop> <family> <kind> <hex|index>`: run exactly one case strictly; exit 0 pass,
/// 1 fail (prints class), crash = signal.  Used by the supervisor to shrink crashing inputs and
/// to confirm time-outs.
pub fn one_main(check: &'static dyn Check, family: String, kind: String, data: String, strict: bool) -> i32 {
    install_panic_hook();
    run_in_big_stack(move || {
        let workdir = PathBuf::from(format!("{root}/work/one.{}", std::process::id(), root = verif_root()));
        let _ = std::fs::create_dir_all(&workdir);
        let journal = Journal::create(&workdir.join("one.journal"));
        let mut ctx = ShardCtx {
            prop: check.id(),
            tier: Tier::Quick,
            seed: 0,
            shard: 0,
            nshards: 1,
            workdir: workdir.clone(),
            stats: Stats::default(),
            violation: None,
            journal,
            case_no: 0,
            strict,
        };
        let families = check.families(Tier::Quick);
        let rep = ReplayInput {
            property: check.id().to_owned(),
            family,
            kind: kind.clone(),
            bytes_hex: if kind == "bytes" { data.clone() } else { String::new() },
            index: if kind == "index" { data.parse().unwrap_or(0) } else { 0 },
            expect: String::new(),
            note: String::new(),
        };
        let (r, rendered) = run_one_replay(&mut ctx, &families, &rep, strict);
        let _ = std::fs::remove_dir_all(&workdir);
        match r {
            Ok(()) => {
                println!("ONE pass");
                0
            }
            Err(fl) => {
                println!("ONE fail class={}", fl.class);
                println!("{}", fl.detail);
                if !rendered.is_null() {
                    println!("{}", serde_json::to_string_pretty(&rendered).unwrap_or_default());
                }
                1
            }
        }
    })
}

/// `vcheck render <prop> <family> <kind> <data>`: prints the written-out form of a case without
/// exercising the code under test (checks that honour VCHECK_NO_COMPILE skip the compiler), so that a
/// crashing input can be shown.
pub static RENDER_MODE: std::sync::atomic::AtomicBool = std::sync::atomic::AtomicBool::new(false);

pub fn render_main(check: &'static dyn Check, family: String, kind: String, data: String) -> i32 {
    std::env::set_var("VCHECK_NO_COMPILE", "1");
    RENDER_MODE.store(true, std::sync::atomic::Ordering::Relaxed);
    install_panic_hook();
    run_in_big_stack(move || {
        let workdir = PathBuf::from(format!("{root}/work/render.{}", std::process::id(), root = verif_root()));
        let _ = std::fs::create_dir_all(&workdir);
        let journal = Journal::create(&workdir.join("render.journal"));
        let mut ctx = ShardCtx {
            prop: check.id(),
            tier: Tier::Quick,
            seed: 0,
            shard: 0,
            nshards: 1,
            workdir: workdir.clone(),
            stats: Stats::default(),
            violation: None,
            journal,
            case_no: 0,
            strict: true,
        };
        let families = check.families(Tier::Quick);
        let rep = ReplayInput {
            property: check.id().to_owned(),
            family,
            kind: kind.clone(),
            bytes_hex: if kind == "bytes" { data.clone() } else { String::new() },
            index: if kind == "index" { data.parse().unwrap_or(0) } else { 0 },
            expect: String::new(),
            note: String::new(),
        };
        let (_r, rendered) = run_one_replay(&mut ctx, &families, &rep, true);
        let _ = std::fs::remove_dir_all(&workdir);
        println!("RENDERED {}", serde_json::to_string(&rendered).unwrap_or_default());
        0
    })
}

pub fn render_in_child(prop: &str, family: &str, kind: &str, data: &str) -> Option<Value> {
    use std::io::Read;
    use std::process::{Command, Stdio};
    let exe = std::env::current_exe().ok()?;
    static SEQ: std::sync::atomic::AtomicU64 = std::sync::atomic::AtomicU64::new(0);
    let out_path = PathBuf::from(format!(
        "{root}/work/render-out.{}.{}",
        std::process::id(),
        SEQ.fetch_add(1, std::sync::atomic::Ordering::Relaxed),
        root = verif_root()
    ));
    let out_file = std::fs::File::create(&out_path).ok()?;
    let mut child = Command::new(exe)
        .args(["render", prop, family, kind, data])
        .stdin(Stdio::null())
        .stdout(out_file)
        .stderr(Stdio::null())
        .spawn()
        .ok()?;
    // a case that offers its sample only after running the code under test may hang here: bounded
    let deadline = Instant::now() + Duration::from_secs(20);
    loop {
        match child.try_wait() {
            Ok(Some(_)) => break,
            Ok(None) if Instant::now() > deadline => {
                let _ = child.kill();
                let _ = child.wait();
                break;
            }
            Ok(None) => std::thread::sleep(Duration::from_millis(10)),
            Err(_) => break,
        }
    }
    let mut text = String::new();
    let _ = std::fs::File::open(&out_path).and_then(|mut f| f.read_to_string(&mut text));
    let _ = std::fs::remove_file(&out_path);
    let line = text.lines().find_map(|l| l.strip_prefix("RENDERED "))?;
    serde_json::from_str(line).ok()
}

// ------------------------------------------------------------------------------------------
// Supervisor
// ------------------------------------------------------------------------------------------

fn signal_name(sig: i32) -> String {
    match sig {
        libc::SIGSEGV => "SIGSEGV".into(),
        libc::SIGABRT => "SIGABRT".into(),
        libc::SIGBUS => "SIGBUS".into(),
        libc::SIGILL => "SIGILL".into(),
        libc::SIGKILL => "SIGKILL".into(),
        libc::SIGFPE => "SIGFPE".into(),
        n => format!("signal{n}"),
    }
}

pub struct OneOutcome {
    pub pass: bool,
    pub class: String,
    pub output: String,
    pub timed_out: bool,
}

/// Tolerant single-case run of a byte-vector input (used by the fuzz stage to confirm saved inputs).
pub fn run_single(prop: &str, family: &str, hex: &str, limit: Duration) -> OneOutcome {
    run_one_process(prop, family, "bytes", hex, limit, false)
}

/// Runs a single case in a fresh process (strict or tolerant), with a time limit.
fn run_one_process(prop: &str, family: &str, kind: &str, data: &str, limit: Duration, strict: bool) -> OneOutcome {
    use std::os::unix::process::ExitStatusExt;
    use std::process::{Command, Stdio};
    let exe = std::env::current_exe().expect("current_exe");
    let mut child = Command::new(exe)
        .args(["one", prop, family, kind, data, if strict { "strict" } else { "tolerant" }])
        .stdin(Stdio::null())
        .stdout(Stdio::piped())
        .stderr(Stdio::piped())
        .spawn()
        .expect("spawn one");
    let t0 = Instant::now();
    loop {
        match child.try_wait() {
            Ok(Some(status)) => {
                let out = child.wait_with_output().ok();
                let (so, se) = out
                    .map(|o| {
                        (
                            String::from_utf8_lossy(&o.stdout).into_owned(),
                            String::from_utf8_lossy(&o.stderr).into_owned(),
                        )
                    })
                    .unwrap_or_default();
                if let Some(sig) = status.signal() {
                    let overflow = se.contains("has overflowed its stack");
                    let class = if overflow {
                        "crash/stack-overflow".to_owned()
                    } else {
                        format!("crash/{}", signal_name(sig))
                    };
                    return OneOutcome {
                        pass: false,
                        class,
                        output: tail(&se, 600),
                        timed_out: false,
                    };
                }
                return match status.code() {
                    Some(0) => OneOutcome {
                        pass: true,
                        class: String::new(),
                        output: so,
                        timed_out: false,
                    },
                    Some(1) => {
                        let class = so
                            .lines()
                            .find_map(|l| l.strip_prefix("ONE fail class="))
                            .unwrap_or("unknown")
                            .to_owned();
                        OneOutcome {
                            pass: false,
                            class,
                            output: so,
                            timed_out: false,
                        }
                    }
                    Some(c) => OneOutcome {
                        pass: false,
                        class: format!("crash/exit{c}"),
                        output: tail(&se, 600),
                        timed_out: false,
                    },
                    None => OneOutcome {
                        pass: false,
                        class: "crash/unknown".into(),
                        output: String::new(),
                        timed_out: false,
                    },
                };
            }
            Ok(None) => {
                if t0.elapsed() > limit {
                    let _ = child.kill();
                    let _ = child.wait();
                    return OneOutcome {
                        pass: false,
                        class: "timeout".into(),
                        output: String::new(),
                        timed_out: true,
                    };
                }
                std::thread::sleep(Duration::from_millis(5));
            }
            Err(_) => {
                return OneOutcome {
                    pass: false,
                    class: "crash/wait-error".into(),
                    output: String::new(),
                    timed_out: false,
                }
            }
        }
    }
}

fn tail(s: &str, n: usize) -> String {
    if s.len() <= n {
        return s.to_owned();
    }
    let mut start = s.len() - n;
    while !s.is_char_boundary(start) {
        start += 1;
    }
    s[start..].to_owned()
}

/// Delta-debugging of a crashing byte input with single-case child processes.
fn shrink_crash(prop: &str, family: &str, bytes: &[u8], class: &str, limit: Duration) -> (Vec<u8>, u64) {
    let mut cur = bytes.to_vec();
    let mut attempts = 0u64;
    let max_attempts = 120;
    let still = |cand: &[u8], attempts: &mut u64| -> bool {
        *attempts += 1;
        let o = run_one_process(prop, family, "bytes", &to_hex(cand), limit, true);
        !o.pass && o.class == class
    };
    // 1. truncate from the end (exhausted buffers read as zeros = simplest choices)
    let mut chunk = cur.len() / 2;
    while chunk >= 1 && attempts < max_attempts {
        if cur.len() > chunk {
            let cand = cur[..cur.len() - chunk].to_vec();
            if still(&cand, &mut attempts) {
                cur = cand;
                continue;
            }
        }
        chunk /= 2;
    }
    // 2. remove interior chunks
    let mut size = (cur.len() / 2).max(1);
    while size >= 1 && attempts < max_attempts && !cur.is_empty() {
        let mut i = 0;
        let mut progressed = false;
        while i + size <= cur.len() && attempts < max_attempts {
            let mut cand = cur.clone();
            cand.drain(i..i + size);
            if still(&cand, &mut attempts) {
                cur = cand;
                progressed = true;
            } else {
                i += size;
            }
        }
        if !progressed {
            if size == 1 {
                break;
            }
            size /= 2;
        }
    }
    // 3. zero bytes
    let mut i = 0;
    while i < cur.len() && attempts < max_attempts {
        if cur[i] != 0 {
            let mut cand = cur.clone();
            cand[i] = 0;
            if still(&cand, &mut attempts) {
                cur = cand;
            }
        }
        i += 1;
    }
    (cur, attempts)
}

pub struct RunOutcome {
    pub exit: i32,
}

pub fn supervise(check: &'static dyn Check, tier: Tier) -> i32 {
    use std::os::unix::process::ExitStatusExt;
    use std::process::{Command, Stdio};
    let t0 = Instant::now();
    let prop = check.id();
    let seed: u64 = std::env::var("VERIF_SEED")
        .ok()
        .and_then(|s| s.trim().parse::<i64>().ok())
        .map(|v| v as u64)
        .unwrap_or(0);
    let workdir = PathBuf::from(format!("{root}/work/{prop}.{}", std::process::id(), root = verif_root()));
    let _ = std::fs::remove_dir_all(&workdir);
    std::fs::create_dir_all(&workdir).expect("create workdir");
    let exe = std::env::current_exe().expect("current_exe");
    let nshards = NSHARDS;

    struct W {
        child: std::process::Child,
        done: Option<std::process::ExitStatus>,
        last_seq: u64,
        last_change: Instant,
        timed_out: bool,
    }
    let mut workers: Vec<W> = Vec::new();
    for shard in 0..nshards {
        let log = std::fs::File::create(workdir.join(format!("shard{shard}.log"))).expect("log");
        let log2 = log.try_clone().expect("log clone");
        let child = Command::new(&exe)
            .args([
                "worker",
                prop,
                tier.name(),
                &shard.to_string(),
                &nshards.to_string(),
                &seed.to_string(),
                workdir.to_str().unwrap(),
            ])
            .stdin(Stdio::null())
            .stdout(Stdio::from(log))
            .stderr(Stdio::from(log2))
            .spawn()
            .expect("spawn worker");
        workers.push(W {
            child,
            done: None,
            last_seq: 0,
            last_change: Instant::now(),
            timed_out: false,
        });
    }

    let case_timeout = check.case_timeout();
    // Watchdog loop
    loop {
        let mut all_done = true;
        for (shard, w) in workers.iter_mut().enumerate() {
            if w.done.is_some() {
                continue;
            }
            match w.child.try_wait() {
                Ok(Some(st)) => w.done = Some(st),
                Ok(None) => {
                    all_done = false;
                    // stuck-case detection through the journal
                    if let Some(rec) = read_journal_header(&workdir.join(format!("shard{shard}.journal"))) {
                        if rec.0 != w.last_seq || rec.1 == 0 {
                            w.last_seq = rec.0;
                            w.last_change = Instant::now();
                        } else if w.last_change.elapsed() > case_timeout + Duration::from_secs(2) {
                            let _ = w.child.kill();
                            let st = w.child.wait().ok();
                            w.done = st;
                            w.timed_out = true;
                        }
                    }
                }
                Err(_) => {
                    w.done = Some(std::process::ExitStatus::from_raw(0xff00));
                }
            }
        }
        if all_done {
            break;
        }
        std::thread::sleep(Duration::from_millis(100));
    }

    // Solo re-runs of timed-out cases (tripled bound), all at once: each takes up to 3x the bound.
    let mut solo: std::collections::HashMap<usize, OneOutcome> = std::collections::HashMap::new();
    {
        let timed_out: Vec<(usize, JournalRecord)> = workers
            .iter()
            .enumerate()
            .filter(|(shard, w)| w.timed_out && !workdir.join(format!("shard{shard}.json")).exists())
            .filter_map(|(shard, _)| read_journal(&workdir.join(format!("shard{shard}.journal"))).map(|r| (shard, r)))
            .collect();
        let results: Vec<(usize, OneOutcome)> = std::thread::scope(|sc| {
            let handles: Vec<_> = timed_out
                .iter()
                .map(|(shard, rec)| {
                    let (kind, data) = if rec.kind == 2 { ("index", rec.index.to_string()) } else { ("bytes", to_hex(&rec.data)) };
                    let family = rec.family.clone();
                    let shard = *shard;
                    sc.spawn(move || (shard, run_one_process(prop, &family, kind, &data, case_timeout * 3, false)))
                })
                .collect();
            handles.into_iter().filter_map(|h| h.join().ok()).collect()
        });
        solo.extend(results);
    }

    // Collect
    let mut stats = Stats::default();
    let mut violations: Vec<Violation> = Vec::new();
    let mut infra: Vec<String> = Vec::new();
    for (shard, w) in workers.iter().enumerate() {
        let res_path = workdir.join(format!("shard{shard}.json"));
        let parsed: Option<ShardResult> = std::fs::read(&res_path).ok().and_then(|b| serde_json::from_slice(&b).ok());
        let status = w.done.unwrap();
        if let Some(r) = parsed {
            stats.merge(r.stats);
            if let Some(v) = r.violation {
                violations.push(v);
            }
            continue;
        }
        // The worker died (or was killed by the watchdog) without a result.
        let rec = read_journal(&workdir.join(format!("shard{shard}.journal")));
        let log_text = std::fs::read_to_string(workdir.join(format!("shard{shard}.log"))).unwrap_or_default();
        let Some(rec) = rec else {
            infra.push(format!(
                "shard {shard} died before its first case (status {status:?}): {}",
                tail(&log_text, 400)
            ));
            continue;
        };
        let (kind, data) = if rec.kind == 2 {
            ("index", rec.index.to_string())
        } else {
            ("bytes", to_hex(&rec.data))
        };
        if w.timed_out {
            // Solo re-run with a tripled bound (done above, in parallel).
            let o = match solo.remove(&shard) {
                Some(o) => o,
                None => run_one_process(prop, &rec.family, kind, &data, case_timeout * 3, false),
            };
            if o.timed_out {
                if check.timeout_is_violation() {
                    let rendered = render_in_child(prop, &rec.family, kind, &data);
                    violations.push(crash_violation(prop, &rec, "timeout", format!(
                        "case did not finish within {:?} (solo re-run, 3x bound)", case_timeout * 3), 0, rendered));
                } else {
                    infra.push(format!(
                        "shard {shard}: case of family {} hangs (> {:?}); inconclusive for {prop}, see C01",
                        rec.family,
                        case_timeout * 3
                    ));
                }
            } else if !o.pass {
                violations.push(crash_violation(prop, &rec, &o.class, o.output, 0, None));
            } else {
                infra.push(format!(
                    "shard {shard}: watchdog killed a case that passes solo within the tripled bound (machine overloaded?)"
                ));
            }
            continue;
        }
        let class = if log_text.contains("has overflowed its stack") {
            "crash/stack-overflow".to_owned()
        } else if let Some(sig) = status.signal() {
            format!("crash/{}", signal_name(sig))
        } else {
            format!("crash/exit{}", status.code().unwrap_or(-1))
        };
        // Confirm and shrink with single-case processes.
        let o = run_one_process(prop, &rec.family, kind, &data, case_timeout * 3, false);
        if o.pass {
            infra.push(format!(
                "shard {shard} died ({class}) but its last journalled case passes solo: {}",
                tail(&log_text, 400)
            ));
            continue;
        }
        let confirmed_class = if o.class.starts_with("crash/") || o.class == "timeout" { o.class.clone() } else { o.class.clone() };
        if rec.kind == 1 && confirmed_class.starts_with("crash/") {
            let (min, attempts) = shrink_crash(prop, &rec.family, &rec.data, &confirmed_class, case_timeout * 3);
            let mut rec2 = rec;
            rec2.data = min;
            // render the minimal case in a child that does not run the code under test
            let rendered = render_in_child(prop, &rec2.family, "bytes", &to_hex(&rec2.data));
            violations.push(crash_violation(prop, &rec2, &confirmed_class, o.output, attempts, rendered));
        } else {
            let rendered = render_in_child(prop, &rec.family, kind, &data);
            violations.push(crash_violation(prop, &rec, &confirmed_class, o.output, 0, rendered));
        }
    }

    // Coverage-guided stage (thorough tier, when ./check built the libFuzzer target): the same case
    // functions driven by libFuzzer; every input it saves was confirmed in a single-case process.
    let mut fuzz_report: Vec<Value> = Vec::new();
    if tier == Tier::Thorough && violations.is_empty() && infra.is_empty() {
        let o = crate::fuzzstage::run_stage(check, tier, seed, &workdir, nshards);
        stats.merge(o.stats);
        violations.extend(o.violations);
        infra.extend(o.infra);
        fuzz_report = o.report;
    }

    // Known-finding filter for crash classes reported by the supervisor and for in-worker failures
    // whose class is listed (the saved regression inputs are the primary mechanism; this covers
    // generated cases that hit a listed open finding's class).
    let kf = known_findings();
    let mut real: Vec<Violation> = Vec::new();
    for v in violations {
        if let Some(f) = kf.match_class(prop, &v.class) {
            stats
                .known_lines
                .insert(format!("KNOWN-FINDING: property={} {} {} [{}]", prop, f.id, f.what, v.class));
            *stats.known.entry(f.id.clone()).or_default() += 1;
        } else {
            real.push(v);
        }
    }
    real.sort_by(|a, b| (a.family.clone(), a.input.bytes_hex.len()).cmp(&(b.family.clone(), b.input.bytes_hex.len())));
    // one report per mismatch class (the smallest input of each)
    {
        let mut seen = BTreeSet::new();
        real.retain(|v| seen.insert(v.class.clone()));
    }

    // Essential classes
    let mut missing: Vec<String> = Vec::new();
    if real.is_empty() && std::env::var_os("VCHECK_FUZZ_ONLY").is_none() {
        for e in check.essential(tier) {
            if stats.labels.get(e).copied().unwrap_or(0) == 0 {
                missing.push(e.to_owned());
            }
        }
    }

    let wall = t0.elapsed().as_secs_f64();
    let distinct = stats.nontrivial_keys.len() as u64 + stats.nontrivial_enumerated;
    let all_exhaustive = !stats.families.is_empty() && stats.families.values().all(|f| f.exhaustive);
    // An evidence record always carries at least one sample: non-trivial passing cases first, else
    // the inputs of the violations found (a run that stops at its first failure may not have
    // sampled anything yet), else a trivial case.
    if stats.samples.is_empty() {
        for v in real.iter().take(3) {
            stats.samples.push(json!({"family": v.family, "case": v.rendered, "violating": true, "class": v.class}));
        }
    }
    if stats.samples.is_empty() {
        if let Some(t) = stats.trivial_sample.take() {
            stats.samples.push(t);
        }
    }
    let mut coverage = json!({
        "evaluations": stats.evaluations,
        "distinct_nontrivial": distinct,
        "rule": check.rule(),
        "samples": stats.samples.iter().take(10).cloned().collect::<Vec<_>>(),
        "exhaustive": all_exhaustive,
        "families": stats.families,
        "classes": stats.labels,
        "excluded_known": stats.known,
        "shards": nshards,
        "notes": stats.notes,
    });
    if !fuzz_report.is_empty() {
        coverage["coverage_guided"] = json!(fuzz_report);
    }
    if let (Value::Object(m), Value::Object(extra)) = (&mut coverage, check.extra_coverage(tier)) {
        for (k, v) in extra {
            m.insert(k, v);
        }
    }
    let evidence = json!({
        "property_id": prop,
        "tier": tier.name(),
        "seed": seed as i64,
        "level": check.level(),
        "coverage": coverage,
        "assumptions": check.assumptions(),
        "wall_s": (wall * 1000.0).round() / 1000.0,
        "violations": real.len(),
    });
    // Mutant/seed trials set VCHECK_EVIDENCE_DIR so that the committed evidence (runs against
    // /repo itself) is never overwritten by a run against a deliberately broken tree.
    let ev_dir = std::env::var_os("VCHECK_EVIDENCE_DIR")
        .map(PathBuf::from)
        .unwrap_or_else(|| PathBuf::from(format!("{root}/evidence", root = verif_root())));
    let _ = std::fs::create_dir_all(&ev_dir);
    let ev_path = ev_dir.join(format!("{prop}.json"));
    std::fs::write(&ev_path, serde_json::to_string_pretty(&evidence).unwrap() + "\n").expect("write evidence");

    // findings tolerated inside generated families (CaseCtx::tolerate_known) are reported as well
    for (id, n) in &stats.known {
        if let Some(f) = kf.findings.iter().find(|f| &f.id == id && f.status == "open") {
            if !stats.known_lines.iter().any(|l| l.contains(&format!(" {id} "))) {
                stats.known_lines.insert(format!("KNOWN-FINDING: property={} {} {} [{} generated case(s)]", prop, f.id, f.what, n));
            }
        }
    }
    for l in &stats.known_lines {
        println!("{l}");
    }
    let mut exit = 0;
    if !real.is_empty() {
        let rdir = PathBuf::from(format!("{root}/replays/{prop}", root = verif_root()));
        let _ = std::fs::create_dir_all(&rdir);
        for (i, v) in real.iter().enumerate() {
            let name = format!("{}-{}-{:016x}.json", v.family, sanitize(&v.class), hash64(&(&v.input.bytes_hex, v.input.index)));
            let path = rdir.join(name);
            let mut body = serde_json::to_value(v).unwrap();
            // make the replay file directly loadable as ReplayInput too
            if let Value::Object(m) = &mut body {
                m.insert("family".into(), json!(v.family));
                m.insert("kind".into(), json!(v.input.kind));
                m.insert("bytes_hex".into(), json!(v.input.bytes_hex));
                m.insert("index".into(), json!(v.input.index));
            }
            std::fs::write(&path, serde_json::to_string_pretty(&body).unwrap() + "\n").expect("write replay");
            if i < 5 {
                println!("VIOLATION property={} replay={}", prop, path.display());
                println!("  class: {}", v.class);
                println!("  family: {}  shrink_steps: {}", v.family, v.shrink_steps);
                for l in v.detail.lines().take(30) {
                    println!("  {l}");
                }
            }
        }
        exit = 1;
    } else if !infra.is_empty() {
        for m in &infra {
            eprintln!("vcheck[{prop}]: INCONCLUSIVE: {m}");
        }
        exit = 2;
    } else if !missing.is_empty() {
        eprintln!(
            "vcheck[{prop}]: INCONCLUSIVE: generator does not reach essential class(es): {}",
            missing.join(", ")
        );
        exit = 2;
    }
    println!(
        "vcheck[{prop}] tier={} seed={} evaluations={} distinct_nontrivial={} violations={} wall={:.1}s exit={}",
        tier.name(),
        seed,
        stats.evaluations,
        distinct,
        real.len(),
        wall,
        exit
    );
    let _ = std::io::stdout().flush();
    if exit == 0 || std::env::var("VCHECK_KEEP_WORK").is_err() {
        let _ = std::fs::remove_dir_all(&workdir);
    }
    exit
}

fn sanitize(s: &str) -> String {
    let mut out: String = s
        .chars()
        .map(|c| if c.is_ascii_alphanumeric() || c == '-' || c == '_' || c == '.' { c } else { '_' })
        .collect();
    out.truncate(60);
    out
}

fn read_journal_header(path: &Path) -> Option<(u64, u64)> {
    use std::io::Read;
    let mut f = std::fs::File::open(path).ok()?;
    let mut b = [0u8; 16];
    f.read_exact(&mut b).ok()?;
    Some((
        u64::from_le_bytes(b[0..8].try_into().unwrap()),
        u64::from_le_bytes(b[8..16].try_into().unwrap()),
    ))
}

fn crash_violation(prop: &str, rec: &JournalRecord, class: &str, detail: String, steps: u64, rendered: Option<Value>) -> Violation {
    let (kind, hex, index) = if rec.kind == 2 {
        ("index", String::new(), rec.index)
    } else {
        ("bytes", to_hex(&rec.data), 0)
    };
    Violation {
        property: prop.to_owned(),
        family: rec.family.clone(),
        class: class.to_owned(),
        detail,
        input: ReplayInput {
            property: prop.to_owned(),
            family: rec.family.clone(),
            kind: kind.to_owned(),
            bytes_hex: hex,
            index,
            expect: String::new(),
            note: String::new(),
        },
        rendered: rendered.unwrap_or(Value::Null),
        shrink_steps: steps,
    }
}

/// `vcheck replay <prop> <file>`: strict re-run of one saved case in a child process (so that a
/// crash is reported, not suffered).
pub fn replay_main(check: &'static dyn Check, file: &str) -> i32 {
    let text = match std::fs::read_to_string(file) {
        Ok(t) => t,
        Err(e) => {
            eprintln!("vcheck: cannot read {file}: {e}");
            return 2;
        }
    };
    let v: Value = match serde_json::from_str(&text) {
        Ok(v) => v,
        Err(e) => {
            eprintln!("vcheck: cannot parse {file}: {e}");
            return 2;
        }
    };
    let family = v.get("family").and_then(|x| x.as_str()).unwrap_or("").to_owned();
    let kind = v.get("kind").and_then(|x| x.as_str()).unwrap_or("bytes").to_owned();
    let data = if kind == "index" {
        v.get("index").and_then(|x| x.as_u64()).unwrap_or(0).to_string()
    } else {
        v.get("bytes_hex").and_then(|x| x.as_str()).unwrap_or("").to_owned()
    };
    let o = run_one_process(check.id(), &family, &kind, &data, check.case_timeout() * 3, true);
    if o.pass {
        println!("replay: case passes");
        print!("{}", o.output);
        0
    } else {
        println!("VIOLATION property={} replay={}", check.id(), file);
        println!("  class: {}", o.class);
        print!("{}", o.output);
        1
    }
}
