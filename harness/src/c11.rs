//! C11 — decoding untrusted bytes fails cleanly: no crash, no over-read, nothing illegal accepted,
//! cost governed by the input length, every error renders.
//!
//! Oracle: differential against the reference decoder of `wire` (written from the statement):
//!  * implementation `Ok(v)` <=> reference `Ok(v')`, `v == v'` (floats by bits, dictionaries as maps),
//!    identical consumed prefix — so an out-of-range bool, invalid UTF-8, an out-of-range
//!    variable-width integer or a duplicate key is never accepted and every valid prefix is;
//!  * no panic (`catch_unwind`); no over-read: the input sits flush against a PROT_NONE page;
//!  * every `Err(e)` renders: `e.to_string()` returns, non-empty;
//!  * cost, for inputs of at most 64 bytes: one decode takes < 50 ms of *thread CPU time* (minimum of
//!    three repetitions, measured only when the wall clock exceeded the bound) and raises the
//!    worker's peak RSS by < 64 MiB.  Every worker caps its address space (`RLIMIT_AS`, 3 GiB)
//!    before the first decode, so that a decoder trusting an announced 2^40 cannot take the sandbox
//!    down: beyond the cap the allocation fails, which is a clean error.
//!
//! Families: `exhaustive` (every byte string of length <= 2 quick / <= 3 thorough, for each of the
//! 24 decodables), `random` (<= 64 bytes assembled from plausible fragments: size prefixes in every
//! width, tag end markers, strings, broken UTF-8, bools), `mutate` (every truncation and single-byte
//! corruptions of valid encodings from the C10 generators), `announce-large` (size 2^k, k = 8..61, in
//! front of 0..8 payload bytes for every container shape), `duplicate-keys`, `reply` (the private
//! generator-reply types through the real binary and a fake generator), `direct` / `direct-reply`
//! (replay only).

use crate::c10::{self, Features, GenValue, Menu};
use crate::engine::*;
use crate::guard;
use crate::proc::{self, os, CaseDir};
use crate::wire::{self, short_type_name, RefCodec, RefResult, Reject};
use arbitrary::Unstructured;
use serde_json::json;
use slice_codec::buffer::slice::SliceInputSource;
use slice_codec::buffer::InputSource;
use slice_codec::decoder::Decoder;
use slice_codec::{ErrorKind, InvalidDataErrorKind};
use std::collections::{BTreeMap, BTreeSet, HashMap};
use std::marker::PhantomData;
use std::time::{Duration, Instant};

pub struct C11;

const AS_CAP: u64 = 3 << 30;
const COST_INPUT_LIMIT: usize = 64;
const TIME_LIMIT: Duration = Duration::from_millis(50);
const RSS_LIMIT_KIB: u64 = 64 * 1024;

// ------------------------------------------------------------------------------------------
// Decodables
// ------------------------------------------------------------------------------------------

type Dec<'d, 'b> = &'d mut Decoder<SliceInputSource<'b>>;

trait Subject {
    type V;
    fn name() -> String;
    fn imp(dec: Dec) -> slice_codec::Result<Self::V>;
    fn refr(b: &mut &[u8]) -> RefResult<Self::V>;
    fn same(a: &Self::V, b: &Self::V) -> bool;
    fn show(v: &Self::V) -> String;
}

struct Typed<T>(PhantomData<T>);

impl<T: Menu> Subject for Typed<T> {
    type V = T;
    fn name() -> String {
        short_type_name::<T>()
    }
    fn imp(dec: Dec) -> slice_codec::Result<T> {
        T::impl_decode(dec)
    }
    fn refr(b: &mut &[u8]) -> RefResult<T> {
        T::ref_decode(b)
    }
    fn same(a: &T, b: &T) -> bool {
        a.same(b)
    }
    fn show(v: &T) -> String {
        v.show()
    }
}

macro_rules! var_subject {
    ($s:ident, $name:expr, $v:ty, $imp:expr, $refr:expr) => {
        struct $s;
        impl Subject for $s {
            type V = $v;
            fn name() -> String {
                $name.to_owned()
            }
            fn imp(dec: Dec) -> slice_codec::Result<$v> {
                #[allow(clippy::redundant_closure_call)]
                ($imp)(dec)
            }
            fn refr(b: &mut &[u8]) -> RefResult<$v> {
                #[allow(clippy::redundant_closure_call)]
                ($refr)(b)
            }
            fn same(a: &$v, b: &$v) -> bool {
                a == b
            }
            fn show(v: &$v) -> String {
                format!("{v:?}")
            }
        }
    };
}

var_subject!(VarintI32, "varint->i32", i32, |d: Dec| d.decode_varint::<i32>(), |b: &mut &[u8]| wire::rd_varint_as::<i32>(b));
var_subject!(VarintI64, "varint->i64", i64, |d: Dec| d.decode_varint::<i64>(), |b: &mut &[u8]| wire::rd_varint_as::<i64>(b));
var_subject!(VaruintU32, "varuint->u32", u32, |d: Dec| d.decode_varuint::<u32>(), |b: &mut &[u8]| wire::rd_varuint_as::<u32>(b));
var_subject!(VaruintU64, "varuint->u64", u64, |d: Dec| d.decode_varuint::<u64>(), |b: &mut &[u8]| wire::rd_varuint_as::<u64>(b));
var_subject!(Size, "size", usize, |d: Dec| d.decode_size(), |b: &mut &[u8]| wire::rd_size(b));
var_subject!(SkipTagged, "skip_tagged_fields", (), |d: Dec| d.skip_tagged_fields(), |b: &mut &[u8]| wire::rd_skip_tagged(b));

const N_TYPES: usize = 24;
const FIRST_VARIABLE: usize = 11; // everything from here on reaches a size prefix / width code / container

fn dispatch(ty: usize, obs: &mut Obs, cx: &mut CaseCtx, input: &[u8]) -> CaseResult {
    match ty {
        0 => diff::<Typed<bool>>(obs, cx, input),
        1 => diff::<Typed<u8>>(obs, cx, input),
        2 => diff::<Typed<i8>>(obs, cx, input),
        3 => diff::<Typed<u16>>(obs, cx, input),
        4 => diff::<Typed<i16>>(obs, cx, input),
        5 => diff::<Typed<u32>>(obs, cx, input),
        6 => diff::<Typed<i32>>(obs, cx, input),
        7 => diff::<Typed<u64>>(obs, cx, input),
        8 => diff::<Typed<i64>>(obs, cx, input),
        9 => diff::<Typed<f32>>(obs, cx, input),
        10 => diff::<Typed<f64>>(obs, cx, input),
        11 => diff::<VarintI32>(obs, cx, input),
        12 => diff::<VarintI64>(obs, cx, input),
        13 => diff::<VaruintU32>(obs, cx, input),
        14 => diff::<VaruintU64>(obs, cx, input),
        15 => diff::<Size>(obs, cx, input),
        16 => diff::<Typed<String>>(obs, cx, input),
        17 => diff::<Typed<Vec<u8>>>(obs, cx, input),
        18 => diff::<Typed<Vec<String>>>(obs, cx, input),
        19 => diff::<Typed<Vec<Vec<u16>>>>(obs, cx, input),
        20 => diff::<Typed<HashMap<u8, u8>>>(obs, cx, input),
        21 => diff::<Typed<HashMap<String, String>>>(obs, cx, input),
        22 => diff::<Typed<BTreeMap<u16, String>>>(obs, cx, input),
        _ => diff::<SkipTagged>(obs, cx, input),
    }
}

fn type_name_of(ty: usize) -> String {
    const NAMES: [&str; N_TYPES] = [
        "bool", "u8", "i8", "u16", "i16", "u32", "i32", "u64", "i64", "f32", "f64", "varint->i32", "varint->i64",
        "varuint->u32", "varuint->u64", "size", "String", "Vec<u8>", "Vec<String>", "Vec<Vec<u16>>", "HashMap<u8,u8>",
        "HashMap<String,String>", "BTreeMap<u16,String>", "skip_tagged_fields",
    ];
    NAMES[ty.min(N_TYPES - 1)].to_owned()
}

// ------------------------------------------------------------------------------------------
// Per-case accumulator (a case may run thousands of decodes)
// ------------------------------------------------------------------------------------------

#[derive(Default)]
struct Obs {
    labels: BTreeSet<String>,
    decodes: u64,
    tolerated: BTreeMap<&'static str, bool>,
    nontrivial: bool,
    last_rss: u64,
    /// Generated families: while F-11c is listed as open, inputs that would only re-trigger it
    /// (a dictionary announcing >= 2^20 entries it cannot hold) are excluded and counted, as
    /// DESIGN section 4 prescribes; `announce-large` and replays always run them.
    exclude_open_cost_finding: bool,
}

impl Obs {
    fn label(&mut self, l: &str) {
        if !self.labels.contains(l) {
            self.labels.insert(l.to_owned());
        }
    }
    /// `cx.tolerate_known`, asked once per finding and case.
    fn tolerate(&mut self, cx: &mut CaseCtx, id: &'static str) -> bool {
        if let Some(t) = self.tolerated.get(id) {
            return *t;
        }
        let t = cx.tolerate_known(id);
        self.tolerated.insert(id, t);
        t
    }
    fn flush(self, cx: &mut CaseCtx) {
        for l in self.labels {
            cx.label(l);
        }
        cx.nontrivial |= self.nontrivial;
    }
}

fn error_kind_name(e: &slice_codec::Error) -> &'static str {
    match e.kind() {
        ErrorKind::UnexpectedEob { .. } => "UnexpectedEob",
        ErrorKind::InvalidReservation { .. } => "InvalidReservation",
        ErrorKind::AllocationError(_) => "AllocationError",
        ErrorKind::AllocationLimitReached { .. } => "AllocationLimitReached",
        ErrorKind::InvalidData(InvalidDataErrorKind::IllegalValue { .. }) => "IllegalValue",
        ErrorKind::InvalidData(InvalidDataErrorKind::InvalidString(_)) => "InvalidString",
        ErrorKind::InvalidData(InvalidDataErrorKind::OutOfRange { .. }) => "OutOfRange",
        ErrorKind::InvalidData(_) => "InvalidData/other",
        _ => "other",
    }
}

fn thread_cpu() -> Duration {
    unsafe {
        let mut ts: libc::timespec = std::mem::zeroed();
        libc::clock_gettime(libc::CLOCK_THREAD_CPUTIME_ID, &mut ts);
        Duration::new(ts.tv_sec as u64, ts.tv_nsec as u32)
    }
}

fn hex_clip(b: &[u8]) -> String {
    if b.len() <= 80 {
        to_hex(b)
    } else {
        format!("{}..(+{} bytes)", to_hex(&b[..64]), b.len() - 64)
    }
}

fn container_kind(name: &str) -> &str {
    name.split('<').next().unwrap_or(name)
}

/// The differential oracle for one (decodable, input).
fn diff<S: Subject>(obs: &mut Obs, cx: &mut CaseCtx, input: &[u8]) -> CaseResult {
    guard::cap_address_space(AS_CAP);
    let name = S::name();
    obs.decodes += 1;

    // reference
    let mut cur: &[u8] = input;
    let expected = S::refr(&mut cur);
    let ref_consumed = input.len() - cur.len();

    // implementation: input flush against the guard page, panics caught, cost measured
    let (outcome, wall, rss_before, rss_after) = guard::with_arena(input.len(), |arena| {
        let buf: &[u8] = arena.place(input);
        if obs.last_rss == 0 {
            obs.last_rss = guard::max_rss_kib();
        }
        let rss_before = obs.last_rss;
        let t0 = Instant::now();
        let outcome = guarded(|| {
            let mut dec = Decoder::new(SliceInputSource::from(buf));
            let r = S::imp(&mut dec);
            (r, dec.remaining())
        });
        let wall = t0.elapsed();
        let rss_after = guard::max_rss_kib();
        (outcome, wall, rss_before, rss_after)
    });
    obs.last_rss = rss_after;

    let (result, remaining) = match outcome {
        Ok(x) => x,
        Err(panic) => {
            // F-11a: `todo!()` where a repeated dictionary key is found
            let dup = expected.as_ref().err() == Some(&Reject::DuplicateKey);
            if dup {
                obs.label("duplicate-key");
            }
            if dup
                && panic.detail.contains("not yet implemented")
                && (panic.class.contains("decoding.rs") || panic.class.contains("decode_from.rs"))
                && obs.tolerate(cx, "F-11a")
            {
                obs.label("known/F-11a-duplicate-key-todo");
                obs.nontrivial = true;
                return Ok(());
            }
            return Err(Fail::new(
                panic.class,
                format!("decoding {} as {name}: {} (reference: {:?})", hex_clip(input), panic.detail, expected.as_ref().map(|v| S::show(v))),
            ));
        }
    };
    let consumed = input.len().saturating_sub(remaining);

    // cost (before anything else re-arms the counters)
    if input.len() <= COST_INPUT_LIMIT {
        let grew = rss_after.saturating_sub(rss_before);
        let kind = container_kind(&name).to_owned();
        let f11c = |obs: &mut Obs, cx: &mut CaseCtx| kind == "HashMap" && obs.tolerate(cx, "F-11c");
        if grew >= 1024 && grew < RSS_LIMIT_KIB {
            // re-arm the high-water mark, so that several medium steps cannot hide a large one
            guard::reset_max_rss();
            obs.last_rss = guard::max_rss_kib();
        }
        if grew >= RSS_LIMIT_KIB {
            guard::reset_max_rss();
            obs.last_rss = guard::max_rss_kib();
            obs.label("cost/memory-bound-exceeded");
            if f11c(obs, cx) {
                obs.label("known/F-11c-hashmap-reservation");
            } else {
                return Err(Fail::new(
                    format!("cost/memory/{kind}"),
                    format!(
                        "decoding the {}-byte input {} as {name} raised the peak RSS by {} MiB (bound 64 MiB; result {})",
                        input.len(),
                        to_hex(input),
                        grew / 1024,
                        if result.is_ok() { "Ok" } else { "Err" }
                    ),
                ));
            }
        } else if wall >= TIME_LIMIT {
            // noise-free re-measurement: thread CPU time, minimum of three solo repetitions
            let mut best = Duration::MAX;
            for _ in 0..3 {
                let c = guard::with_arena(input.len(), |arena| {
                    let buf: &[u8] = arena.place(input);
                    let c0 = thread_cpu();
                    let _ = guarded(|| {
                        let mut dec = Decoder::new(SliceInputSource::from(buf));
                        let _ = S::imp(&mut dec);
                    });
                    thread_cpu().saturating_sub(c0)
                });
                best = best.min(c);
            }
            guard::reset_max_rss();
            obs.last_rss = guard::max_rss_kib();
            if best >= TIME_LIMIT {
                obs.label("cost/time-bound-exceeded");
                if f11c(obs, cx) {
                    obs.label("known/F-11c-hashmap-reservation");
                } else {
                    return Err(Fail::new(
                        format!("cost/time/{kind}"),
                        format!(
                            "decoding the {}-byte input {} as {name} takes {:?} of CPU time (minimum of 3; bound 50 ms; first wall time {:?})",
                            input.len(),
                            to_hex(input),
                            best,
                            wall
                        ),
                    ));
                }
            }
        }
    }

    // accept / reject / value / consumed prefix
    match (&result, &expected) {
        (Ok(v), Ok(w)) => {
            if !S::same(v, w) {
                return Err(Fail::new(
                    format!("value-mismatch/{name}"),
                    format!("input {} as {name}\n reference {}\n observed  {}", hex_clip(input), S::show(w), S::show(v)),
                ));
            }
            if consumed != ref_consumed {
                return Err(Fail::new(
                    format!("consumed-mismatch/{name}"),
                    format!("input {} as {name}: value {} but {consumed} bytes consumed, reference consumed {ref_consumed}", hex_clip(input), S::show(v)),
                ));
            }
            obs.label("accepted");
        }
        (Ok(v), Err(why)) => {
            return Err(Fail::new(
                format!("accept-mismatch/{why:?}/{name}"),
                format!("input {} must be rejected as {name} ({why:?}) but decoded to {} ({consumed} bytes consumed)", hex_clip(input), S::show(v)),
            ));
        }
        (Err(e), Ok(w)) => {
            return Err(Fail::new(
                format!("reject-mismatch/{}/{name}", error_kind_name(e)),
                format!("input {} is a valid {name} ({}; {ref_consumed} bytes) but was rejected: {e:?}", hex_clip(input), S::show(w)),
            ));
        }
        (Err(_), Err(why)) => {
            obs.label("rejected");
            if *why == Reject::DuplicateKey {
                obs.label("duplicate-key");
            }
        }
    }

    // every error renders
    if let Err(e) = &result {
        let kind = error_kind_name(e);
        obs.label(&format!("err/{kind}"));
        match guarded(|| e.to_string()) {
            Ok(text) => {
                if text.is_empty() {
                    return Err(Fail::new(
                        format!("error-render/empty/{kind}"),
                        format!("input {} as {name}: error {e:?} renders as the empty string", hex_clip(input)),
                    ));
                }
            }
            Err(panic) => {
                let listed = matches!(kind, "InvalidString" | "AllocationError" | "AllocationLimitReached");
                if listed && panic.detail.contains("not yet implemented") && obs.tolerate(cx, "F-11b") {
                    obs.label("known/F-11b-error-display-todo");
                } else {
                    return Err(Fail::new(
                        format!("error-render/{}", panic.class),
                        format!("input {} as {name}: rendering {e:?} failed: {}", hex_clip(input), panic.detail),
                    ));
                }
            }
        }
    }
    Ok(())
}

/// Runs one (type, input) with the labels that depend on the input's shape.
fn decode_case(obs: &mut Obs, cx: &mut CaseCtx, ty: usize, input: &[u8]) -> CaseResult {
    if obs.exclude_open_cost_finding && (ty == 20 || ty == 21) {
        let mut cur: &[u8] = input;
        if let Ok(n) = wire::rd_size(&mut cur) {
            if n >= 1 << 20 && n > cur.len() && obs.tolerate(cx, "F-11c") {
                obs.label("excluded/F-11c-large-hashmap-announcement");
                return Ok(());
            }
        }
    }
    let before = obs.labels.contains("rejected");
    let r = dispatch(ty, obs, cx, input);
    let rejected_now = !before && obs.labels.contains("rejected");
    if !input.is_empty() && (ty >= FIRST_VARIABLE || rejected_now || r.is_err()) {
        obs.nontrivial = true;
    }
    // truncated inside a (top-level) size prefix / width-coded integer
    if ty >= FIRST_VARIABLE && !input.is_empty() && (1usize << (input[0] & 3)) > input.len() {
        obs.label("truncated-in-size-prefix");
    }
    r
}

// ------------------------------------------------------------------------------------------
// exhaustive
// ------------------------------------------------------------------------------------------

fn strings_up_to(max_len: u32) -> u64 {
    (0..=max_len).map(|l| 256u64.pow(l)).sum()
}

fn nth_bytes(mut idx: u64) -> Vec<u8> {
    let mut len = 0u32;
    let mut count = 1u64;
    while idx >= count {
        idx -= count;
        len += 1;
        count *= 256;
    }
    let mut b = vec![0u8; len as usize];
    for pos in (0..len as usize).rev() {
        b[pos] = (idx % 256) as u8;
        idx /= 256;
    }
    b
}

fn exhaustive_case(cx: &mut CaseCtx, input: Input) -> CaseResult {
    let idx = input.index();
    let ty = (idx % N_TYPES as u64) as usize;
    let bytes = nth_bytes(idx / N_TYPES as u64);
    let mut obs = Obs::default();
    let r = decode_case(&mut obs, cx, ty, &bytes);
    if r.is_err() || cx.strict || (cx.shard % 4 == 0 && ty >= 16 && bytes.len() >= 2 && bytes[0] == 0x08) {
        cx.sample_with(|| json!({"type": type_name_of(ty), "input": to_hex(&bytes)}));
    }
    obs.flush(cx);
    r
}

// ------------------------------------------------------------------------------------------
// random: <= 64 bytes assembled from plausible fragments
// ------------------------------------------------------------------------------------------

fn byte(u: &mut Unstructured) -> u8 {
    u.arbitrary::<u8>().unwrap_or(0)
}

fn pick(u: &mut Unstructured, n: usize) -> usize {
    (byte(u) as usize * n) >> 8
}

fn push_varuint_width(out: &mut Vec<u8>, v: u64, code: u32) {
    let n = 1usize << code;
    let word = (v << 2) | code as u64;
    out.extend_from_slice(&word.to_le_bytes()[..n]);
}

fn gen_fragments(u: &mut Unstructured) -> Vec<u8> {
    let mut out = Vec::new();
    let chunks = 1 + pick(u, 10);
    for _ in 0..chunks {
        match byte(u) {
            0..=39 => {
                for _ in 0..1 + pick(u, 4) {
                    out.push(byte(u));
                }
            }
            40..=99 => {
                // a small count in any width (over-long widths are legal on the wire)
                let v = pick(u, 9) as u64;
                let code = pick(u, 4) as u32;
                push_varuint_width(&mut out, v, code);
            }
            100..=124 => {
                // a size near 2^k, shortest width (k mostly small: large announcements have their own family)
                let kb = byte(u) as u64;
                let k = if kb < 200 { kb * 20 / 200 } else { 20 + (kb - 200) * 42 / 56 };
                let v = ((1u64 << k) + pick(u, 3) as u64).saturating_sub(1).min(wire::VARUINT62_MAX);
                out.extend_from_slice(&wire::enc_varuint(v).unwrap());
            }
            125..=139 => {
                // a signed variable-width integer near +-2^k (range checks of varint32)
                let k = pick(u, 62) as u32;
                let mag = (1i64 << k) - 1 + pick(u, 3) as i64;
                let v = if byte(u) & 1 == 0 { mag } else { -mag };
                out.extend_from_slice(&wire::enc_varint(v.clamp(wire::VARINT62_MIN, wire::VARINT62_MAX)).unwrap());
            }
            140..=164 => match pick(u, 4) {
                0 => out.push(0xFC),                                 // tag end marker (varint -1)
                1 => out.extend_from_slice(&[0xFD, 0xFF]),           // the same, two bytes
                2 => out.push((pick(u, 8) as u8) << 2),             // a small tag
                _ => out.extend_from_slice(&wire::enc_varint(i32::MAX as i64 + pick(u, 2) as i64).unwrap()),
            },
            165..=194 => {
                // a short valid string
                let mut f = Features::default();
                let n = pick(u, 5);
                let s: String = (0..n).map(|_| c10::gen_char(u, &mut f)).collect();
                s.ref_encode(&mut out);
            }
            195..=214 => {
                // a string whose bytes are not UTF-8
                const BAD: [&[u8]; 7] = [&[0xFF], &[0xC0, 0x80], &[0xED, 0xA0, 0x80], &[0xE2, 0x82], &[0xF4, 0x90, 0x80, 0x80], &[0x80], &[b'a', 0xF0, 0x9F]];
                let b = BAD[pick(u, BAD.len())];
                out.extend_from_slice(&wire::enc_varuint(b.len() as u64).unwrap());
                out.extend_from_slice(b);
            }
            215..=234 => out.push([0u8, 1, 2, 255][pick(u, 4)]),
            _ => {
                for _ in 0..1 + pick(u, 8) {
                    out.push(0);
                }
            }
        }
    }
    out.truncate(64);
    out
}

fn random_case(cx: &mut CaseCtx, input: Input) -> CaseResult {
    let mut u = Unstructured::new(input.bytes());
    // the variable-length decodables get three quarters of the cases
    let ty = if byte(&mut u) < 64 { pick(&mut u, FIRST_VARIABLE) } else { FIRST_VARIABLE + pick(&mut u, N_TYPES - FIRST_VARIABLE) };
    let bytes = gen_fragments(&mut u);
    cx.key = hash64(&(ty, &bytes));
    let mut obs = Obs { exclude_open_cost_finding: true, ..Obs::default() };
    let r = decode_case(&mut obs, cx, ty, &bytes);
    if r.is_err() || cx.strict || cx.shard % 4 == 2 {
        cx.sample_with(|| json!({"type": type_name_of(ty), "input": to_hex(&bytes)}));
    }
    obs.flush(cx);
    r
}

// ------------------------------------------------------------------------------------------
// mutate: truncations and single-byte corruptions of valid encodings
// ------------------------------------------------------------------------------------------

/// A valid encoding for decodable `ty` from the C10 generators.
fn valid_encoding(u: &mut Unstructured, ty: usize) -> Vec<u8> {
    fn typed<T: Menu + GenValue>(u: &mut Unstructured) -> Vec<u8> {
        let mut f = Features::default();
        wire::ref_bytes(&T::gen(u, 0, &mut f))
    }
    let mut f = Features::default();
    match ty {
        0 => typed::<bool>(u),
        1 => typed::<u8>(u),
        2 => typed::<i8>(u),
        3 => typed::<u16>(u),
        4 => typed::<i16>(u),
        5 => typed::<u32>(u),
        6 => typed::<i32>(u),
        7 => typed::<u64>(u),
        8 => typed::<i64>(u),
        9 => typed::<f32>(u),
        10 => typed::<f64>(u),
        11 => wire::enc_varint(i32::gen(u, 0, &mut f) as i64).unwrap(),
        12 => wire::enc_varint(i64::gen(u, 0, &mut f).clamp(wire::VARINT62_MIN, wire::VARINT62_MAX)).unwrap(),
        13 => wire::enc_varuint(u32::gen(u, 0, &mut f) as u64).unwrap(),
        14 | 15 => wire::enc_varuint(u64::gen(u, 0, &mut f).min(wire::VARUINT62_MAX)).unwrap(),
        16 => typed::<String>(u),
        17 => typed::<Vec<u8>>(u),
        18 => typed::<Vec<String>>(u),
        19 => typed::<Vec<Vec<u16>>>(u),
        20 => typed::<HashMap<u8, u8>>(u),
        21 => typed::<HashMap<String, String>>(u),
        22 => typed::<BTreeMap<u16, String>>(u),
        _ => {
            // 0..3 tagged fields (tag, size, bytes) and the end marker
            let mut out = Vec::new();
            for _ in 0..pick(u, 4) {
                out.extend_from_slice(&wire::enc_varint(i32::gen(u, 0, &mut f).max(0) as i64).unwrap());
                let n = pick(u, 6);
                out.extend_from_slice(&wire::enc_varuint(n as u64).unwrap());
                for _ in 0..n {
                    out.push(byte(u));
                }
            }
            out.push(0xFC);
            out
        }
    }
}

fn corruption_values(b: u8, all: bool) -> Vec<u8> {
    let mut v: Vec<u8> = if all {
        (0..=255u8).collect()
    } else {
        vec![
            b ^ 1, b ^ 2, b ^ 3, b ^ 4, b ^ 0x40, b ^ 0x80, b ^ 0xFF, b.wrapping_add(1), b.wrapping_sub(1), b.wrapping_add(4),
            b.wrapping_sub(4), 0x00, 0x01, 0x02, 0x80, 0xC0, 0xFC, 0xFF,
        ]
    };
    v.sort();
    v.dedup();
    v.retain(|x| *x != b);
    v
}

fn mutate_case(cx: &mut CaseCtx, input: Input) -> CaseResult {
    let mut u = Unstructured::new(input.bytes());
    let ty = if byte(&mut u) < 48 { pick(&mut u, FIRST_VARIABLE) } else { FIRST_VARIABLE + pick(&mut u, N_TYPES - FIRST_VARIABLE) };
    let valid = valid_encoding(&mut u, ty);
    let all_values = cx.tier == Tier::Thorough && valid.len() <= 24;
    cx.key = hash64(&(ty, &valid));
    let mut obs = Obs { exclude_open_cost_finding: true, ..Obs::default() };
    let r = (|| -> CaseResult {
        // the unmodified encoding must be accepted (the differential oracle demands it)
        decode_case(&mut obs, cx, ty, &valid)?;
        let n = valid.len();
        // positions: all of them up to 256 bytes, otherwise head, tail and an even spread
        let positions: Vec<usize> = if n <= 256 {
            (0..n).collect()
        } else {
            let mut p: Vec<usize> = (0..24).chain(n - 24..n).collect();
            p.extend((0..16).map(|i| 24 + i * (n - 48) / 16));
            p.sort();
            p.dedup();
            p
        };
        for &cut in &positions {
            // truncation: the first `cut` bytes
            decode_case(&mut obs, cx, ty, &valid[..cut])?;
            obs.label("mutation/truncation");
        }
        let mut m = valid.clone();
        for &at in &positions {
            let orig = m[at];
            let mut values = corruption_values(orig, all_values);
            if n > 256 {
                values.retain(|x| [orig ^ 1, orig ^ 2, orig ^ 0x80, 0xFF].contains(x));
            }
            for x in values {
                m[at] = x;
                decode_case(&mut obs, cx, ty, &m)?;
            }
            m[at] = orig;
            obs.label("mutation/single-byte-corruption");
        }
        Ok(())
    })();
    if r.is_err() || cx.strict || cx.shard % 4 == 3 {
        cx.sample_with(|| json!({"type": type_name_of(ty), "valid_encoding": hex_clip(&valid), "mutations": "every truncation, single-byte corruptions at every position", "decodes": obs.decodes}));
    }
    obs.flush(cx);
    r
}

// ------------------------------------------------------------------------------------------
// announce-large
// ------------------------------------------------------------------------------------------

const ANNOUNCE_SHAPES: usize = 10;
const ANNOUNCE_KS: usize = 54; // k = 8..=61
const ANNOUNCE_PAYLOADS: usize = 9; // 0..=8 bytes

/// (decodable, bytes in front of the announced size, payload pattern behind it)
fn announce_shape(shape: usize) -> (usize, &'static [u8], &'static [u8], &'static str) {
    match shape {
        0 => (16, &[], b"abcdefgh", "String"),
        1 => (17, &[], &[1, 2, 3, 4, 5, 6, 7, 8], "Vec<u8>"),
        2 => (18, &[], &[4, b'a', 0, 8, b'b', b'c', 4, b'd'], "Vec<String>"),
        3 => (19, &[], &[4, 1, 0, 8, 2, 0, 3, 0], "Vec<Vec<u16>>"),
        4 => (20, &[], &[1, 2, 3, 4, 5, 6, 7, 8], "HashMap<u8,u8>"),
        5 => (21, &[], &[4, b'a', 4, b'b', 4, b'c', 0, 4], "HashMap<String,String>"),
        6 => (22, &[], &[1, 0, 4, b'a', 2, 0, 0, 3], "BTreeMap<u16,String>"),
        // tag 1, then a field size of 2^k
        7 => (23, &[4], &[0; 8], "skip_tagged_fields"),
        // one outer element whose own length is 2^k
        8 => (18, &[4], b"abcdefgh", "Vec<String>/inner"),
        _ => (19, &[4], &[1, 0, 2, 0, 3, 0, 4, 0], "Vec<Vec<u16>>/inner"),
    }
}

fn announce_case(cx: &mut CaseCtx, input: Input) -> CaseResult {
    let idx = input.index() as usize;
    let payload_len = idx % ANNOUNCE_PAYLOADS;
    let k = 8 + (idx / ANNOUNCE_PAYLOADS) % ANNOUNCE_KS;
    let shape = (idx / ANNOUNCE_PAYLOADS / ANNOUNCE_KS) % ANNOUNCE_SHAPES;
    let (ty, front, pattern, label) = announce_shape(shape);
    let mut bytes = front.to_vec();
    bytes.extend_from_slice(&wire::enc_varuint(1u64 << k).unwrap());
    bytes.extend_from_slice(&pattern[..payload_len]);
    let mut obs = Obs::default();
    obs.label(&format!("announce-large/{label}"));
    let r = decode_case(&mut obs, cx, ty, &bytes);
    if r.is_err() || cx.strict || (k == 28 && payload_len == 4) {
        cx.sample_with(|| json!({"type": label, "announced": format!("2^{k}"), "input": to_hex(&bytes)}));
    }
    obs.flush(cx);
    r
}

// ------------------------------------------------------------------------------------------
// duplicate keys
// ------------------------------------------------------------------------------------------

fn duplicate_case(cx: &mut CaseCtx, input: Input) -> CaseResult {
    let mut u = Unstructured::new(input.bytes());
    let which = pick(&mut u, 3);
    let n = 2 + pick(&mut u, 5); // 2..=6 entries
    let mut f = Features::default();
    // entries with distinct keys, as (key bytes, value bytes)
    let mut entries: Vec<(Vec<u8>, Vec<u8>)> = Vec::new();
    for i in 0..n {
        let (k, v) = match which {
            0 => (vec![(i as u8) * 7 + (byte(&mut u) % 7)], vec![byte(&mut u)]),
            1 => {
                let mut key = format!("{i}");
                for _ in 0..pick(&mut u, 3) {
                    key.push(c10::gen_char(&mut u, &mut f));
                }
                let mut val = String::new();
                for _ in 0..pick(&mut u, 3) {
                    val.push(c10::gen_char(&mut u, &mut f));
                }
                (wire::enc_string(&key), wire::enc_string(&val))
            }
            _ => {
                let key = (i as u16) * 1000 + (byte(&mut u) as u16);
                let mut val = String::new();
                for _ in 0..pick(&mut u, 3) {
                    val.push(c10::gen_char(&mut u, &mut f));
                }
                (key.to_le_bytes().to_vec(), wire::enc_string(&val))
            }
        };
        entries.push((k, v));
    }
    // entry j repeats the key of an earlier entry i
    let j = 1 + pick(&mut u, n - 1);
    let i = pick(&mut u, j);
    entries[j].0 = entries[i].0.clone();
    let mut bytes = wire::enc_varuint(n as u64).unwrap();
    for (k, v) in &entries {
        bytes.extend_from_slice(k);
        bytes.extend_from_slice(v);
    }
    // sometimes cut the input after the repeated key's entry, or add trailing bytes
    match byte(&mut u) {
        0..=159 => {}
        160..=209 => bytes.extend_from_slice(&[0xAA, 0xBB]),
        _ => {
            let keep: usize = wire::enc_varuint(n as u64).unwrap().len() + entries[..=j].iter().map(|(k, v)| k.len() + v.len()).sum::<usize>();
            bytes.truncate(keep);
        }
    }
    let ty = 20 + which;
    cx.key = hash64(&(ty, &bytes));
    let mut obs = Obs::default();
    let r = decode_case(&mut obs, cx, ty, &bytes);
    if r.is_err() || cx.strict || cx.shard % 4 == 1 {
        cx.sample_with(|| json!({"type": type_name_of(ty), "input": to_hex(&bytes), "entries": n, "entry": j, "repeats_key_of": i}));
    }
    if r.is_ok() && !obs.labels.contains("duplicate-key") {
        obs.flush(cx);
        return Err(Fail::new("oracle-self-check", format!("generated input {} has no duplicate key according to the reference", to_hex(&bytes))));
    }
    obs.flush(cx);
    r
}

// ------------------------------------------------------------------------------------------
// generator replies through the binary
// ------------------------------------------------------------------------------------------

#[derive(Debug, Default)]
pub struct RefReply {
    pub files: Vec<(String, String)>,
    /// (level, message, source)
    pub diagnostics: Vec<(u8, String, Option<String>)>,
    pub consumed: usize,
}

/// Reference decoding of a generator reply: `Sequence<GeneratedFile>` then `Sequence<Diagnostic>`;
/// GeneratedFile = path, contents, tagged fields up to the end marker; Diagnostic = bit sequence
/// (one bool: has source), level (uint8), message, optional source, tagged fields.  Any level byte
/// is taken here; the caller treats levels above 2 as "either outcome" (the enum is `unchecked`
/// in CodeGenerator.slice, the decoder in the binary is strict).
pub fn ref_reply(input: &[u8]) -> RefResult<RefReply> {
    let mut b: &[u8] = input;
    let mut r = RefReply::default();
    let nf = wire::rd_size(&mut b)?;
    for _ in 0..nf {
        let path = String::ref_decode(&mut b)?;
        let contents = String::ref_decode(&mut b)?;
        wire::rd_skip_tagged(&mut b)?;
        r.files.push((path, contents));
    }
    let nd = wire::rd_size(&mut b)?;
    for _ in 0..nd {
        let has_source = bool::ref_decode(&mut b)?;
        let level = u8::ref_decode(&mut b)?;
        let message = String::ref_decode(&mut b)?;
        let source = if has_source { Some(String::ref_decode(&mut b)?) } else { None };
        wire::rd_skip_tagged(&mut b)?;
        r.diagnostics.push((level, message, source));
    }
    r.consumed = input.len() - b.len();
    Ok(r)
}

pub fn enc_file(path: &str, contents: &str, tagged: &[u8]) -> Vec<u8> {
    let mut b = wire::enc_string(path);
    b.extend_from_slice(&wire::enc_string(contents));
    b.extend_from_slice(tagged);
    b.push(0xFC);
    b
}

pub fn enc_diag(level: u8, message: &str, source: Option<&str>, tagged: &[u8]) -> Vec<u8> {
    let mut b = vec![source.is_some() as u8, level];
    b.extend_from_slice(&wire::enc_string(message));
    if let Some(s) = source {
        b.extend_from_slice(&wire::enc_string(s));
    }
    b.extend_from_slice(tagged);
    b.push(0xFC);
    b
}

pub fn reply_of(files: &[Vec<u8>], diags: &[Vec<u8>]) -> Vec<u8> {
    let mut b = wire::enc_varuint(files.len() as u64).unwrap();
    for f in files {
        b.extend_from_slice(f);
    }
    b.extend_from_slice(&wire::enc_varuint(diags.len() as u64).unwrap());
    for d in diags {
        b.extend_from_slice(d);
    }
    b
}

pub fn reply_shapes() -> Vec<Vec<u8>> {
    let unknown_tag: &[u8] = &[5 << 2, 3 << 2, 9, 8, 7]; // tag 5, 3 bytes
    vec![
        vec![0, 0],
        reply_of(&[enc_file("o1.txt", "hello\n", &[]), enc_file("o2.txt", "h\u{e9}llo \u{1f600}", unknown_tag)], &[]),
        reply_of(
            &[enc_file("o3.txt", "x", &[])],
            &[
                enc_diag(1, "careful", Some("a.slice"), &[]),
                enc_diag(0, "note \u{e9}", None, &[1 << 2, 2 << 2, 9, 9]),
                enc_diag(2, "bad", None, &[]),
            ],
        ),
    ]
}

/// The fixed catalogue of replies (a pure function of the tier).
pub fn reply_catalogue(tier: Tier) -> Vec<(String, Vec<u8>)> {
    let mut c: Vec<(String, Vec<u8>)> = Vec::new();
    c.push(("empty".into(), Vec::new()));
    for b in 0..=255u8 {
        c.push(("one-byte".into(), vec![b]));
    }
    let shapes = reply_shapes();
    for (i, s) in shapes.iter().enumerate() {
        c.push((format!("valid-shape-{i}"), s.clone()));
    }
    for s in shapes.iter().skip(1) {
        for cut in 0..s.len() {
            c.push(("truncation".into(), s[..cut].to_vec()));
        }
    }
    for (si, s) in shapes.iter().enumerate() {
        for at in 0..s.len() {
            let values: Vec<u8> = match tier {
                Tier::Thorough => {
                    // the structurally interesting values and an even spread over the byte range
                    let mut v = vec![s[at] ^ 1, s[at] ^ 2, s[at] ^ 3, s[at] ^ 0x80, 0xFF, 0x00, s[at].wrapping_add(4), s[at] ^ 0x40];
                    v.extend((0..=255u8).step_by(6).map(|x| x.wrapping_add(at as u8)));
                    v.sort();
                    v.dedup();
                    v
                }
                Tier::Quick => {
                    // a sample: one corruption at roughly every second position
                    let h = hash64(&(si as u64, at as u64));
                    if h % 2 == 0 {
                        vec![[s[at] ^ 1, s[at] ^ 2, s[at] ^ 0x80, 0xFF, s[at].wrapping_add(4), s[at] ^ 0x40][(h >> 8) as usize % 6]]
                    } else {
                        Vec::new()
                    }
                }
            };
            for v in values {
                if v != s[at] {
                    let mut m = s.clone();
                    m[at] = v;
                    c.push(("corruption".into(), m));
                }
            }
        }
    }
    // hand-made
    let file = enc_file("o4.txt", "data", &[]);
    let bad_utf8 = |which: usize| -> Vec<u8> {
        // path / contents / message / source carrying the byte FF
        match which {
            0 => reply_of(&[{ let mut f = vec![1 << 2, 0xFF]; f.extend_from_slice(&wire::enc_string("c")); f.push(0xFC); f }], &[]),
            1 => reply_of(&[{ let mut f = wire::enc_string("o5.txt"); f.extend_from_slice(&[2 << 2, b'a', 0xFF, 0xFC]); f }], &[]),
            2 => reply_of(&[], &[vec![0, 1, 2 << 2, 0xC0, 0x80, 0xFC]]),
            _ => reply_of(&[], &[vec![1, 1, 1 << 2, b'm', 1 << 2, 0xFF, 0xFC]]),
        }
    };
    for w in 0..4 {
        c.push(("invalid-utf8".into(), bad_utf8(w)));
    }
    c.push(("invalid-bool".into(), reply_of(&[], &[{ let mut d = enc_diag(1, "m", None, &[]); d[0] = 2; d }])));
    c.push(("invalid-bool".into(), reply_of(&[], &[{ let mut d = enc_diag(1, "m", None, &[]); d[0] = 255; d }])));
    c.push(("level-above-2".into(), reply_of(&[file.clone()], &[enc_diag(3, "m", None, &[])])));
    c.push(("level-above-2".into(), reply_of(&[], &[enc_diag(255, "m", Some("s"), &[])])));
    for k in [8u32, 20, 28, 40, 61] {
        // announced file count / string length / diagnostic count with nothing behind
        c.push(("announce-large".into(), wire::enc_varuint(1u64 << k).unwrap()));
        let mut s = vec![1 << 2];
        s.extend_from_slice(&wire::enc_varuint(1u64 << k).unwrap());
        s.extend_from_slice(b"abc");
        c.push(("announce-large".into(), s));
        let mut d = vec![0u8];
        d.extend_from_slice(&wire::enc_varuint(1u64 << k).unwrap());
        c.push(("announce-large".into(), d));
    }
    // tagged fields: unknown ones are skipped, malformed ones reject
    c.push(("unknown-tagged-fields".into(), reply_of(&[enc_file("o6.txt", "t", &[7 << 2, 0, 9 << 2, 1 << 2, 0xEE])], &[enc_diag(0, "m", None, &[2 << 2, 0])])));
    c.push(("unknown-tagged-fields".into(), reply_of(&[enc_file("o7.txt", "t", &wire::enc_varint(-2).unwrap().iter().copied().chain([0u8]).collect::<Vec<u8>>())], &[])));
    c.push(("overlong-end-marker".into(), { let mut r = vec![1 << 2]; r.extend_from_slice(&wire::enc_string("o8.txt")); r.extend_from_slice(&wire::enc_string("e")); r.extend_from_slice(&[0xFD, 0xFF, 0]); r }));
    c.push(("tag-out-of-range".into(), reply_of(&[enc_file("o9.txt", "t", &wire::enc_varint(1i64 << 31).unwrap().iter().copied().chain([0u8]).collect::<Vec<u8>>())], &[])));
    c.push(("tag-out-of-range".into(), reply_of(&[enc_file("o9.txt", "t", &wire::enc_varint(-(1i64 << 31) - 1).unwrap().iter().copied().chain([0u8]).collect::<Vec<u8>>())], &[])));
    c.push(("tagged-field-truncated".into(), { let mut r = vec![1 << 2]; r.extend_from_slice(&wire::enc_string("oa.txt")); r.extend_from_slice(&wire::enc_string("e")); r.extend_from_slice(&[3 << 2, 5 << 2, 1, 2]); r }));
    c.push(("trailing-bytes".into(), vec![0, 0, 0xAB]));
    c.push(("trailing-bytes".into(), { let mut r = shapes[1].clone(); r.extend_from_slice(&[1, 2, 3]); r }));
    c
}

pub fn safe_path(p: &str) -> bool {
    !p.is_empty()
        && p.len() <= 64
        && p.chars().all(|c| c.is_ascii_alphanumeric() || c == '.' || c == '_' || c == '-')
        && !p.starts_with('.')
        && !p.starts_with('-')
        && !p.starts_with("gen0")
        && p != "a.slice"
}

fn short_site(class: &str) -> String {
    // "panic@/repo/slice-codec/src/error.rs:191" -> "panic@slice-codec/src/error.rs:191"
    match class.split_once("/repo/") {
        Some((head, tail)) if head.ends_with('@') => format!("{head}{tail}"),
        _ => class.to_owned(),
    }
}

fn reply_run(cx: &mut CaseCtx, kind: &str, reply: &[u8]) -> CaseResult {
    let r = reply_inner(cx, kind, reply);
    if r.is_err() || cx.strict || (cx.shard % 4 == 0 && !matches!(kind, "one-byte" | "truncation" | "corruption" | "announce-large")) {
        cx.sample_with(|| json!({"kind": kind, "reply_hex": to_hex(reply), "reference": format!("{:?}", ref_reply(reply))}));
    }
    r
}

fn reply_inner(cx: &mut CaseCtx, kind: &str, reply: &[u8]) -> CaseResult {
    cx.nontrivial = !reply.is_empty();
    cx.key = hash64(&("reply", reply));
    cx.label(format!("reply/{kind}"));
    let reference = ref_reply(reply);
    #[derive(PartialEq, Debug)]
    enum Want {
        Accept,
        Reject,
        Either,
    }
    let want = match &reference {
        Err(_) => Want::Reject,
        // statement: "returns a value after consuming a prefix" — trailing bytes behind a complete
        // reply are not addressed for the compiler; levels above 2 are declared by an unchecked enum
        Ok(r) if r.consumed != reply.len() || r.diagnostics.iter().any(|d| d.0 > 2) => Want::Either,
        Ok(_) => Want::Accept,
    };
    if let Ok(r) = &reference {
        if r.files.iter().any(|f| !safe_path(&f.0)) {
            // the harness does not let the compiler write to a path it did not choose
            cx.label("reply/skipped-unsafe-path");
            return Ok(());
        }
    }
    cx.label(format!("reply/expect-{want:?}").to_lowercase());

    let dir = CaseDir::new(&cx.workdir, cx.shard, cx.case_no);
    dir.write("a.slice", b"module M\nstruct S { a: int32 }\n");
    let gen = dir.install_generator("gen0", &format!("reply_hex={}\n", to_hex(reply)));
    let args = vec![os("a.slice"), os("--generator=./gen0")];
    let r = proc::run_slicec(&dir.path, &args, &[], Duration::from_secs(20));
    let stderr = r.stderr_text();
    let written: Vec<String> = std::fs::read_dir(&dir.path)
        .map(|rd| {
            rd.filter_map(|e| e.ok().map(|e| e.file_name().to_string_lossy().into_owned()))
                .filter(|n| n != "a.slice" && !n.starts_with("gen0"))
                .collect()
        })
        .unwrap_or_default();

    if let Some(crash) = r.crashed() {
        let class = short_site(&format!("reply/{crash}"));
        let display_todo = stderr.contains("error.rs") && stderr.contains("not yet implemented");
        if display_todo && want != Want::Accept && cx.tolerate_known("F-11b") {
            cx.label("known/F-11b-error-display-todo");
            return Ok(());
        }
        return Err(Fail::new(
            class,
            format!("reply {} ({kind}; expected {want:?}): slicec crashed: {}", to_hex(reply), stderr.trim()),
        ));
    }
    if dir.generator_log_lines(&gen) != 1 {
        return Err(Fail::new(
            "reply/generator-not-run-once",
            format!("the generator ran {} times; stderr {}", dir.generator_log_lines(&gen), stderr.trim()),
        ));
    }
    let marker = "error [E001]: unable to run code-generator './gen0'";
    let rejections = stderr.matches(marker).count();
    match want {
        Want::Reject => {
            if rejections != 1 || r.code != Some(1) {
                return Err(Fail::new(
                    format!("reply/accept-mismatch/{:?}", reference.as_ref().err().unwrap()),
                    format!(
                        "reply {} ({kind}) must be rejected ({:?}): expected exit 1 and one `{marker}`, got exit {:?}, {rejections} such message(s); stderr: {}",
                        to_hex(reply),
                        reference.as_ref().err().unwrap(),
                        r.code,
                        stderr.trim()
                    ),
                ));
            }
            if !written.is_empty() {
                return Err(Fail::new(
                    "reply/files-written-for-rejected-reply",
                    format!("reply {} ({kind}) was rejected but these files appeared: {written:?}", to_hex(reply)),
                ));
            }
        }
        Want::Accept => {
            let refr = reference.as_ref().unwrap();
            if rejections != 0 {
                return Err(Fail::new(
                    "reply/reject-mismatch",
                    format!("reply {} ({kind}) is a complete valid reply ({refr:?}) but was rejected: {}", to_hex(reply), stderr.trim()),
                ));
            }
            // An Error-level diagnostic from the generator may legitimately fail the compilation
            // (main.rs: "TODO: convert the diagnostics"); exit status and files are only asserted without one.
            if !refr.diagnostics.iter().any(|d| d.0 == 2) {
                if r.code != Some(0) {
                    return Err(Fail::new(
                        "reply/accepted-but-exit-status",
                        format!("reply {} ({kind}) is valid, expected exit 0, got {:?}; stderr: {}", to_hex(reply), r.code, stderr.trim()),
                    ));
                }
                let mut last: BTreeMap<&str, &str> = BTreeMap::new();
                for (p, c) in &refr.files {
                    last.insert(p, c);
                }
                for (p, c) in last {
                    let got = std::fs::read(dir.path.join(p)).ok();
                    if got.as_deref() != Some(c.as_bytes()) {
                        return Err(Fail::new(
                            "reply/generated-file-content",
                            format!("reply {} ({kind}): file {p:?} should hold {c:?}, found {:?}", to_hex(reply), got.map(|g| String::from_utf8_lossy(&g).into_owned())),
                        ));
                    }
                }
            }
        }
        Want::Either => {
            if !matches!(r.code, Some(0) | Some(1)) {
                return Err(Fail::new(
                    "reply/exit-status",
                    format!("reply {} ({kind}): exit {:?}; stderr: {}", to_hex(reply), r.code, stderr.trim()),
                ));
            }
        }
    }
    Ok(())
}

// ------------------------------------------------------------------------------------------

fn selftest(ctx: &mut ShardCtx) {
    // once per run: the guard page really faults here, and the address-space cap is in force
    if ctx.shard != 0 || ctx.violation.is_some() {
        return;
    }
    let cap = guard::cap_address_space(AS_CAP);
    if guard::guard_page_selftest() {
        ctx.bulk("selftest/guard-page-faults", 1);
    }
    if cap <= AS_CAP {
        ctx.bulk("selftest/address-space-capped", 1);
    }
    ctx.add_evaluations("selftest", 2, 0, true, 2);
}

impl Check for C11 {
    fn id(&self) -> &'static str {
        "C11"
    }
    fn rule(&self) -> String {
        "oracle: differential against the reference decoder (wire.rs): Ok <=> Ok, equal value, identical consumed prefix; no panic; input flush against a PROT_NONE page; every Err renders (to_string non-empty, no panic); inputs <= 64 bytes cost < 50 ms thread CPU (min of 3) and < 64 MiB peak-RSS growth; workers capped at 3 GiB address space. 24 decodables: bool, u8..i64, f32, f64, varint as i32/i64, varuint as u32/u64, size, String, Vec<u8>, Vec<String>, Vec<Vec<u16>>, HashMap<u8,u8>, HashMap<String,String>, BTreeMap<u16,String>, skip_tagged_fields. families: exhaustive = every byte string of length <= N (2 quick, 3 thorough) x 24; random = <= 64 bytes assembled from size prefixes of every width, near-2^k sizes, tag markers, valid and non-UTF-8 strings, bool-like bytes; mutate = valid encodings from the C10 generators, each with every truncation and single-byte corruptions (18 values per position quick, all 255 for short encodings thorough) at every position (sampled positions above 256 bytes); announce-large = size 2^k (k=8..61) before 0..8 payload bytes x 10 container shapes; duplicate-keys = dictionaries of 2..6 entries where a later entry repeats an earlier key; reply = fixed catalogue of generator replies (all strings of length <= 1, truncations and sampled corruptions of three valid shapes, invalid bool / UTF-8 / level, announce-large, tagged fields) sent by a fake generator to the real slicec binary, accept/reject predicted by the reference decoder. Non-trivial = non-empty input that reaches a width code, size prefix, container or an error path; distinct by (type, input)".into()
    }
    fn assumptions(&self) -> Vec<String> {
        vec![
            "over-long variable-width encodings are legal on the wire (reference and implementation both accept them)".into(),
            "which error kind is returned is not compared, only that decoding fails and that the error renders".into(),
            "reply: a DiagnosticLevel above 2 (unchecked enum in CodeGenerator.slice, strict decoder in the binary) and trailing bytes behind a complete reply are accepted either way; with an Error-level diagnostic only the absence of a rejection message is asserted".into(),
            "replies whose reference-decoded file paths are not plain file names are not run (the harness does not let the compiler write outside the case directory)".into(),
            "untouched virtual reservations are not cost; cost bounds apply to inputs of at most 64 bytes".into(),
        ]
    }
    fn essential(&self, _tier: Tier) -> Vec<&'static str> {
        vec![
            "selftest/guard-page-faults",
            "selftest/address-space-capped",
            "accepted",
            "rejected",
            "err/UnexpectedEob",
            "err/IllegalValue",
            "err/OutOfRange",
            "err/InvalidString",
            "err/AllocationError",
            "duplicate-key",
            "truncated-in-size-prefix",
            "mutation/truncation",
            "mutation/single-byte-corruption",
            "announce-large/String",
            "announce-large/Vec<u8>",
            "announce-large/Vec<String>",
            "announce-large/Vec<Vec<u16>>",
            "announce-large/HashMap<u8,u8>",
            "announce-large/HashMap<String,String>",
            "announce-large/BTreeMap<u16,String>",
            "announce-large/skip_tagged_fields",
            "reply/expect-accept",
            "reply/expect-reject",
            "reply/expect-either",
            "reply/truncation",
            "reply/corruption",
            "reply/invalid-utf8",
            "reply/invalid-bool",
            "reply/announce-large",
            "reply/unknown-tagged-fields",
        ]
    }
    fn needs_binary(&self) -> bool {
        true
    }
    fn fuzz_families(&self, tier: Tier) -> Vec<(&'static str, u64)> {
        // libFuzzer runs per job (16 jobs), sized from the measured speed of the instrumented build
        // (`mutate` decodes every truncation and corruption of its input: ~17 cases/s under ASan)
        let _ = tier;
        vec![("random", 1_000_000), ("mutate", 1_000), ("duplicate-keys", 200_000)]
    }
    fn families(&self, tier: Tier) -> Vec<Family<'_>> {
        let max_len = tier.pick(2, 3);
        let catalogue = reply_catalogue(tier);
        let n_reply = catalogue.len() as u64;
        vec![
            Family::custom("selftest", selftest),
            Family::enumerate("announce-large", (ANNOUNCE_SHAPES * ANNOUNCE_KS * ANNOUNCE_PAYLOADS) as u64, 1, announce_case),
            Family::bytes("duplicate-keys", 96, tier.pick(2_000, 20_000), duplicate_case),
            Family::enumerate("reply", n_reply, 1, move |cx, i| {
                let (kind, bytes) = &catalogue[i.index() as usize];
                reply_run(cx, kind, bytes)
            }),
            Family::enumerate("exhaustive", strings_up_to(max_len) * N_TYPES as u64, 1, exhaustive_case),
            Family::bytes("random", 160, tier.pick(150_000, 1_500_000), random_case),
            Family::bytes("mutate", 512, tier.pick(6_000, 40_000), mutate_case),
            Family::replay_only("direct", |cx, i| {
                // input bytes: one byte selecting the decodable (index into the list of 24 in `rule`,
                // 0 = bool ... 16 = String ... 20 = HashMap<u8,u8> ... 23 = skip_tagged_fields),
                // followed by the raw bytes to decode
                let b = i.bytes();
                let ty = b.first().copied().unwrap_or(0) as usize % N_TYPES;
                let raw = b.get(1..).unwrap_or(&[]);
                cx.sample_with(|| json!({"type": type_name_of(ty), "input": to_hex(raw)}));
                let mut obs = Obs::default();
                let r = decode_case(&mut obs, cx, ty, raw);
                obs.flush(cx);
                cx.nontrivial = true;
                r
            }),
            Family::replay_only("direct-reply", |cx, i| {
                // input bytes: the raw reply a generator writes to stdout
                reply_run(cx, "direct", i.bytes())
            }),
        ]
    }
}
