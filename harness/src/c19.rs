//! C19 — generator specifications parse back to the path and arguments that were written.
//!
//! Oracle: an independent reference parser written from the property statement
//! (split-then-unescape), compared with `SliceOptions::try_parse_from` on
//!  * every string of length <= 5 (quick) / <= 6 (thorough) over {a, space, ',', '=', '\'},
//!  * random path / argument lists over all of Unicode rendered through the escaping function,
//!  * 1..3 repeated generator options in three argv spellings,
//! and, through the binary, with the argument section a fake generator receives on stdin.

use crate::engine::*;
use crate::proc::{self, os, CaseDir};
use crate::{check, fail};
use arbitrary::Unstructured;
use serde_json::json;
use slicec::slice_options::SliceOptions;
use std::time::Duration;

pub struct C19;

pub type Parsed = (String, Vec<(String, String)>);

/// Reference parser, from the statement: remove one trailing unescaped ','; split at unescaped
/// ','; the first component is the path ('=' literal); every further component splits at its
/// first unescaped '=' (a second one rejects); `\,` and `\=` unescape, every other backslash is
/// literal; components are trimmed; an empty path or key rejects; no '=' gives an empty value.
pub fn reference_parse(spec: &str) -> Result<Parsed, &'static str> {
    // 1. tokenise: (char, is_unescaped_separator)
    let mut toks: Vec<(char, bool)> = Vec::new();
    let chars: Vec<char> = spec.chars().collect();
    let mut i = 0;
    while i < chars.len() {
        let c = chars[i];
        if c == '\\' && i + 1 < chars.len() && (chars[i + 1] == ',' || chars[i + 1] == '=') {
            toks.push((chars[i + 1], false));
            i += 2;
        } else {
            toks.push((c, c == ',' || c == '='));
            i += 1;
        }
    }
    // 2. one trailing unescaped comma is ignored
    if toks.last() == Some(&(',', true)) {
        toks.pop();
    }
    // 3. split at unescaped commas
    let mut comps: Vec<Vec<(char, bool)>> = vec![Vec::new()];
    for t in toks {
        if t == (',', true) {
            comps.push(Vec::new());
        } else {
            comps.last_mut().unwrap().push(t);
        }
    }
    let path: String = comps[0].iter().map(|t| t.0).collect::<String>().trim().to_owned();
    let mut args = Vec::new();
    for comp in &comps[1..] {
        let mut key = String::new();
        let mut value = String::new();
        let mut seen_eq = false;
        for (c, special) in comp {
            if *special && *c == '=' {
                if seen_eq {
                    return Err("second unescaped '='");
                }
                seen_eq = true;
            } else if seen_eq {
                value.push(*c);
            } else {
                key.push(*c);
            }
        }
        args.push((key.trim().to_owned(), value.trim().to_owned()));
    }
    if path.is_empty() {
        return Err("empty path");
    }
    if args.iter().any(|a| a.0.is_empty()) {
        return Err("empty key");
    }
    Ok((path, args))
}

/// The escaping function of the statement: every ',' and '=' inside a component gets a backslash.
pub fn escape_component(s: &str) -> String {
    let mut out = String::new();
    for c in s.chars() {
        if c == ',' || c == '=' {
            out.push('\\');
        }
        out.push(c);
    }
    out
}

#[derive(Clone, Copy, Debug)]
enum Form {
    /// `--generator=<spec>`
    LongEq,
    /// `-G <spec>` (two argv entries)
    ShortSep,
    /// `--generator <spec>`
    LongSep,
}

fn argv_for(specs: &[(String, Form)]) -> Vec<String> {
    let mut argv = vec!["slicec".to_owned()];
    for (s, f) in specs {
        match f {
            Form::LongEq => argv.push(format!("--generator={s}")),
            Form::ShortSep => {
                argv.push("-G".into());
                argv.push(s.clone());
            }
            Form::LongSep => {
                argv.push("--generator".into());
                argv.push(s.clone());
            }
        }
    }
    argv
}

/// Runs the implementation in-process.  Ok(Some(list)) = accepted, Ok(None) = usage error,
/// Err = property failure (wrong kind of rejection).
fn implementation(argv: &[String]) -> Result<Option<Vec<Parsed>>, Fail> {
    use clap::Parser;
    match SliceOptions::try_parse_from(argv.iter()) {
        Ok(opts) => Ok(Some(
            opts.generators.iter().map(|g| (g.path.clone(), g.args.clone())).collect(),
        )),
        Err(e) => {
            if e.exit_code() != 2 {
                return Err(Fail::new(
                    "reject-not-usage-error",
                    format!("argv {argv:?}: rejected with exit code {} ({:?})", e.exit_code(), e.kind()),
                ));
            }
            let text = e.render().to_string();
            if !text.contains("error:") {
                return Err(Fail::new(
                    "reject-without-message",
                    format!("argv {argv:?}: rejection renders as {text:?}"),
                ));
            }
            Ok(None)
        }
    }
}

fn compare(cx: &mut CaseCtx, specs: &[(String, Form)]) -> CaseResult {
    let argv = argv_for(specs);
    let expected: Result<Vec<Parsed>, &'static str> = specs.iter().map(|(s, _)| reference_parse(s)).collect();
    let got = implementation(&argv)?;
    cx.label(if expected.is_ok() { "accepted" } else { "rejected" });
    match (&expected, &got) {
        (Ok(e), Some(g)) => {
            check!(
                e == g,
                "accept/value-mismatch",
                "argv {argv:?}\n expected {e:?}\n observed {g:?}"
            );
        }
        (Err(_), None) => {}
        (Ok(e), None) => fail!(
            "reject-mismatch/should-accept",
            "argv {argv:?}: the statement says this parses to {e:?} but it was rejected"
        ),
        (Err(why), Some(g)) => fail!(
            "accept-mismatch/should-reject",
            "argv {argv:?}: must be rejected ({why}) but was accepted as {g:?}"
        ),
    }
    Ok(())
}

const ALPHABET: [char; 5] = ['a', ' ', ',', '=', '\\'];

fn nth_string(mut idx: u64, max_len: u32) -> String {
    // strings ordered by length, then lexicographically over ALPHABET
    let mut len = 0u32;
    let mut count = 1u64;
    while idx >= count {
        idx -= count;
        len += 1;
        count *= 5;
        assert!(len <= max_len);
    }
    let mut s = vec!['a'; len as usize];
    for pos in (0..len as usize).rev() {
        s[pos] = ALPHABET[(idx % 5) as usize];
        idx /= 5;
    }
    s.into_iter().collect()
}

fn total_strings(max_len: u32) -> u64 {
    (0..=max_len).map(|l| 5u64.pow(l)).sum()
}

const FORMS: [Form; 3] = [Form::LongEq, Form::ShortSep, Form::LongSep];

fn exhaustive_case(cx: &mut CaseCtx, input: Input, max_len: u32) -> CaseResult {
    let idx = input.index();
    let n = total_strings(max_len);
    let form = FORMS[(idx / n) as usize % 3];
    let spec = nth_string(idx % n, max_len);
    // A value that starts with '-' cannot be given as a separate argv entry (clap reads an option):
    // the alphabet has no '-', so all three forms are sound here.
    cx.nontrivial = spec.contains(',') || spec.contains('=') || spec.contains('\\');
    cx.label_if(spec.is_empty(), "empty-string");
    cx.label_if(spec.contains("\\,") || spec.contains("\\="), "has-escape");
    cx.label_if(spec.ends_with(',') && !spec.ends_with("\\,"), "trailing-comma");
    cx.label(match form {
        Form::LongEq => "form--generator=",
        Form::ShortSep => "form-G-sep",
        Form::LongSep => "form--generator-sep",
    });
    cx.sample_with(|| json!({"spec": spec, "form": format!("{form:?}"), "reference": format!("{:?}", reference_parse(&spec))}));
    compare(cx, &[(spec.clone(), form)])
}

// ---- random round trip -------------------------------------------------------------------

const INTERESTING: &[char] = &[
    ',', '=', '\\', ' ', '\t', 'a', 'Z', '0', '/', '.', '-', '"', '\'', '\u{a0}', '\u{3000}', '\u{e9}', '\u{4e2d}',
    '\u{1f600}', '\u{2028}', '\u{feff}', '\u{301}', '\n', '\r', ':', ';', '#', '%', '$', '{', '}', '[', ']', '\u{7f}',
    '\u{85}', '\u{200b}',
];

fn gen_char(u: &mut Unstructured) -> char {
    let sel = u.arbitrary::<u8>().unwrap_or(0);
    if sel < 200 {
        INTERESTING[(sel as usize * INTERESTING.len()) / 200]
    } else {
        let v = u.arbitrary::<u32>().unwrap_or(0x61) % 0x11_0000;
        char::from_u32(v).filter(|c| *c != '\0').unwrap_or('a')
    }
}

fn gen_component(u: &mut Unstructured, allow_empty: bool) -> String {
    let len = (u.arbitrary::<u8>().unwrap_or(0) % 9) as usize;
    let mut s = String::new();
    for _ in 0..len {
        s.push(gen_char(u));
    }
    // components that end in a backslash are inexpressible (stated in the property)
    while s.ends_with('\\') {
        s.pop();
    }
    if !allow_empty && s.trim().is_empty() {
        s.push('g');
    }
    s
}

fn gen_ws(u: &mut Unstructured) -> String {
    const WS: [&str; 6] = ["", "", " ", "  ", "\t", "\u{a0} "];
    WS[(u.arbitrary::<u8>().unwrap_or(0) as usize * WS.len()) >> 8].to_owned()
}

struct GenSpec {
    spec: String,
    path: String,
    args: Vec<(String, String)>,
}

fn gen_spec(u: &mut Unstructured) -> GenSpec {
    let mut path = gen_component(u, false);
    // A leading '-' in the *first* component would be read by clap as an option in the
    // two-entry forms; the LongEq form is used for those (decided by the caller).
    if path.trim().is_empty() {
        path = "g".into();
    }
    let nargs = (u.arbitrary::<u8>().unwrap_or(0) % 7) as usize;
    let mut args = Vec::new();
    let mut spec = format!("{}{}{}", gen_ws(u), escape_component(&path), gen_ws(u));
    for _ in 0..nargs {
        let key = gen_component(u, false);
        let value = gen_component(u, true);
        spec.push(',');
        spec.push_str(&gen_ws(u));
        spec.push_str(&escape_component(&key));
        spec.push_str(&gen_ws(u));
        let omit_eq = value.trim().is_empty() && u.arbitrary::<bool>().unwrap_or(false);
        if !omit_eq {
            spec.push('=');
            spec.push_str(&gen_ws(u));
            spec.push_str(&escape_component(&value));
            spec.push_str(&gen_ws(u));
        }
        args.push((key, value));
    }
    if u.arbitrary::<u8>().unwrap_or(0) < 90 {
        spec.push(',');
    }
    GenSpec { spec, path, args }
}

fn trimmed(g: &GenSpec) -> Parsed {
    (
        g.path.trim().to_owned(),
        g.args.iter().map(|(k, v)| (k.trim().to_owned(), v.trim().to_owned())).collect(),
    )
}

fn roundtrip_case(cx: &mut CaseCtx, input: Input) -> CaseResult {
    let mut u = Unstructured::new(input.bytes());
    let n = 1 + (u.arbitrary::<u8>().unwrap_or(0) % 3) as usize;
    let mut specs = Vec::new();
    let mut expected = Vec::new();
    for _ in 0..n {
        let g = gen_spec(&mut u);
        // A written component whose trimmed form is empty is "an empty key / path" and handled by
        // the exhaustive family; here all keys and paths are non-empty after trimming.
        let form = if g.spec.starts_with('-') {
            Form::LongEq
        } else {
            FORMS[(u.arbitrary::<u8>().unwrap_or(0) as usize * 3) >> 8]
        };
        expected.push(trimmed(&g));
        specs.push((g.spec, form));
    }
    let has_sep = specs
        .iter()
        .any(|(s, _)| s.contains("\\,") || s.contains("\\=") || s.matches(',').count() > 0);
    cx.nontrivial = has_sep;
    cx.label_if(specs.iter().any(|(s, _)| s.contains("\\,") || s.contains("\\=")), "has-escape");
    cx.label_if(specs.len() > 1, "repeated-G");
    cx.label_if(specs.iter().any(|(s, _)| !s.is_ascii()), "non-ascii");
    cx.label_if(specs.iter().any(|(s, _)| s.contains("\\\\")), "literal-backslash-before-escape");
    cx.label_if(expected.iter().any(|e| e.1.iter().any(|a| a.1.is_empty())), "empty-value");
    cx.sample_with(|| json!({"specs": specs.iter().map(|s| s.0.clone()).collect::<Vec<_>>(), "expected": format!("{expected:?}")}));
    let argv = argv_for(&specs);
    // (1) the round trip stated by the property
    match implementation(&argv)? {
        Some(got) => {
            check!(
                got == expected,
                "roundtrip/value-mismatch",
                "argv {argv:?}\n written  {expected:?}\n observed {got:?}"
            );
        }
        None => fail!(
            "roundtrip/rejected",
            "argv {argv:?}: a well-formed specification of {expected:?} was rejected"
        ),
    }
    // (2) the reference parser agrees with the written components (self-check of the oracle)
    for ((s, _), e) in specs.iter().zip(&expected) {
        let r = reference_parse(s);
        check!(
            r.as_ref().ok() == Some(e),
            "oracle-self-check",
            "reference parser disagrees with the escaping function on {s:?}: {r:?} vs {e:?}"
        );
    }
    Ok(())
}

// ---- through the binary --------------------------------------------------------------------

/// Decodes the `Arguments` dictionary a generator receives after the request.
fn decode_arguments(mut b: &[u8]) -> Option<Vec<(String, String)>> {
    let n = crate::wire::read_varuint(&mut b)?;
    let mut out = Vec::new();
    for _ in 0..n {
        let k = crate::wire::read_string(&mut b)?;
        let v = crate::wire::read_string(&mut b)?;
        out.push((k, v));
    }
    if b.is_empty() {
        Some(out)
    } else {
        None
    }
}

fn binary_case(cx: &mut CaseCtx, input: Input) -> CaseResult {
    let mut u = Unstructured::new(input.bytes());
    let dir = CaseDir::new(&cx.workdir, cx.shard, cx.case_no);
    dir.write("a.slice", b"module M\nstruct S { a: int32 }\n");
    let want_reject = u.arbitrary::<u8>().unwrap_or(0) < 60;
    let g0 = dir.install_generator("gen0", "");
    let gens = [dir.install_generator("gen1", ""), dir.install_generator("gen2", "")];
    let mut args = vec![os("a.slice"), os("--generator=./gen0")];
    // 1..3 specifications after the argument-less gen0; each names gen1 or gen2, so that the same
    // path can be given twice in a row or with another one in between ("repeated -G options")
    let nspecs = if want_reject { 1 } else { 1 + (u.arbitrary::<u8>().unwrap_or(0) % 3) as usize };
    let mut specs: Vec<(usize, String, Vec<(String, String)>)> = Vec::new();
    for _ in 0..nspecs {
        let which = (u.arbitrary::<u8>().unwrap_or(0) % 2) as usize;
        let mut g = gen_spec(&mut u);
        // argv cannot carry NUL; paths are fixed to the installed generators
        g.args.retain(|(k, v)| !k.contains('\0') && !v.contains('\0'));
        // now and then a long value or many pairs ("any list of key/value arguments")
        match u.arbitrary::<u8>().unwrap_or(0) % 8 {
            0 => {
                // (63 / 64 and 16383 / 16384 bytes are where the size prefix of a string changes width)
                let n = [63usize, 64, 65, 300, 1100, 2100, 5000, 16383, 16384, 16385][(u.arbitrary::<u8>().unwrap_or(0) % 10) as usize];
                let mut v = "v,=é".repeat(n / 5);
                while v.len() < n {
                    v.push('x');
                }
                g.args.push(("long".into(), v));
                cx.label("binary-long-value");
            }
            1 => {
                for k in 0..48 {
                    g.args.push((format!("key{k}"), format!("value number {k} of many")));
                }
                cx.label("binary-many-arguments");
            }
            _ => {}
        }
        let mut spec = format!(" ./gen{} ", which + 1);
        for (k, v) in &g.args {
            spec.push(',');
            spec.push_str(&escape_component(k));
            spec.push('=');
            spec.push_str(&escape_component(v));
        }
        let expected: Vec<(String, String)> = g.args.iter().map(|(k, v)| (k.trim().to_owned(), v.trim().to_owned())).collect();
        specs.push((which, spec, expected));
    }
    if want_reject {
        // (a path or key that is nothing but white space - of any kind - is empty)
        const BAD: [&str; 10] = ["", ",", " ", "./gen1,=v", "./gen1,k=v=w", "./gen1,,k=v", "\u{a0}", "./gen1,\u{2003}=v", "\u{3000} ,k=v", "./gen1, \u{b} =v"];
        specs[0].1 = BAD[(u.arbitrary::<u8>().unwrap_or(0) as usize * BAD.len()) >> 8].to_owned();
    }
    cx.nontrivial = true;
    cx.label(if want_reject { "binary-reject" } else { "binary-accept" });
    let same_path_twice_in_a_row = specs.windows(2).any(|w| w[0].0 == w[1].0);
    cx.label_if(same_path_twice_in_a_row, "binary-same-generator-twice-in-a-row");
    cx.label_if(specs.len() == 3 && specs[0].0 == specs[2].0 && specs[0].0 != specs[1].0, "binary-same-generator-with-another-between");
    cx.sample_with(|| {
        let mut argv = vec!["a.slice".to_owned(), "--generator=./gen0".to_owned()];
        argv.extend(specs.iter().map(|s| format!("--generator={}", if s.1.len() > 300 { format!("{}... ({} bytes)", s.1.chars().take(120).collect::<String>(), s.1.len()) } else { s.1.clone() })));
        json!({ "argv": argv })
    });
    for (_, spec, _) in &specs {
        if spec.is_empty() {
            // `--generator=` is refused by clap itself; the two-entry form reaches the value parser
            args.push(os("-G"));
            args.push(os(""));
        } else {
            args.push(os(&format!("--generator={spec}")));
        }
    }
    let r = proc::run_slicec(&dir.path, &args, &[], Duration::from_secs(20));
    let shown = format!("{:?}", args.iter().map(|a| { let t = a.to_string_lossy(); if t.len() > 200 { format!("{}...({} bytes)", t.chars().take(100).collect::<String>(), t.len()) } else { t.into_owned() } }).collect::<Vec<_>>());
    if let Some(c) = r.crashed() {
        fail!(format!("binary/{c}"), "argv {shown}: slicec crashed: {}", r.stderr_text());
    }
    if want_reject {
        check!(
            r.code == Some(2),
            "binary/reject-exit-status",
            "argv {shown}: expected usage error (exit 2), got {:?}; stderr {}",
            r.code,
            r.stderr_text()
        );
        check!(
            r.stderr_text().contains("error:"),
            "binary/reject-no-usage-text",
            "argv {shown}: no error text on stderr: {}",
            r.stderr_text()
        );
        check!(
            dir.generator_log_lines(&g0) == 0 && gens.iter().all(|g| dir.generator_log_lines(g) == 0),
            "binary/generator-ran-after-usage-error",
            "argv {shown}: a generator was started although the command line was rejected"
        );
        return Ok(());
    }
    check!(
        r.code == Some(0),
        "binary/accept-exit-status",
        "argv {shown}: expected exit 0, got {:?}; stderr {}",
        r.code,
        r.stderr_text()
    );
    let Some(s0) = dir.generator_stdin(&g0) else {
        fail!("binary/generator-not-run", "argv {shown}: gen0 did not run; stderr {}", r.stderr_text());
    };
    // gen0 has no arguments: its stdin is request ++ [0x00]
    check!(s0.last() == Some(&0), "binary/request-prefix-differs", "argv {shown}: gen0's input does not end in an empty argument list");
    // every specification starts its generator once, in the order given, with its own arguments
    for (w, g) in gens.iter().enumerate() {
        let want = specs.iter().filter(|s| s.0 == w).count();
        let ran = dir.generator_log_lines(g);
        check!(
            ran == want,
            "binary/generator-runs",
            "argv {shown}: gen{} was named by {want} specification(s) but ran {ran} time(s); stderr {}",
            w + 1,
            r.stderr_text()
        );
    }
    // Generators run in parallel, so which invocation of a generator belongs to which specification is
    // not observable: the argument lists its invocations read must be those written for it, as a multiset.
    for (w, g) in gens.iter().enumerate() {
        let mut want: Vec<&Vec<(String, String)>> = specs.iter().filter(|s| s.0 == w).map(|s| &s.2).collect();
        for k in 1..=want.len() {
            let Some(s1) = dir.generator_stdin_nth(g, k) else {
                fail!("binary/generator-not-run", "argv {shown}: invocation {k} of gen{} left no input; stderr {}", w + 1, r.stderr_text());
            };
            check!(
                s1.len() >= s0.len() - 1 && s1[..s0.len() - 1] == s0[..s0.len() - 1],
                "binary/request-prefix-differs",
                "argv {shown}: generators did not receive the same request"
            );
            let tail = &s1[s0.len() - 1..];
            let got = decode_arguments(tail);
            let pos = got.as_ref().and_then(|g| want.iter().position(|e| *e == g));
            match pos {
                Some(i) => {
                    want.remove(i);
                }
                None => fail!(
                    "binary/arguments-mismatch",
                    "argv {shown}\n an invocation of gen{} received {:?}... ({} bytes), which is none of the argument lists written for it (still unmatched: {:?})",
                    w + 1,
                    got.as_ref().map(|g| g.iter().take(4).collect::<Vec<_>>()),
                    tail.len(),
                    want.iter().map(|e| e.iter().take(4).collect::<Vec<_>>()).collect::<Vec<_>>()
                ),
            }
        }
    }
    Ok(())
}

impl Check for C19 {
    fn id(&self) -> &'static str {
        "C19"
    }
    fn rule(&self) -> String {
        "families: exhaustive = every string of length <= N (5 quick, 6 thorough) over {a,space,',','=','\\'} x 3 argv spellings, compared with a reference parser written from the statement (accept/reject and values); roundtrip = proptest choice sequences -> 1..3 specs of random Unicode path + 0..6 pairs rendered through the escaping function with random white space / trailing comma / omitted '=' for empty values, parsed back in-process; binary = an argument-less generator followed by 1..3 specs naming one of two generators (so that the same path is given twice in a row, or with the other one in between), now and then with a value of 63 .. 16385 bytes (incl. the sizes at which the wire's size prefix changes width) or 48 extra pairs, given to the real slicec binary: every specification starts its generator once, in order, and the argument section each invocation reads decodes to its own pairs. Non-trivial = the spec contains a separator, an escape or a backslash; distinct by (family, input)".into()
    }
    fn assumptions(&self) -> Vec<String> {
        vec![
            "components do not end in a backslash (inexpressible, as the property states) and argv carries no NUL".into(),
            "a usage error is clap's exit code 2 with an 'error:' message; the exact wording is not asserted".into(),
        ]
    }
    fn essential(&self, _tier: Tier) -> Vec<&'static str> {
        vec![
            "empty-string",
            "has-escape",
            "trailing-comma",
            "accepted",
            "rejected",
            "repeated-G",
            "non-ascii",
            "binary-accept",
            "binary-reject",
            "binary-same-generator-twice-in-a-row",
            "binary-same-generator-with-another-between",
            "binary-long-value",
            "binary-many-arguments",
            "empty-value",
        ]
    }
    fn needs_binary(&self) -> bool {
        true
    }
    fn fuzz_families(&self, _tier: Tier) -> Vec<(&'static str, u64)> {
        // libFuzzer runs per job (16 jobs), sized from the measured speed of the instrumented build
        vec![("roundtrip", 100000)]
    }
    fn families(&self, tier: Tier) -> Vec<Family<'_>> {
        let max_len = tier.pick(5, 7);
        let total = total_strings(max_len) * 3;
        vec![
            Family::enumerate("exhaustive", total, 1, move |cx, i| exhaustive_case(cx, i, max_len)),
            Family::bytes("roundtrip", 160, tier.pick(20_000, 400_000), roundtrip_case),
            Family::bytes("binary", 256, tier.pick(80, 1500), binary_case),
            Family::replay_only("direct", |cx, i| {
                // regression inputs: the bytes are the spec itself, given as `-G <spec>`
                let spec = String::from_utf8_lossy(i.bytes()).into_owned();
                cx.nontrivial = true;
                cx.sample_with(|| json!({"spec": spec}));
                for f in FORMS {
                    if matches!(f, Form::LongEq) && spec.is_empty() {
                        continue;
                    }
                    compare(cx, &[(spec.clone(), f)])?;
                }
                Ok(())
            }),
        ]
    }
}
